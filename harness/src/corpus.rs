//! Static seed corpus (inputs only, never an oracle): files under <root>/corpus/{sv,lib,pp}.

use std::path::Path;

pub struct CorpusFile {
    pub name: String,
    pub text: String,
}

#[derive(Default)]
pub struct Corpus {
    pub sv: Vec<CorpusFile>,
    pub lib: Vec<CorpusFile>,
    pub pp: Vec<CorpusFile>,
}

fn load_dir(dir: &Path) -> Vec<CorpusFile> {
    let mut out = Vec::new();
    let mut names: Vec<_> = match std::fs::read_dir(dir) {
        Ok(rd) => rd.filter_map(|e| e.ok()).map(|e| e.path()).collect(),
        Err(_) => return out,
    };
    names.sort();
    for p in names {
        if let Ok(text) = std::fs::read_to_string(&p) {
            out.push(CorpusFile {
                name: p.file_name().unwrap().to_string_lossy().to_string(),
                text,
            });
        }
    }
    out
}

impl Corpus {
    pub fn load(root: &Path) -> Corpus {
        Corpus {
            sv: load_dir(&root.join("corpus/sv")),
            lib: load_dir(&root.join("corpus/lib")),
            pp: load_dir(&root.join("corpus/pp")),
        }
    }
}
