//! Developer helpers (not used by registered checks): `svcheck dev svgen <n> <seed>` etc.

use crate::gen::layout::{Feats, TriviaCfg};
use crate::gen::svgen;
use crate::sv;
use crate::tape::Tape;

fn lcg(seed: &mut u64) -> u32 {
    *seed = seed.wrapping_mul(6364136223846793005).wrapping_add(1442695040888963407);
    (*seed >> 32) as u32
}

pub fn run(args: &[String]) -> i32 {
    match args.get(0).map(|s| s.as_str()) {
        Some("svgen") => {
            let n: usize = args.get(1).and_then(|s| s.parse().ok()).unwrap_or(100);
            let mut seed: u64 = args.get(2).and_then(|s| s.parse().ok()).unwrap_or(1);
            let len: usize = args.get(3).and_then(|s| s.parse().ok()).unwrap_or(600);
            let show: usize = args.get(4).and_then(|s| s.parse().ok()).unwrap_or(3);
            let plain = args.get(5).map(|s| s == "plain").unwrap_or(false);
            let handle = std::thread::Builder::new()
                .stack_size(1 << 30)
                .spawn(move || {
                    let mut acc = 0;
                    let mut shown = 0;
                    let mut tags: std::collections::BTreeMap<&'static str, usize> = Default::default();
                    let mut bytes = 0usize;
                    for _ in 0..n {
                        let l = (lcg(&mut seed) as usize) % (len + 1);
                        let data: Vec<u32> = (0..l).map(|_| lcg(&mut seed)).collect();
                        let mut t = Tape::new(&data);
                        let p = if std::env::var("DEV_FOCUS").is_ok() { svgen::generate_focus(&mut t) } else { svgen::generate(&mut t, &svgen::Cfg::default()) };
                        let mut f = Feats::default();
                        let text = if plain { p.render_plain() } else { p.render(&mut t, &TriviaCfg::full(), &mut f) };
                        bytes += text.len();
                        for (k, v) in &p.tags {
                            *tags.entry(k).or_insert(0) += v;
                        }
                        if std::env::var("DEV_DUMP").is_ok() {
                            let _ = std::fs::write("/tmp/last_prog.sv", &text);
                            let _ = std::fs::write("/tmp/last_prog_plain.sv", p.render_plain());
                        }
                        let t0 = std::time::Instant::now();
                        let r = sv::parse_text(sv::Grammar::Sv, &text, false);
                        let dt = t0.elapsed().as_secs_f64();
                        if dt > 1.0 {
                            println!("---- SLOW {:.1}s ({} bytes):\n{}", dt, text.len(), p.render_plain());
                        }
                        match r {
                            Ok(_) => acc += 1,
                            Err(e) => {
                                if shown < show {
                                    shown += 1;
                                    println!("---- REJECTED: {}\n{}\n---- plain:\n{}", sv::err_kind(&e), text, p.render_plain());
                                }
                            }
                        }
                    }
                    println!("accepted {}/{}; avg bytes {}", acc, n, bytes / n.max(1));
                    println!("{:?}", tags);
                })
                .unwrap();
            handle.join().unwrap();
            0
        }
        Some("parse") => {
            let text = std::fs::read_to_string(&args[1]).unwrap();
            let handle = std::thread::Builder::new()
                .stack_size(1 << 30)
                .spawn(move || match sv::parse_text(sv::Grammar::Sv, &text, false) {
                    Ok((tree, _)) => println!("{}", tree),
                    Err(e) => println!("ERR {}", sv::err_kind(&e)),
                })
                .unwrap();
            handle.join().unwrap();
            0
        }
        Some("pp") => {
            let text = std::fs::read_to_string(&args[1]).unwrap();
            let strip = args.get(2).map(|s| s == "strip").unwrap_or(false);
            match sv::pp(&text, std::path::Path::new(&args[1]), &Default::default(), &[], false, strip) {
                Ok((t, d)) => {
                    println!("{:?}", t.text());
                    for i in 0..t.text().len() {
                        print!("{}:{:?} ", i, t.origin(i).map(|x| x.1));
                    }
                    println!();
                    let mut names: Vec<_> = d.keys().filter(|k| !k.starts_with("SV_COV")).collect();
                    names.sort();
                    println!("defines: {:?}", names);
                }
                Err(e) => println!("ERR {}", sv::err_kind(&e)),
            }
            0
        }
        Some("kinds") => {
            // node-kind coverage: corpus vs svgen (developer statistic quoted in DESIGN.md)
            let root = std::path::PathBuf::from(args.get(1).cloned().unwrap_or_else(|| "/verif".to_string()));
            let n: usize = args.get(2).and_then(|s| s.parse().ok()).unwrap_or(3000);
            let handle = std::thread::Builder::new()
                .stack_size(1 << 30)
                .spawn(move || {
                    let corpus = crate::corpus::Corpus::load(&root);
                    let mut kc: std::collections::BTreeSet<String> = Default::default();
                    let mut kg: std::collections::BTreeSet<String> = Default::default();
                    for f in &corpus.sv {
                        if let Ok((tree, _)) = sv::parse_text(sv::Grammar::Sv, &f.text, false) {
                            for n in &tree {
                                kc.insert(sv::kind(&n));
                            }
                        }
                    }
                    let mut seed = 12345u64;
                    for _ in 0..n {
                        let l = (lcg(&mut seed) as usize) % 1201;
                        let data: Vec<u32> = (0..l).map(|_| lcg(&mut seed)).collect();
                        let mut t = Tape::new(&data);
                        let p = svgen::generate(&mut t, &svgen::Cfg::default());
                        let mut f = Feats::default();
                        let text = p.render(&mut t, &TriviaCfg::full(), &mut f);
                        if let Ok((tree, _)) = sv::parse_text(sv::Grammar::Sv, &text, false) {
                            for n in &tree {
                                kg.insert(sv::kind(&n));
                            }
                        }
                    }
                    let union: std::collections::BTreeSet<_> = kc.union(&kg).cloned().collect();
                    println!("corpus kinds {} svgen kinds {} union {} only-svgen {} only-corpus {}", kc.len(), kg.len(), union.len(), kg.difference(&kc).count(), kc.difference(&kg).count());
                    let only_corpus: Vec<_> = kc.difference(&kg).cloned().collect();
                    let lim = if std::env::var("DEV_DUMP").is_ok() { usize::MAX } else { 80 };
                    println!("only in corpus (first {}): {:?}", lim.min(only_corpus.len()), &only_corpus[..only_corpus.len().min(lim)]);
                })
                .unwrap();
            handle.join().unwrap();
            0
        }
        Some("variants") => {
            // keyword-only enum variants whose name differs from the keyword (developer statistic)
            let root = std::path::PathBuf::from(args.get(1).cloned().unwrap_or_else(|| "/verif".to_string()));
            let n: usize = args.get(2).and_then(|s| s.parse().ok()).unwrap_or(2000);
            let handle = std::thread::Builder::new()
                .stack_size(1 << 30)
                .spawn(move || {
                    let corpus = crate::corpus::Corpus::load(&root);
                    let mut all: std::collections::BTreeMap<(String, String, String), usize> = Default::default();
                    let mut texts: Vec<String> = corpus.sv.iter().map(|f| f.text.clone()).collect();
                    let mut seed = 777u64;
                    for _ in 0..n {
                        let data: Vec<u32> = (0..900).map(|_| lcg(&mut seed)).collect();
                        let mut t = Tape::new(&data);
                        let p = svgen::generate_mixed(&mut t, &svgen::Cfg::default());
                        texts.push(p.render_plain());
                    }
                    for text in &texts {
                        if let Ok((tree, pp)) = sv::parse_text(sv::Grammar::Sv, text, false) {
                            for (k, v, w, _) in sv::keyword_variants(&tree, &pp) {
                                *all.entry((k, v, w.to_string())).or_insert(0) += 1;
                            }
                        }
                    }
                    let mut ok = 0;
                    for ((k, v, w), c) in &all {
                        if sv::snake(v) == *w {
                            ok += 1;
                        } else {
                            println!("MISMATCH {}::{} <- {:?} ({} times)", k, v, w, c);
                        }
                    }
                    println!("{} distinct (kind, variant, keyword) triples, {} consistent", all.len(), ok);
                })
                .unwrap();
            handle.join().unwrap();
            0
        }
        Some("rawkinds") => {
            // rawkinds <file> <capacity|inf> <reckey 0|1>: node-kind sequence (WhiteSpace subtrees left out) of the raw parse
            let text = std::fs::read_to_string(&args[1]).unwrap();
            let cap: Option<usize> = args.get(2).and_then(|s| s.parse().ok());
            let rec = args.get(3).map(|s| s == "1").unwrap_or(false);
            let handle = std::thread::Builder::new()
                .stack_size(1 << 30)
                .spawn(move || {
                    let (ppt, _) = sv::pp_plain(&text).unwrap();
                    let r = sv::raw_parse(sv::Grammar::Sv, ppt.text(), cap, rec);
                    match r.0 {
                        Some(sv::RawTree::Sv(t)) => {
                            let mut depth_ws = 0usize;
                            let mut kinds: Vec<String> = Vec::new();
                            for e in (&t).into_iter().event() {
                                match e {
                                    sv::NodeEvent::Enter(n) => {
                                        if let sv::RefNode::WhiteSpace(_) = n {
                                            depth_ws += 1;
                                        }
                                        if depth_ws == 0 {
                                            kinds.push(sv::kind(&n));
                                        }
                                    }
                                    sv::NodeEvent::Leave(n) => {
                                        if let sv::RefNode::WhiteSpace(_) = n {
                                            depth_ws -= 1;
                                        }
                                    }
                                }
                            }
                            println!("{} nodes digest {:x}", kinds.len(), crate::engine::digest(kinds.join(",").as_bytes()));
                            if std::env::var("DEV_DUMP").is_ok() {
                                println!("{}", kinds.join(" "));
                            }
                        }
                        _ => println!("rejected"),
                    }
                })
                .unwrap();
            handle.join().unwrap();
            0
        }
        Some("leafws") => {
            // which node kinds own leaves (outside WhiteSpace) that contain white space? (developer statistic)
            let root = std::path::PathBuf::from(args.get(1).cloned().unwrap_or_else(|| "/verif".to_string()));
            let handle = std::thread::Builder::new()
                .stack_size(1 << 30)
                .spawn(move || {
                    let corpus = crate::corpus::Corpus::load(&root);
                    let mut all: std::collections::BTreeMap<String, (usize, String)> = Default::default();
                    let mut texts: Vec<(sv::Grammar, String)> = corpus.sv.iter().map(|f| (sv::Grammar::Sv, f.text.clone())).collect();
                    texts.extend(corpus.lib.iter().map(|f| (sv::Grammar::Lib, f.text.clone())));
                    let mut seed = 99u64;
                    for _ in 0..1500 {
                        let data: Vec<u32> = (0..900).map(|_| lcg(&mut seed)).collect();
                        let mut t = Tape::new(&data);
                        let p = svgen::generate_mixed(&mut t, &svgen::Cfg::default());
                        let mut f = Feats::default();
                        texts.push((sv::Grammar::Sv, p.render(&mut t, &TriviaCfg::full(), &mut f)));
                        let toks = crate::gen::libgen::generate_tokens(&mut t);
                        texts.push((sv::Grammar::Lib, crate::gen::libgen::render_tokens(&toks, &mut t)));
                    }
                    for (g, text) in &texts {
                        if let Ok((tree, pp)) = sv::parse_text(*g, text, false) {
                            let mut stack: Vec<String> = Vec::new();
                            let mut ws = 0usize;
                            for e in tree.into_iter().event() {
                                match e {
                                    sv::NodeEvent::Enter(n) => {
                                        if let sv::RefNode::WhiteSpace(_) = n {
                                            ws += 1;
                                        }
                                        if let sv::RefNode::Locate(l) = n {
                                            if ws == 0 {
                                                let t = &pp[l.offset..l.offset + l.len];
                                                if t.chars().any(|c| c.is_whitespace()) {
                                                    let k = stack.iter().rev().take(2).cloned().collect::<Vec<_>>().join("<");
                                                    let e = all.entry(k).or_insert((0, t.to_string()));
                                                    e.0 += 1;
                                                }
                                            }
                                        }
                                        stack.push(sv::kind(&n));
                                    }
                                    sv::NodeEvent::Leave(n) => {
                                        stack.pop();
                                        if let sv::RefNode::WhiteSpace(_) = n {
                                            ws -= 1;
                                        }
                                    }
                                }
                            }
                        }
                    }
                    for (k, (c, ex)) in &all {
                        println!("{:6} {} e.g. {:?}", c, k, sv::clip(ex, 50));
                    }
                })
                .unwrap();
            handle.join().unwrap();
            0
        }
        Some("regions") => {
            let n: usize = args.get(1).and_then(|s| s.parse().ok()).unwrap_or(20);
            let mut seed: u64 = args.get(2).and_then(|s| s.parse().ok()).unwrap_or(1);
            for _ in 0..n {
                let data: Vec<u32> = (0..160).map(|_| lcg(&mut seed)).collect();
                let mut t = Tape::new(&data);
                println!("-----\n{}", crate::props::c13::gen_regions_compact_text(&mut t));
            }
            0
        }
        Some("textgen") => {
            let n: usize = args.get(1).and_then(|s| s.parse().ok()).unwrap_or(100);
            let mut seed: u64 = args.get(2).and_then(|s| s.parse().ok()).unwrap_or(1);
            let mut shown = 0;
            for _ in 0..n {
                let data: Vec<u32> = (0..80).map(|_| lcg(&mut seed)).collect();
                let mut t = Tape::new(&data);
                let (text, _) = crate::gen::textgen::well_formed(&mut t, false);
                if let Err(e) = crate::lexer::lex_opts(&text, true) {
                    if shown < 5 {
                        println!("{:?}: {:?}", e, text);
                        shown += 1;
                    }
                }
            }
            0
        }
        Some("probe") => {
            // probe <file> [kind...]: cases separated by lines "----"; prints acceptance (strict mode) per case and, if
            // kinds are named, which of them occur in the tree
            let text = std::fs::read_to_string(&args[1]).unwrap();
            let want: Vec<String> = args[2..].to_vec();
            let handle = std::thread::Builder::new()
                .stack_size(1 << 30)
                .spawn(move || {
                    for case in text.split("\n----\n") {
                        let case = format!("{}\n", case.trim_end());
                        let head: String = case.replace('\n', " ").chars().take(100).collect();
                        match sv::parse_text(sv::Grammar::Sv, &case, false) {
                            Ok((tree, _)) => {
                                let mut have: std::collections::BTreeSet<String> = Default::default();
                                for n in &tree {
                                    let k = sv::kind(&n);
                                    if want.contains(&k) {
                                        have.insert(k);
                                    }
                                }
                                println!("OK  {} {:?}", head, have);
                            }
                            Err(e) => println!("ERR {} :: {}", head, sv::err_kind(&e)),
                        }
                    }
                })
                .unwrap();
            handle.join().unwrap();
            0
        }
        Some("parsek") => {
            // parsek <file> <capacity|inf> <reckey 0|1>
            let text = std::fs::read_to_string(&args[1]).unwrap();
            let cap: Option<usize> = args.get(2).and_then(|s| s.parse().ok());
            let rec = args.get(3).map(|s| s == "1").unwrap_or(false);
            let handle = std::thread::Builder::new()
                .stack_size(1 << 30)
                .spawn(move || {
                    let r = sv::raw_parse(sv::Grammar::Sv, &text, cap, rec);
                    println!("cap={:?} reckey={} accepted={} counters={:?}", cap, rec, r.0.is_some(), r.1);
                })
                .unwrap();
            handle.join().unwrap();
            0
        }
        _ => 2,
    }
}
