pub mod layout;
pub mod libgen;
pub mod mutate;
pub mod svgen;
pub mod textgen;
