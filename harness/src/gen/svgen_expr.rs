// Expressions, literals, lvalues (included into svgen.rs).

const UNARY: &[&str] = &["+", "-", "!", "~", "&", "~&", "|", "~|", "^", "~^", "^~"];
const BINARY: &[&str] = &[
    "+", "-", "*", "/", "%", "==", "!=", "===", "!==", "==?", "!=?", "&&", "||", "**", "<", "<=", ">", ">=", "&", "|", "^", "^~", "~^", ">>", "<<",
    ">>>", "<<<", "->", "<->",
];
const SYSFUNCS: &[&str] = &["$clog2", "$bits", "$signed", "$unsigned", "$random", "$time", "$countones", "$size"];
const STRINGS: &[&str] = &[
    "\"\"", "\"abc\"", "\"a b\"", "\"\\n\\t\\\\\\\"\"", "\"\\101\\x41\\v\\f\\a\"", "\"é ü 日本\"", "\"a`b\"", "\"// not a comment\"", "\"/* nor this */\"",
    "\"line\\\ncontinued\"", "\"%d %s\"", "\"`define X\"", "\"(\"", "\"begin\"",
];

impl<'a, 'b> Gen<'a, 'b> {
    pub fn number(&mut self) {
        self.tag("literal");
        match self.t.weighted(&[5, 4, 3, 2, 2, 1]) {
            0 => {
                let s = *self.t.pick(&["0", "1", "7", "42", "1_000", "0_1", "255", "4294967295"]);
                self.num(s);
            }
            1 if self.t.flip() => {
                self.tag("literal-composed");
                let s = self.composed_based_literal();
                self.num(&s);
            }
            1 => {
                // based literal as one token
                let s = *self.t.pick(&[
                    "8'hFF", "4'b1010", "'h0", "16'd255", "3'o7", "8'b1010_1010", "'b1", "32'hdead_beef", "4'bx", "4'bz", "8'h?f", "'dx", "8'dz", "'d?",
                    "4'sb1001", "8'SHff", "'sd5", "12'Habc", "2'B10", "6'O77", "1'b0", "1'B1", "8'hxZ", "5'D 3",
                ]);
                self.num(s);
            }
            2 => {
                // based literal in parts: size, base, digits with optional blanks between
                self.tag("literal-parts");
                let size = *self.t.pick(&["8", "4", "16", "32", "1_6"]);
                let (base, digits): (&str, &[&str]) = match self.t.below(4) {
                    0 => ("'h", &["FF", "a5", "x", "zz", "0_f", "?"]),
                    1 => ("'b", &["1010", "x", "z1", "1_0", "??"]),
                    2 => ("'o", &["17", "x", "7_7", "z"]),
                    _ => ("'d", &["15", "x", "z", "1_5", "?"]),
                };
                let d_fixed = *self.t.pick(digits);
                let d_owned = if self.t.flip() { self.based_digits(base.chars().nth(1).unwrap()) } else { d_fixed.to_string() };
                let d = d_owned.as_str();
                let base = if self.t.chance(1, 4) { base.replace('\'', "'s") } else { base.to_string() };
                let base = if self.t.chance(1, 4) { base.to_uppercase() } else { base };
                if self.t.chance(3, 4) {
                    self.num(size);
                    self.push(&base, Class::NumPart);
                } else {
                    self.num(&base);
                }
                self.push(d, Class::NumPart);
            }
            3 => {
                let s = *self.t.pick(&["'0", "'1", "'x", "'z", "'X", "'Z"]);
                self.num(s);
            }
            4 => {
                let s = *self.t.pick(&["1.5", "0.1", "1e3", "2.0E-3", "1_0.0_1", "3.14e+2", "1E10", "0.5e0"]);
                self.num(s);
            }
            _ => {
                let s = *self.t.pick(&["1ns", "2.5us", "10ps", "1s", "100fs", "3ms", "1step"]);
                if s == "1step" {
                    self.num("1ns");
                } else {
                    self.num(s);
                }
            }
        }
    }

    /// digits of a based literal composed from the base's alphabet: first a digit, then digits / underscores
    /// (A.8.7: binary_value ::= binary_digit { _ | binary_digit }, …; decimal: unsigned_number or ONE x/z digit { _ })
    pub fn based_digits(&mut self, base: char) -> String {
        let alphabet: &[&str] = match base {
            'b' => &["0", "1", "x", "z", "X", "Z", "?"],
            'o' => &["0", "3", "7", "x", "z", "?", "X"],
            'h' => &["0", "9", "a", "F", "c", "x", "Z", "?"],
            _ => &["0", "1", "5", "9"],
        };
        if base == 'd' && self.t.chance(1, 3) {
            // a single x / z digit followed by underscores
            let mut s = self.t.pick_str(&["x", "X", "z", "Z", "?"]).to_string();
            let n = self.t.weighted(&[3, 2, 1]);
            for _ in 0..n {
                s.push('_');
            }
            return s;
        }
        let mut s = self.t.pick_str(alphabet).to_string();
        let n = self.t.below(5);
        for _ in 0..n {
            if self.t.chance(1, 4) {
                s.push('_');
            } else {
                s.push_str(self.t.pick_str(alphabet));
            }
        }
        s
    }

    /// [size] base digits as one token, composed (not from a fixed list)
    pub fn composed_based_literal(&mut self) -> String {
        let mut s = String::new();
        if self.t.chance(2, 3) {
            s.push_str(self.t.pick_str(&["1", "4", "8", "16", "3_2", "1_0_0"]));
        }
        let base = *self.t.pick(&['b', 'o', 'h', 'd']);
        s.push('\'');
        if self.t.chance(1, 4) {
            s.push(if self.t.flip() { 's' } else { 'S' });
        }
        s.push(if self.t.chance(1, 4) { base.to_ascii_uppercase() } else { base });
        s.push_str(&self.based_digits(base));
        s
    }

    pub fn string_lit(&mut self) {
        self.tag("string");
        let s = *self.t.pick(STRINGS);
        self.push(s, Class::Str);
    }

    /// integral constant (used where Annex A wants a constant expression that we keep simple)
    pub fn small_const(&mut self) {
        if self.t.chance(1, 3) {
            self.number_int();
        } else {
            let s = *self.t.pick(&["0", "1", "3", "7", "8", "15", "31"]);
            self.num(s);
        }
    }

    pub fn number_int(&mut self) {
        let s = *self.t.pick(&["0", "1", "4", "8'h0F", "4'd3", "'h10", "2", "16"]);
        self.num(s);
    }

    pub fn range(&mut self) {
        self.sym("[");
        self.const_expr(1);
        self.sym(":");
        self.const_expr(1);
        self.sym("]");
    }

    pub fn const_expr(&mut self, depth: usize) {
        // constant expressions: literals, parameters are syntactically plain identifiers
        if depth == 0 || self.t.chance(2, 3) {
            self.small_const();
        } else {
            self.small_const();
            let op = *self.t.pick(&["+", "-", "*", "/", "<<", "**"]);
            self.sym(op);
            self.const_expr(depth - 1);
        }
    }

    pub fn var_ref(&mut self) {
        match self.some_var() {
            Some(v) => {
                self.id(&v);
            }
            None => {
                let s = *self.t.pick(&["0", "1", "2"]);
                self.num(s);
            }
        }
    }

    pub fn select_opt(&mut self, depth: usize) {
        if depth == 0 {
            if self.t.chance(1, 4) {
                self.sym("[");
                self.small_const();
                self.sym("]");
            }
            return;
        }
        let depth = depth - 1;
        match self.t.weighted(&[6, 2, 1, 1, 1]) {
            0 => {}
            1 => {
                self.sym("[");
                self.expr(depth.min(1));
                self.sym("]");
            }
            2 => {
                self.sym("[");
                self.const_expr(1);
                self.sym(":");
                self.const_expr(1);
                self.sym("]");
            }
            3 => {
                self.sym("[");
                self.expr(depth.min(1));
                let s = *self.t.pick(&["+:", "-:"]);
                self.sym(s);
                self.const_expr(0);
                self.sym("]");
            }
            _ => {
                self.sym("[");
                self.expr(depth.min(1));
                self.sym("]");
                self.sym("[");
                self.expr(depth.min(1));
                self.sym("]");
            }
        }
    }

    pub fn primary(&mut self, depth: usize) {
        let w: [usize; 12] = if depth == 0 { [6, 6, 0, 0, 0, 0, 0, 1, 0, 0, 0, 1] } else { [6, 8, 2, 2, 2, 2, 2, 1, 1, 1, 1, 1] };
        match self.t.weighted(&w) {
            0 => self.number(),
            1 => {
                self.tag("expr-ident");
                self.var_ref();
                if matches!(self.p.toks.last().map(|t| t.class), Some(Class::Ident) | Some(Class::EscIdent)) {
                    if self.t.chance(1, 6) {
                        // hierarchical / member reference
                        self.tag("expr-hier");
                        self.sym(".");
                        let m = *self.t.pick(&["m", "field", "end_", "x1", "\\esc.member"]);
                        self.id(m);
                    }
                    self.select_opt(depth);
                }
            }
            2 => {
                self.tag("expr-concat");
                self.sym("{");
                let n = 1 + self.t.below(3);
                for i in 0..n {
                    if i > 0 {
                        self.sym(",");
                    }
                    self.expr(depth - 1);
                }
                self.sym("}");
            }
            3 => {
                self.tag("expr-replication");
                self.sym("{");
                self.small_const();
                self.sym("{");
                self.expr(depth - 1);
                if self.t.chance(1, 3) {
                    self.sym(",");
                    self.expr(depth - 1);
                }
                self.sym("}");
                self.sym("}");
            }
            4 => {
                self.tag("expr-call");
                if self.t.chance(1, 3) {
                    self.method_chain(depth - 1);
                } else if self.t.flip() {
                    let f = *self.t.pick(SYSFUNCS);
                    self.push(f, Class::SysIdent);
                    if f != "$time" && f != "$random" || self.t.flip() {
                        self.sym("(");
                        if f != "$time" && f != "$random" {
                            self.expr(depth - 1);
                        }
                        self.sym(")");
                    }
                } else {
                    let f = *self.t.pick(&["fn1", "calc", "do_it", "forx", "\\f+1"]);
                    self.id(f);
                    self.sym("(");
                    match self.t.below(4) {
                        0 => {}
                        1 => self.expr(depth - 1),
                        2 => {
                            self.expr(depth - 1);
                            self.sym(",");
                            self.expr(depth - 1);
                        }
                        _ => {
                            self.sym(".");
                            self.id("arg_a");
                            self.sym("(");
                            self.expr(depth - 1);
                            self.sym(")");
                            self.sym(",");
                            self.sym(".");
                            self.id("arg_b");
                            self.sym("(");
                            self.sym(")");
                        }
                    }
                    self.sym(")");
                }
            }
            5 => {
                self.tag("expr-paren");
                self.sym("(");
                self.expr(depth - 1);
                self.sym(")");
            }
            6 => {
                self.tag("expr-cast");
                match self.t.below(4) {
                    0 => {
                        let ty = *self.t.pick(&["int", "byte", "shortint", "longint", "integer", "logic", "bit", "real", "string"]);
                        self.kw(ty);
                    }
                    1 => {
                        let s = *self.t.pick(&["signed", "unsigned"]);
                        self.kw(s);
                    }
                    2 => {
                        let s = *self.t.pick(&["8", "16", "4"]);
                        self.num(s);
                    }
                    _ => {
                        self.kw("const");
                    }
                }
                self.sym("'");
                self.sym("(");
                self.expr(depth - 1);
                self.sym(")");
            }
            7 => self.string_lit(),
            8 => {
                self.tag("expr-streaming");
                self.sym("{");
                let s = *self.t.pick(&["<<", ">>"]);
                self.sym(s);
                match self.t.below(3) {
                    0 => {}
                    1 => {
                        let s = *self.t.pick(&["8", "4"]);
                        self.num(s);
                    }
                    _ => {
                        let s = *self.t.pick(&["byte", "int", "shortint"]);
                        self.kw(s);
                    }
                }
                self.sym("{");
                self.var_ref();
                if self.t.chance(1, 3) {
                    self.sym(",");
                    self.var_ref();
                }
                self.sym("}");
                self.sym("}");
            }
            9 => {
                self.tag("expr-assignment-pattern");
                self.sym("'{");
                match self.t.below(4) {
                    0 => {
                        self.expr(depth - 1);
                        self.sym(",");
                        self.expr(depth - 1);
                    }
                    1 => {
                        self.kw("default");
                        self.sym(":");
                        self.expr(depth - 1);
                    }
                    2 => {
                        self.small_const();
                        self.sym("{");
                        self.expr(depth - 1);
                        self.sym("}");
                    }
                    _ => {
                        self.small_const();
                        self.sym(":");
                        self.expr(depth - 1);
                        self.sym(",");
                        self.kw("default");
                        self.sym(":");
                        self.expr(depth - 1);
                    }
                }
                self.sym("}");
            }
            10 => {
                self.tag("expr-inside");
                self.sym("(");
                self.var_ref();
                self.kw("inside");
                self.sym("{");
                self.expr(0);
                if self.t.flip() {
                    self.sym(",");
                    self.sym("[");
                    self.const_expr(0);
                    self.sym(":");
                    self.const_expr(0);
                    self.sym("]");
                }
                self.sym("}");
                self.sym(")");
            }
            _ => {
                if self.in_class && self.t.flip() {
                    self.kw("this");
                    self.sym(".");
                    self.id("member_q");
                } else {
                    self.kw("null");
                }
            }
        }
    }

    /// obj.m1(args).m2.m3() ... : chained method calls (method_call ::= method_call_root . method_call_body)
    pub fn method_chain(&mut self, depth: usize) {
        self.tag("expr-method-chain");
        if self.t.chance(1, 6) {
            // a call through a hierarchical path with one to three indexed components: env.agents[0].drivers[1].run()
            self.tag("expr-method-indexed-path");
            self.id("env_h");
            let k = 1 + self.t.below(3);
            for _ in 0..k {
                self.sym(".");
                let c = *self.t.pick(&["agents", "drivers", "sub_q", "g_blk"]);
                self.id(c);
                if self.t.chance(3, 4) {
                    self.sym("[");
                    self.small_const();
                    self.sym("]");
                }
            }
            self.sym(".");
            let m = *self.t.pick(&["run", "size", "get"]);
            self.id(m);
            self.sym("(");
            if depth > 0 && self.t.chance(1, 3) {
                self.expr(depth - 1);
            }
            self.sym(")");
            return;
        }
        match self.t.below(3) {
            0 => self.var_ref_ident_only(),
            1 => {
                self.id("obj_h");
            }
            _ => {
                if self.in_class {
                    let s = *self.t.pick(&["this", "super"]);
                    self.kw(s);
                } else {
                    self.id("cls_q");
                }
            }
        }
        let n = 1 + self.t.weighted(&[2, 4, 3, 2]);
        for i in 0..n {
            self.sym(".");
            let m = *self.t.pick(&["first", "second", "m3", "size", "next_", "end_m", "\\meth.od", "get"]);
            self.id(m);
            // the last segment always has parentheses so the whole thing is a call
            if i + 1 == n || self.t.chance(2, 3) {
                self.sym("(");
                if depth > 0 && self.t.chance(1, 3) {
                    self.expr(depth - 1);
                    if self.t.chance(1, 3) {
                        self.sym(",");
                        self.expr(depth - 1);
                    }
                }
                self.sym(")");
            }
        }
    }

    pub fn expr(&mut self, depth: usize) {
        if depth == 0 {
            self.primary(0);
            return;
        }
        match self.t.weighted(&[6, 2, 5, 2]) {
            0 => self.primary(depth),
            1 => {
                self.tag("expr-unary");
                let op = *self.t.pick(UNARY);
                self.sym(op);
                self.primary(depth - 1);
            }
            2 => {
                self.tag("expr-binary");
                self.expr(depth - 1);
                let op = *self.t.pick(BINARY);
                self.sym(op);
                self.expr(depth - 1);
            }
            _ => {
                self.tag("expr-ternary");
                self.primary(depth - 1);
                self.sym("?");
                self.expr(depth - 1);
                self.sym(":");
                self.expr(depth - 1);
            }
        }
    }

    /// net lvalue: identifier with constant selects, or a concatenation of such
    pub fn net_lvalue(&mut self) {
        if self.t.chance(1, 12) {
            // hierarchical net name with indexed components: g_blk[0].w_net, g_blk[1].h_blk[2].w_net
            self.tag("net-lvalue-indexed-path");
            self.id("g_blk");
            self.sym("[");
            self.small_const();
            self.sym("]");
            if self.t.chance(1, 3) {
                self.sym(".");
                self.id("h_blk");
                self.sym("[");
                self.small_const();
                self.sym("]");
            }
            self.sym(".");
            self.id("w_net");
            if self.t.chance(1, 4) {
                self.sym("[");
                self.const_expr(0);
                self.sym("]");
            }
            return;
        }
        match self.some_var() {
            Some(v) => {
                if self.t.chance(1, 8) {
                    self.sym("{");
                    self.id(&v);
                    if let Some(w) = self.some_var() {
                        self.sym(",");
                        self.id(&w);
                    }
                    self.sym("}");
                } else {
                    self.id(&v);
                    match self.t.weighted(&[6, 2, 1]) {
                        0 => {}
                        1 => {
                            self.sym("[");
                            self.const_expr(1);
                            self.sym("]");
                        }
                        _ => {
                            self.sym("[");
                            self.const_expr(1);
                            self.sym(":");
                            self.const_expr(1);
                            self.sym("]");
                        }
                    }
                }
            }
            None => {
                self.id("undeclared_lhs");
            }
        }
    }

    /// variable lvalue (procedural)
    pub fn lvalue(&mut self) {
        match self.some_var() {
            Some(v) => {
                if self.t.chance(1, 8) {
                    self.sym("{");
                    self.id(&v);
                    if let Some(w) = self.some_var() {
                        self.sym(",");
                        self.id(&w);
                    }
                    self.sym("}");
                } else {
                    self.id(&v);
                    self.select_opt(2);
                }
            }
            None => {
                self.id("undeclared_lhs");
            }
        }
    }

    pub fn delay_control(&mut self) {
        self.tag("delay");
        self.sym("#");
        if self.t.chance(1, 8) {
            // delay_value ::= ps_identifier with a package scope
            self.tag("delay-package-scoped");
            self.id("some_pkg");
            self.sym("::");
            self.id("dly_c");
            return;
        }
        match self.t.below(4) {
            0 => {
                let s = *self.t.pick(&["1", "10", "2.5", "1ns"]);
                self.num(s);
            }
            1 => self.var_ref_ident_only(),
            2 => {
                self.sym("(");
                self.expr(1);
                self.sym(")");
            }
            _ => {
                self.sym("(");
                self.small_const();
                self.sym(":");
                self.small_const();
                self.sym(":");
                self.small_const();
                self.sym(")");
            }
        }
    }

    pub fn var_ref_ident_only(&mut self) {
        match self.some_var() {
            Some(v) => {
                self.id(&v);
            }
            None => {
                self.id("dly");
            }
        }
    }

    pub fn event_control(&mut self) {
        self.tag("event-control");
        match self.t.below(6) {
            0 => {
                self.sym("@*");
            }
            1 => {
                self.sym("@");
                self.sym("(");
                self.sym("*");
                self.sym(")");
            }
            2 => {
                self.sym("@");
                self.var_ref_ident_only();
            }
            _ => {
                self.sym("@");
                self.sym("(");
                let n = 1 + self.t.below(3);
                for i in 0..n {
                    if i > 0 {
                        if self.t.flip() {
                            self.kw("or");
                        } else {
                            self.sym(",");
                        }
                    }
                    match self.t.below(4) {
                        0 => {
                            self.kw("posedge");
                        }
                        1 => {
                            self.kw("negedge");
                        }
                        2 => {
                            self.kw("edge");
                        }
                        _ => {}
                    }
                    self.var_ref_ident_only();
                    if self.t.chance(1, 6) {
                        self.kw("iff");
                        self.var_ref_ident_only();
                    }
                }
                self.sym(")");
            }
        }
    }
}
