//! Trivia alphabet (DESIGN.md 3.4) and re-layout of texts whose inter-token whitespace runs are known.

use crate::sv::{NodeEvent, RefNode, SyntaxTree};
use crate::tape::Tape;

#[derive(Clone, Copy, Debug)]
pub struct TriviaCfg {
    pub comments: bool,
    pub directives: bool,
    /// `define / `undef / `undefineall as trivia (only for sources without macro usages)
    pub define_directives: bool,
    pub nonascii: bool,
    pub cr: bool,
    pub formfeed: bool,
}

impl TriviaCfg {
    pub fn plain() -> Self {
        TriviaCfg { comments: false, directives: false, define_directives: false, nonascii: false, cr: false, formfeed: false }
    }
    pub fn full() -> Self {
        TriviaCfg { comments: true, directives: true, define_directives: true, nonascii: true, cr: true, formfeed: false }
    }
}

#[derive(Default, Clone, Copy, Debug)]
pub struct Feats {
    pub comments: usize,
    pub directives: usize,
    pub nonascii: usize,
    pub cr: usize,
    pub formfeed: usize,
    pub runs: usize,
}

const BLANKS: &[&str] = &[" ", "\t", "  ", " \t", "\t ", "   ", " \t "];
const COMMENT_BODIES: &[&str] = &[
    "", " c", " x y z", "\"", " \"quoted\" ", " `define Q 1", " `Q ", "/", "*", " // nested", " /* ", " é ü ", " 日本語 ", " \\", " begin end module ",
    " ; ) ] }", "\t",
];
pub const NEUTRAL_DIRECTIVES: &[&str] = &[
    "`celldefine",
    "`endcelldefine",
    "`default_nettype wire",
    "`default_nettype none",
    "`default_nettype tri0",
    "`timescale 1ns/1ps",
    "`timescale 10 us / 100 ns",
    "`unconnected_drive pull0",
    "`unconnected_drive pull1",
    "`nounconnected_drive",
    "`line 3 \"f.v\" 1",
    "`line 100 \"dir/g.sv\" 0",
];
const DEFINE_DIRECTIVES: &[&str] = &["`define ZZ_TRIVIA 1\n", "`define ZZ_F(a,b) a+b\n", "`define ZZ_E\n", "`undef ZZ_TRIVIA", "`undef ZZ_NONE", "`undefineall"];

fn blank(t: &mut Tape, cfg: &TriviaCfg, f: &mut Feats) -> String {
    if cfg.formfeed && t.chance(1, 12) {
        f.formfeed += 1;
        return "\x0c".to_string();
    }
    t.pick(BLANKS).to_string()
}

fn newline(t: &mut Tape, cfg: &TriviaCfg, f: &mut Feats) -> String {
    if cfg.cr {
        match t.below(6) {
            0 | 1 | 2 => "\n".to_string(),
            3 => {
                f.cr += 1;
                "\r\n".to_string()
            }
            4 => {
                f.cr += 1;
                "\r".to_string()
            }
            _ => "\n\n".to_string(),
        }
    } else {
        "\n".to_string()
    }
}

fn ws_piece(t: &mut Tape, cfg: &TriviaCfg, f: &mut Feats) -> String {
    if t.chance(1, 3) {
        newline(t, cfg, f)
    } else {
        blank(t, cfg, f)
    }
}

fn comment(t: &mut Tape, cfg: &TriviaCfg, f: &mut Feats) -> String {
    f.comments += 1;
    let mut body = t.pick(COMMENT_BODIES).to_string();
    if !cfg.nonascii && !body.is_ascii() {
        body = " c".to_string();
    }
    if !body.is_ascii() {
        f.nonascii += 1;
    }
    if t.flip() {
        // a line comment body must not contain a newline; ours do not
        format!("//{}\n", body)
    } else {
        // a block comment body must not contain "*/"
        let body = body.replace("*/", "* /");
        let body = if body.ends_with('*') { format!("{} ", body) } else { body };
        // "/*/" would not close; avoid a body starting with '/'
        let body = if body.starts_with('/') { format!(" {}", body) } else { body };
        format!("/*{}*/", body)
    }
}

/// A non-empty run of trivia that may stand between two tokens.
/// `prev_last` / `next_first`: neighbouring token characters (None at the file ends);
/// `after_escaped`: the previous token is an escaped identifier (its text would absorb anything but white space).
pub fn gen_trivia(
    t: &mut Tape,
    cfg: &TriviaCfg,
    prev_last: Option<char>,
    next_first: Option<char>,
    after_escaped: bool,
    f: &mut Feats,
) -> String {
    f.runs += 1;
    let mut out = String::new();
    let need_lead = after_escaped || matches!(prev_last, Some('/') | Some('*') | Some('`') | Some('\\'));
    let need_trail = matches!(next_first, Some('/') | Some('*'));
    let n = 1 + t.weighted(&[6, 3, 1]);
    for i in 0..n {
        let k = t.weighted(&[6, if cfg.comments { 3 } else { 0 }, if cfg.directives { 2 } else { 0 }]);
        match k {
            0 => out.push_str(&ws_piece(t, cfg, f)),
            1 => {
                if i == 0 && need_lead {
                    out.push_str(&blank(t, cfg, f));
                }
                out.push_str(&comment(t, cfg, f));
            }
            _ => {
                if i == 0 && need_lead {
                    out.push_str(&blank(t, cfg, f));
                }
                f.directives += 1;
                if cfg.define_directives && t.chance(1, 3) {
                    let d = t.pick(DEFINE_DIRECTIVES);
                    out.push_str(d);
                    if !d.ends_with('\n') {
                        out.push_str(if t.flip() { "\n" } else { " " });
                    }
                } else {
                    out.push_str(t.pick_str(NEUTRAL_DIRECTIVES));
                    out.push_str(if t.flip() { "\n" } else { " " });
                }
            }
        }
    }
    if out.is_empty() {
        out.push(' ');
    }
    if need_trail && !out.ends_with(|c: char| c == ' ' || c == '\t' || c == '\n' || c == '\r') {
        out.push(' ');
    }
    if need_lead && !out.starts_with(|c: char| c == ' ' || c == '\t' || c == '\n' || c == '\r') {
        out.insert(0, ' ');
    }
    out
}

/// A whitespace run of an accepted tree: byte span, and whether the token before it is an escaped identifier.
#[derive(Clone, Copy, Debug)]
pub struct Run {
    pub begin: usize,
    pub end: usize,
    pub after_escaped: bool,
}

/// Maximal runs of WhiteSpace nodes that lie outside compiler directives and contain no compiler directive.
pub fn ws_runs(tree: &SyntaxTree) -> Vec<Run> {
    let mut runs: Vec<Run> = Vec::new();
    let mut dir_ends: Vec<usize> = Vec::new();
    let mut directive_depth = 0usize;
    let mut ws_depth = 0usize;
    let mut cur: Option<(usize, usize)> = None; // span of the white space node being visited
    let mut cur_has_directive = false;
    let mut last_token_escaped = false;
    let mut parent_stack: Vec<bool> = Vec::new(); // is EscapedIdentifier
    for ev in tree.into_iter().event() {
        match ev {
            NodeEvent::Enter(n) => {
                match &n {
                    RefNode::WhiteSpace(_) => {
                        ws_depth += 1;
                        if ws_depth == 1 {
                            cur = None;
                            cur_has_directive = false;
                        }
                    }
                    RefNode::CompilerDirective(_) => {
                        directive_depth += 1;
                        if ws_depth > 0 {
                            cur_has_directive = true;
                        }
                    }
                    RefNode::Locate(l) => {
                        if ws_depth > 0 {
                            cur = Some(match cur {
                                None => (l.offset, l.offset + l.len),
                                Some((b, _)) => (b, l.offset + l.len),
                            });
                        } else {
                            last_token_escaped = parent_stack.last().copied().unwrap_or(false);
                        }
                    }
                    _ => {}
                }
                parent_stack.push(matches!(n, RefNode::EscapedIdentifier(_)));
            }
            NodeEvent::Leave(n) => {
                parent_stack.pop();
                match &n {
                    RefNode::WhiteSpace(_) => {
                        ws_depth -= 1;
                        if ws_depth == 0 {
                            if let Some((b, e)) = cur {
                                // a white space node directly inside a directive (directive_depth counts
                                // directives that are not themselves white space of this node)
                                let inside_directive = directive_depth > 0;
                                if !cur_has_directive && !inside_directive {
                                    match runs.last_mut() {
                                        Some(r) if r.end == b => r.end = e,
                                        _ => runs.push(Run { begin: b, end: e, after_escaped: last_token_escaped }),
                                    }
                                } else if cur_has_directive {
                                    dir_ends.push(e);
                                }
                            }
                        }
                    }
                    RefNode::CompilerDirective(_) => {
                        directive_depth -= 1;
                    }
                    _ => {}
                }
            }
        }
    }
    // the run right after a directive may hold the newline that terminates a `define: keep it
    runs.retain(|r| !dir_ends.contains(&r.begin));
    runs
}

/// Replace each run with probability num/den by freshly generated trivia.
pub fn relayout(
    text: &str,
    runs: &[Run],
    t: &mut Tape,
    cfg: &TriviaCfg,
    num: usize,
    den: usize,
    f: &mut Feats,
) -> (String, usize) {
    let mut out = String::with_capacity(text.len() + 64);
    let mut pos = 0usize;
    let mut replaced = 0usize;
    for r in runs {
        if r.begin < pos {
            continue;
        }
        out.push_str(&text[pos..r.begin]);
        if t.chance(num, den) {
            let prev_last = text[..r.begin].chars().next_back();
            let next_first = text[r.end..].chars().next();
            // K1 (known finding RC1): trivia after a string / escaped identifier is emitted twice by the
            // preprocessor and a duplicated `define loses its terminating newline; excluded by construction
            let mut cfg2 = *cfg;
            if r.after_escaped || prev_last == Some('"') {
                cfg2.define_directives = false;
            }
            let tr = gen_trivia(t, &cfg2, prev_last, next_first, r.after_escaped, f);
            out.push_str(&tr);
            replaced += 1;
        } else {
            out.push_str(&text[r.begin..r.end]);
        }
        pos = r.end;
    }
    out.push_str(&text[pos..]);
    (out, replaced)
}
