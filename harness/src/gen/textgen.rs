//! Directive-free texts over the full lexical alphabet (DESIGN.md 3.6, C06/C18) and the RC1 predictor
//! for known finding K1.

use crate::lexer::{lex_opts, Kind};
use crate::tape::Tape;

const IDENTS: &[&str] = &["a", "foo", "module", "end", "x1", "_y", "a$b", "Z9", "é", "日本", "wire"];
const NUMS: &[&str] = &["0", "42", "8'hFF", "1_000", "3.14", "'x", "1e3"];
const OPS: &[&str] = &["+", "-", "*", "/", "=", "==", "<=", "(", ")", "[", "]", "{", "}", ";", ",", ".", ":", "#", "@", "'", "?", "&&", "|", "~", "^", "%", "<<", "$", "§"];
const STR_BODIES: &[&str] = &[
    "", "abc", "a b", "\\n\\t", "\\\\", "\\\"", "`define X", "`MA", "// not a comment", "/* nor this */", "line\nbreak", "line\\\ncont", "é ü", "日本語", "(", "\\x41\\101",
    "'", "`", "``", "a`\\\"b",
];
const ESC_BODIES: &[&str] = &["foo", "a+b", "module", "`x", "//", "/*", "\"q", "é", "a.b[3]", "\\", "*/", "(*"];
const BLOCK_BODIES: &[&str] = &["", " c ", "\"", " `define Q 1 ", " `MA ", "/", " // ", " /* ", "\n", " é ", "*", "**", " \\ ", "\r\n"];
const LINE_BODIES: &[&str] = &["", " c", " \"q", " `define Q", " `MA", " /* open", " */", " é", " \\", "/", "\r"];
const WS: &[&str] = &[" ", "  ", "\t", "\n", "\r\n", "\r", " \n", "\n ", "\n\n", " \t ", "\n\t", "\x0c", " \x0c\n"];

/// Well-formed directive-free text. `k1`: allow strings / escaped identifiers to be followed by blanks or comments
/// (the trigger of known finding K1); returns (text, number of K1 trigger sites).
pub fn well_formed(t: &mut Tape, k1: bool) -> (String, usize) {
    let n = 1 + t.below(14);
    let mut out = String::new();
    let mut sites = 0;
    // after a string / escaped identifier (main mode): what follows must be a plain token,
    // directly or after a white-space run that starts with a newline
    let mut need_plain = false;
    for _ in 0..n {
        let mut k = t.weighted(&[5, 2, 4, 3, 2, 3, 3]);
        if need_plain && k >= 3 {
            k = t.below(3);
        }
        need_plain = false;
        match k {
            0 => out.push_str(t.pick_str(IDENTS)),
            1 => out.push_str(t.pick_str(NUMS)),
            2 => out.push_str(t.pick_str(OPS)),
            3 | 4 => {
                let is_esc = k == 4;
                if is_esc {
                    out.push('\\');
                    out.push_str(t.pick_str(ESC_BODIES));
                } else {
                    out.push('"');
                    out.push_str(t.pick_str(STR_BODIES));
                    out.push('"');
                }
                if k1 && t.flip() {
                    sites += 1;
                    // blanks and / or comments right after it
                    out.push_str(t.pick_str(&[" ", "  ", "\t", " \n", " /* c */", " // c\n", "\t/**/ "]));
                    if !is_esc && t.chance(1, 3) {
                        out.push_str(t.pick_str(&["/* d */", "// d\n"]));
                    }
                } else {
                    if is_esc {
                        out.push_str(t.pick_str(&["\n", "\r\n", "\n ", "\n\t\n", "\r"]));
                    } else if t.flip() {
                        out.push_str(t.pick_str(&["\n", "\r\n", "\n  ", "\n\n"]));
                    }
                    need_plain = true;
                }
                continue;
            }
            5 => {
                // a block comment body must not contain "*/" and "/*/" does not close
                let b = t.pick_str(BLOCK_BODIES);
                out.push_str("/*");
                if b.starts_with('/') {
                    out.push(' ');
                }
                out.push_str(b);
                if b.ends_with('*') {
                    out.push(' ');
                }
                out.push_str("*/");
            }
            _ => {
                out.push_str("//");
                out.push_str(t.pick_str(LINE_BODIES));
                out.push('\n');
            }
        }
        // separator: mostly white space, sometimes nothing (when that cannot change the lexing)
        if t.chance(3, 4) {
            out.push_str(t.pick_str(WS));
        } else {
            // glue hazards: '/' followed by '/' or '*' would start a comment; avoid by inserting a blank
            out.push(' ');
        }
    }
    if need_plain {
        out.push_str("z");
    }
    (out, sites)
}

/// Arbitrary backtick-free text from a character alphabet that stresses the lexical rules.
pub fn arbitrary(t: &mut Tape) -> String {
    const CH: &[&str] = &["a", "b", "1", " ", "\n", "\"", "\\", "/", "*", "\r", "\t", "é", "(", ")", ";", "$", "'", "日", "//", "/*", "*/", "\\\"", "\"\""];
    let n = t.below(24);
    let mut s = String::new();
    for _ in 0..n {
        s.push_str(t.pick_str(CH));
    }
    s
}

/// Output predicted by known finding K1 (RC1) for directive-free, lexically well-formed text:
/// the trivia that follows a string literal or escaped identifier (blank runs and comments; not runs that
/// start with a line break) is emitted a second time right after the token's whole span.
/// With `strip` (strip_comments = true) the predictor models the same walk with comments and re-emitted
/// white space suppressed, i.e. only the raw span survives.
pub fn rc1_predict(text: &str) -> Option<String> {
    let toks = lex_opts(text, true).ok()?;
    let b = text.as_bytes();
    let mut out = String::new();
    let mut pos = 0usize; // everything before pos has been emitted
    let mut i = 0;
    while i < toks.len() {
        let tk = &toks[i];
        if tk.start < pos {
            i += 1;
            continue;
        }
        if tk.kind == Kind::Str || tk.kind == Kind::EscIdent {
            let mut p = tk.start + tk.text.len();
            let mut again = String::new();
            loop {
                if p >= b.len() {
                    break;
                }
                if b[p] == b' ' || b[p] == b'\t' || b[p] == 0x0c {
                    let s = p;
                    while p < b.len() && (b[p] == b' ' || b[p] == b'\t' || b[p] == 0x0c) {
                        p += 1;
                    }
                    again.push_str(&text[s..p]); // Space node: emitted again
                } else if b[p] == b'\n' || b[p] == b'\r' {
                    while p < b.len() && (b[p] == b' ' || b[p] == b'\t' || b[p] == b'\n' || b[p] == b'\r' || b[p] == 0x0c) {
                        p += 1;
                    }
                    // Newline node: not emitted again
                } else if b[p] == b'/' && p + 1 < b.len() && b[p + 1] == b'/' {
                    let s = p;
                    while p < b.len() && b[p] != b'\n' {
                        p += 1;
                    }
                    if p < b.len() {
                        p += 1;
                    }
                    again.push_str(&text[s..p]);
                } else if b[p] == b'/' && p + 1 < b.len() && b[p + 1] == b'*' {
                    let s = p;
                    match text[p + 2..].find("*/") {
                        Some(k) => p = p + 2 + k + 2,
                        None => return None,
                    }
                    again.push_str(&text[s..p]);
                } else {
                    break;
                }
            }
            out.push_str(&text[pos..p]);
            out.push_str(&again);
            pos = p;
        }
        i += 1;
    }
    out.push_str(&text[pos..]);
    Some(out)
}

/// Prediction for strip_comments = true on directive-free, lexically well-formed text: every comment outside the
/// trivia of a string / escaped identifier is replaced by its separator (a newline if the comment ends with one,
/// else a blank); the trivia that follows a string / escaped identifier survives raw inside the token's span
/// (known finding K1) and is followed by one separator per comment in it.
pub fn rc1_predict_strip(text: &str) -> Option<String> {
    let toks = lex_opts(text, true).ok()?;
    let b = text.as_bytes();
    let mut out = String::new();
    let mut pos = 0usize;
    let sep = |c: &str| if c.ends_with('\n') { "\n" } else { " " };
    for tk in &toks {
        if tk.start < pos {
            continue;
        }
        if tk.kind == Kind::LineComment || tk.kind == Kind::BlockComment {
            out.push_str(&text[pos..tk.start]);
            out.push_str(sep(tk.text));
            pos = tk.start + tk.text.len();
        } else if tk.kind == Kind::Str || tk.kind == Kind::EscIdent {
            let mut p = tk.start + tk.text.len();
            let mut again = String::new();
            loop {
                if p >= b.len() {
                    break;
                }
                if b[p] == b' ' || b[p] == b'\t' || b[p] == 0x0c {
                    // Space node: emitted again
                    let s0 = p;
                    while p < b.len() && (b[p] == b' ' || b[p] == b'\t' || b[p] == 0x0c) {
                        p += 1;
                    }
                    again.push_str(&text[s0..p]);
                } else if b[p] == b'\n' || b[p] == b'\r' {
                    // Newline node: not emitted again
                    while p < b.len() && (b[p] == b' ' || b[p] == b'\t' || b[p] == 0x0c || b[p] == b'\n' || b[p] == b'\r') {
                        p += 1;
                    }
                } else if b[p] == b'/' && p + 1 < b.len() && b[p + 1] == b'/' {
                    let s0 = p;
                    while p < b.len() && b[p] != b'\n' {
                        p += 1;
                    }
                    if p < b.len() {
                        p += 1;
                    }
                    again.push_str(sep(&text[s0..p]));
                } else if b[p] == b'/' && p + 1 < b.len() && b[p + 1] == b'*' {
                    let s0 = p;
                    match text[p + 2..].find("*/") {
                        Some(k) => p = p + 2 + k + 2,
                        None => return None,
                    }
                    again.push_str(sep(&text[s0..p]));
                } else {
                    break;
                }
            }
            out.push_str(&text[pos..p]);
            out.push_str(&again);
            pos = p;
        }
    }
    out.push_str(&text[pos..]);
    Some(out)
}

/// No compiler directive / macro usage: no backtick outside comments and strings.
pub fn is_directive_free(text: &str) -> bool {
    match lex_opts(text, false) {
        Ok(toks) => !toks.iter().any(|t| t.kind == Kind::Backtick),
        Err(_) => false,
    }
}

/// Does `text` contain a K1 trigger site (string / escaped identifier followed by a blank run or a comment,
/// or — for texts with directives — by a backtick)?
pub fn has_k1_site(text: &str) -> bool {
    let toks = match lex_opts(text, false) {
        Ok(t) => t,
        Err(_) => return true,
    };
    let b = text.as_bytes();
    for tk in toks {
        if tk.kind == Kind::Str || tk.kind == Kind::EscIdent {
            let mut p = tk.start + tk.text.len();
            if p < b.len() && (b[p] == b' ' || b[p] == b'\t' || b[p] == 0x0c) {
                return true;
            }
            while p < b.len() && (b[p] == b' ' || b[p] == b'\t' || b[p] == b'\n' || b[p] == b'\r') {
                p += 1;
            }
            if p < b.len() && (b[p] == b'`' || (b[p] == b'/' && p + 1 < b.len() && (b[p + 1] == b'/' || b[p + 1] == b'*'))) {
                return true;
            }
        }
    }
    false
}
