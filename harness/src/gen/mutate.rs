//! Token-level mutators (DESIGN.md 3.5) over a text scanned with the harness lexer.

use crate::lexer::{lex, Kind};
use crate::tape::Tape;

pub const BAD_BYTES: &[&str] = &["\u{1}", "\u{7f}", "é", "§"];
const RESERVED: &[&str] = &["module", "end", "begin", "wire", "input", "endmodule", "for", "if", "logic", "assign", "function", "case"];
const CLOSERS: &[&str] = &[
    ")", "]", "}", "end", "endmodule", "endcase", "endfunction", "endtask", "endgenerate", "join", "endclass", "endpackage", "endinterface",
    "endprogram",
];

/// Pieces: alternating gap/token; returns (gaps, tokens) where gaps.len() == tokens.len() + 1.
pub fn split(text: &str) -> Option<(Vec<String>, Vec<(Kind, String)>)> {
    let toks = lex(text).ok()?;
    let mut gaps = Vec::new();
    let mut out = Vec::new();
    let mut pos = 0;
    for t in toks {
        // comments stay inside the gaps
        if t.kind == Kind::LineComment || t.kind == Kind::BlockComment {
            continue;
        }
        gaps.push(text[pos..t.start].to_string());
        out.push((t.kind, t.text.to_string()));
        pos = t.start + t.text.len();
    }
    gaps.push(text[pos..].to_string());
    Some((gaps, out))
}

pub fn join(gaps: &[String], toks: &[(Kind, String)]) -> String {
    let mut s = String::new();
    for i in 0..toks.len() {
        s.push_str(&gaps[i]);
        s.push_str(&toks[i].1);
    }
    s.push_str(gaps.last().map(|x| x.as_str()).unwrap_or(""));
    s
}

/// One or two random token-level mutations; falls back to byte truncation when the text does not scan.
pub fn mutate_text(text: &str, t: &mut Tape) -> String {
    let (mut gaps, mut toks) = match split(text) {
        Some(x) if !x.1.is_empty() => x,
        _ => {
            let mut cut = t.below(text.len() + 1);
            while !text.is_char_boundary(cut) {
                cut -= 1;
            }
            return text[..cut].to_string();
        }
    };
    let rounds = 1 + t.below(2);
    for _ in 0..rounds {
        if toks.is_empty() {
            break;
        }
        let i = t.below(toks.len());
        match t.below(9) {
            0 => {
                toks.remove(i);
                let g = gaps.remove(i + 1);
                gaps[i].push_str(&g);
            }
            1 => {
                let x = toks[i].clone();
                toks.insert(i, x);
                gaps.insert(i + 1, " ".to_string());
            }
            2 => {
                if i + 1 < toks.len() {
                    toks.swap(i, i + 1);
                    if gaps[i + 1].is_empty() {
                        gaps[i + 1] = " ".to_string();
                    }
                }
            }
            3 => {
                // replace an identifier by a reserved word
                let ids: Vec<usize> = (0..toks.len()).filter(|k| toks[*k].0 == Kind::Ident).collect();
                if !ids.is_empty() {
                    let k = ids[t.below(ids.len())];
                    toks[k].1 = t.pick(RESERVED).to_string();
                }
            }
            4 => {
                // delete one bracket or closing keyword
                let cl: Vec<usize> = (0..toks.len()).filter(|k| CLOSERS.contains(&toks[*k].1.as_str())).collect();
                if !cl.is_empty() {
                    let k = cl[t.below(cl.len())];
                    toks.remove(k);
                    let g = gaps.remove(k + 1);
                    gaps[k].push_str(&g);
                    if gaps[k].is_empty() {
                        gaps[k] = " ".to_string();
                    }
                }
            }
            5 => {
                // a byte that cannot start a token, at a token boundary
                gaps[i].push_str(t.pick_str(BAD_BYTES));
            }
            6 => {
                // truncate at a token boundary
                toks.truncate(i);
                gaps.truncate(i + 1);
            }
            7 => {
                // replace a token by another token of the same program
                let j = t.below(toks.len());
                toks[i] = toks[j].clone();
            }
            _ => {
                // glue: remove the gap before token i
                gaps[i].clear();
            }
        }
    }
    join(&gaps, &toks)
}

const SOUP: &[&str] = &[
    "module", "endmodule", "begin", "end", "if", "else", "case", "endcase", "for", "always", "initial", "assign", "wire", "logic", "reg", "input", "output", "inout",
    "function", "endfunction", "task", "endtask", "class", "endclass", "package", "endpackage", "interface", "endinterface", "generate", "endgenerate", "typedef",
    "enum", "struct", "parameter", "localparam", "int", "bit", "genvar", "fork", "join", "posedge", "negedge", "or", "library", "include", "config", "endconfig",
    "a", "b", "x1", "m", "\\esc ", "$display", "$x", "0", "1", "8'hFF", "'0", "1.5", "\"s\"", "\"", "(", ")", "[", "]", "{", "}", "'{", ";", ",", ".", ":", "::", "=", "<=", "==",
    "+", "-", "*", "/", "#", "@", "@*", "?", "&", "|", "^", "~", "!", "<<", ">>", "->", "`define X 1\n", "`X", "`ifdef X", "`else", "`endif", "`include \"f\"", "`resetall",
    "`timescale 1ns/1ps", "`begin_keywords \"1364-2001\"", "`end_keywords", "`celldefine", "`undef X", "`__LINE__", "`__FILE__", "//c\n", "/* c */", "/*", "*/", "\n", " ", "\t", "\r\n",
    "\\", "\u{1}", "é", "(*", "*)", "-incdir", "`", "``", "`\"", "`include", "`A", "`W", "`M(1)", "<f>", "`define A", "`define W é", "`define M(x) x", "`undefineall", "`elsif X",
    "`ifndef X", "\n`include `A\n", "\n`include `W\n", "\n`include `X\n", "\n`include \"f\"\n", "\n`include <f>\n", "`line 1 \"f\" 0", "`pragma p", "`default_nettype none", "`unconnected_drive pull0",
];

/// A token soup over a vocabulary of keywords, directives, delimiters and fragments.
pub fn soup(t: &mut Tape) -> String {
    let n = t.below(30);
    let mut s = String::new();
    for _ in 0..n {
        s.push_str(t.pick_str(SOUP));
        if t.chance(3, 4) {
            s.push(' ');
        }
    }
    s
}
