// Declarations, statements, module items (included into svgen.rs).

const NET_TYPES: &[&str] = &["wire", "tri", "wand", "wor", "triand", "trior", "tri0", "tri1", "uwire", "supply0", "supply1", "trireg"];
const VEC_TYPES: &[&str] = &["logic", "bit", "reg"];
const ATOM_TYPES: &[&str] = &["byte", "shortint", "int", "longint", "integer", "time"];
const REAL_TYPES: &[&str] = &["real", "shortreal", "realtime"];
const STRENGTHS: &[(&str, &str)] =
    &[("strong0", "weak1"), ("pull1", "supply0"), ("highz0", "strong1"), ("weak0", "highz1"), ("supply1", "pull0"), ("strong1", "strong0")];

impl<'a, 'b> Gen<'a, 'b> {
    pub fn packed_dims(&mut self, max: usize) {
        let n = self.t.below(max + 1);
        for _ in 0..n {
            self.range();
        }
    }

    pub fn unpacked_dims(&mut self, queue_ok: bool) {
        let n = self.t.weighted(&[6, 2, 1]);
        for _ in 0..n {
            match self.t.weighted(&[4, 3, if queue_ok { 1 } else { 0 }, if queue_ok { 1 } else { 0 }, if queue_ok { 1 } else { 0 }, if queue_ok { 1 } else { 0 }]) {
                0 => self.range(),
                1 => {
                    self.sym("[");
                    self.const_expr(0);
                    self.sym("]");
                }
                2 => {
                    self.tag("dim-queue");
                    self.sym("[");
                    self.sym("$");
                    if self.t.flip() {
                        self.sym(":");
                        self.const_expr(0);
                    }
                    self.sym("]");
                }
                3 => {
                    self.tag("dim-assoc");
                    self.sym("[");
                    let s = *self.t.pick(&["string", "int", "byte", "integer"]);
                    self.kw(s);
                    self.sym("]");
                }
                4 => {
                    self.tag("dim-assoc");
                    self.sym("[");
                    self.sym("*");
                    self.sym("]");
                }
                _ => {
                    self.tag("dim-dynamic");
                    self.sym("[");
                    self.sym("]");
                }
            }
        }
    }

    /// a built-in data type (never a user type: `T x;` is ambiguous in Annex A)
    pub fn data_type(&mut self) {
        match self.t.weighted(&[5, 3, 1, 1, 1]) {
            0 => {
                let ty = *self.t.pick(VEC_TYPES);
                self.kw(ty);
                if self.t.chance(1, 4) {
                    let s = *self.t.pick(&["signed", "unsigned"]);
                    self.kw(s);
                }
                self.packed_dims(2);
            }
            1 => {
                let ty = *self.t.pick(ATOM_TYPES);
                self.kw(ty);
                if self.t.chance(1, 4) {
                    let s = *self.t.pick(&["signed", "unsigned"]);
                    self.kw(s);
                }
            }
            2 => {
                let ty = *self.t.pick(REAL_TYPES);
                self.kw(ty);
            }
            3 => {
                self.kw("string");
            }
            _ => {
                let s = *self.t.pick(&["chandle", "event"]);
                self.kw(s);
            }
        }
    }

    pub fn delay3(&mut self) {
        self.tag("delay3");
        self.sym("#");
        match self.t.below(4) {
            0 => {
                let s = *self.t.pick(&["3", "1.5", "10"]);
                self.num(s);
            }
            1 => {
                self.sym("(");
                self.small_const();
                self.sym(")");
            }
            2 => {
                self.sym("(");
                self.small_const();
                self.sym(",");
                self.small_const();
                if self.t.flip() {
                    self.sym(",");
                    self.small_const();
                }
                self.sym(")");
            }
            _ => {
                self.sym("(");
                self.small_const();
                self.sym(":");
                self.small_const();
                self.sym(":");
                self.small_const();
                self.sym(")");
            }
        }
    }

    pub fn drive_strength(&mut self) {
        self.tag("strength");
        let (a, b) = *self.t.pick(STRENGTHS);
        self.sym("(");
        self.kw(a);
        self.sym(",");
        self.kw(b);
        self.sym(")");
    }

    pub fn net_declaration(&mut self) {
        self.tag("net-declaration");
        let nt = *self.t.pick(NET_TYPES);
        self.kw(nt);
        let mut has_init_strength = false;
        if nt == "trireg" && self.t.chance(1, 3) {
            self.sym("(");
            let s = *self.t.pick(&["small", "medium", "large"]);
            self.kw(s);
            self.sym(")");
        } else if self.t.chance(1, 8) {
            self.drive_strength();
            has_init_strength = true;
        }
        let vs = self.t.chance(1, 8);
        if vs {
            let s = *self.t.pick(&["vectored", "scalared"]);
            self.kw(s);
        }
        // data_type_or_implicit
        match self.t.weighted(&[4, 3, 2]) {
            0 => {
                if vs {
                    self.range();
                }
            }
            1 => {
                if self.t.chance(1, 3) {
                    let s = *self.t.pick(&["signed", "unsigned"]);
                    self.kw(s);
                }
                self.range();
                if self.t.chance(1, 4) {
                    self.range();
                }
            }
            _ => {
                let ty = *self.t.pick(&["logic", "reg", "bit", "integer", "int"]);
                self.kw(ty);
                if ty == "logic" || ty == "reg" || ty == "bit" {
                    self.packed_dims(1);
                }
            }
        }
        if self.t.chance(1, 6) {
            self.delay3();
        }
        let n = 1 + self.t.weighted(&[5, 2, 1]);
        let mut names = Vec::new();
        for i in 0..n {
            if i > 0 {
                self.sym(",");
            }
            let name = self.fresh_special();
            let tk = self.id(&name);
            self.expect(tk, "NetIdentifier", F_DECL, &["NetDeclarationNetType"]);
            self.unpacked_dims(false);
            if has_init_strength || self.t.chance(1, 3) {
                self.sym("=");
                self.expr(2);
            }
            names.push(name);
        }
        self.sym(";");
        self.vars.extend(names);
    }

    pub fn var_declaration(&mut self) {
        self.tag("var-declaration");
        let is_const = self.t.chance(1, 10);
        if is_const {
            self.kw("const");
        }
        let has_var = self.t.chance(1, 6);
        if has_var {
            self.kw("var");
        }
        if self.t.chance(1, 10) {
            let s = *self.t.pick(&["static", "automatic"]);
            self.kw(s);
        }
        let mut is_event = false;
        if has_var && self.t.chance(1, 3) {
            // implicit data type after var
            if self.t.flip() {
                let s = *self.t.pick(&["signed", "unsigned"]);
                self.kw(s);
            }
            self.packed_dims(1);
        } else {
            let before = self.p.toks.len();
            self.data_type();
            is_event = self.p.toks[before].text == "event" || self.p.toks[before].text == "chandle";
        }
        let n = 1 + self.t.weighted(&[5, 2, 1]);
        let mut names = Vec::new();
        for i in 0..n {
            if i > 0 {
                self.sym(",");
            }
            let name = self.fresh_special();
            let tk = self.id(&name);
            self.expect(tk, "VariableIdentifier", F_DECL, &["DataDeclarationVariable"]);
            if !is_event {
                self.unpacked_dims(true);
            }
            if is_const || (!is_event && self.t.chance(1, 3)) {
                self.sym("=");
                self.expr(2);
            }
            names.push(name);
        }
        self.sym(";");
        self.vars.extend(names);
    }

    pub fn typedef(&mut self) {
        self.tag("typedef");
        self.kw("typedef");
        match self.t.weighted(&[4, 3, 3, 2]) {
            0 => {
                self.data_type();
                let name = self.fresh();
                let tk = self.id(&name);
                self.expect(tk, "TypeIdentifier", F_DECL, &["TypeDeclarationDataType"]);
                if self.t.chance(1, 4) {
                    self.range();
                }
            }
            1 => {
                self.tag("typedef-enum");
                self.kw("enum");
                if self.t.flip() {
                    let ty = *self.t.pick(&["logic", "bit", "int", "byte", "integer"]);
                    self.kw(ty);
                    if ty == "logic" || ty == "bit" {
                        self.packed_dims(1);
                    }
                }
                self.sym("{");
                let n = 1 + self.t.below(4);
                for i in 0..n {
                    if i > 0 {
                        self.sym(",");
                    }
                    let m = self.fresh();
                    let tk = self.id(&m);
                    self.expect(tk, "EnumIdentifier", F_DECL, &["EnumNameDeclaration"]);
                    match self.t.weighted(&[5, 1, 1]) {
                        0 => {}
                        1 => {
                            self.sym("[");
                            let s = *self.t.pick(&["2", "3"]);
                            self.num(s);
                            self.sym("]");
                        }
                        _ => {
                            self.sym("[");
                            self.num("1");
                            self.sym(":");
                            self.num("2");
                            self.sym("]");
                        }
                    }
                    if self.t.chance(1, 3) {
                        self.sym("=");
                        self.const_expr(1);
                    }
                }
                self.sym("}");
                let name = self.fresh();
                let tk = self.id(&name);
                self.expect(tk, "TypeIdentifier", F_DECL, &["TypeDeclarationDataType"]);
            }
            2 => {
                self.tag("typedef-struct");
                let su = *self.t.pick(&["struct", "union"]);
                self.kw(su);
                if su == "union" && self.t.chance(1, 4) {
                    self.kw("tagged");
                }
                if self.t.chance(1, 3) {
                    self.kw("packed");
                    if self.t.chance(1, 3) {
                        let s = *self.t.pick(&["signed", "unsigned"]);
                        self.kw(s);
                    }
                }
                self.sym("{");
                let n = 1 + self.t.below(3);
                for _ in 0..n {
                    if self.t.chance(1, 6) {
                        let s = *self.t.pick(&["rand", "randc"]);
                        self.kw(s);
                    }
                    // data_type_or_void
                    let before = self.p.toks.len();
                    self.data_type();
                    let ev = self.p.toks[before].text == "event" || self.p.toks[before].text == "chandle";
                    let m = self.fresh();
                    let tk = self.id(&m);
                    self.expect(tk, "VariableIdentifier", F_DECL, &["StructUnionMember"]);
                    if !ev && self.t.chance(1, 5) {
                        self.range();
                    }
                    if !ev && self.t.chance(1, 5) {
                        self.sym(",");
                        let m = self.fresh();
                        let tk = self.id(&m);
                        self.expect(tk, "VariableIdentifier", F_DECL, &["StructUnionMember"]);
                    }
                    self.sym(";");
                }
                self.sym("}");
                let name = self.fresh();
                let tk = self.id(&name);
                self.expect(tk, "TypeIdentifier", F_DECL, &["TypeDeclarationDataType"]);
            }
            _ => {
                self.tag("typedef-forward");
                match self.t.below(5) {
                    0 => {}
                    1 => {
                        self.kw("enum");
                    }
                    2 => {
                        self.kw("struct");
                    }
                    3 => {
                        self.kw("union");
                    }
                    _ => {
                        self.kw("class");
                    }
                }
                let name = self.fresh();
                let tk = self.id(&name);
                self.expect(tk, "TypeIdentifier", F_DECL, &["TypeDeclarationReserved"]);
            }
        }
        self.sym(";");
    }

    pub fn param_declaration(&mut self, in_port_list: bool) {
        self.tag("param-declaration");
        let local = self.t.chance(1, 3);
        self.kw(if local { "localparam" } else { "parameter" });
        if self.t.chance(1, 5) {
            self.tag("param-type");
            self.kw("type");
            let n = 1 + self.t.below(2);
            for i in 0..n {
                if i > 0 {
                    if in_port_list {
                        break;
                    }
                    self.sym(",");
                }
                let name = self.fresh();
                let tk = self.id(&name);
                self.expect(tk, "TypeIdentifier", F_PARAM, &["TypeAssignment"]);
                self.expect(tk, "TypeIdentifier", F_PARAMDECL, &[if local { "LocalParameterDeclarationType" } else { "ParameterDeclarationType" }]);
                self.sym("=");
                self.data_type();
            }
        } else {
            // data_type_or_implicit
            match self.t.weighted(&[4, 3, 3]) {
                0 => {}
                1 => {
                    if self.t.flip() {
                        let s = *self.t.pick(&["signed", "unsigned"]);
                        self.kw(s);
                    }
                    self.range();
                }
                _ => {
                    let ty = *self.t.pick(&["int", "integer", "logic", "bit", "real", "string", "time", "byte"]);
                    self.kw(ty);
                    if ty == "logic" || ty == "bit" {
                        self.packed_dims(1);
                    } else if ty == "int" && self.t.chance(1, 3) {
                        self.kw("unsigned");
                    }
                }
            }
            let n = 1 + self.t.below(2);
            for i in 0..n {
                if i > 0 {
                    if in_port_list {
                        break;
                    }
                    self.sym(",");
                }
                let name = self.fresh_special();
                let tk = self.id(&name);
                self.expect(tk, "ParameterIdentifier", F_PARAM, &["ParamAssignment"]);
                self.expect(tk, "ParameterIdentifier", F_PARAMDECL, &[if local { "LocalParameterDeclarationParam" } else { "ParameterDeclarationParam" }]);
                if self.t.chance(1, 8) {
                    self.sym("[");
                    self.const_expr(0);
                    self.sym("]");
                    self.sym("=");
                    self.sym("'{");
                    self.kw("default");
                    self.sym(":");
                    self.small_const();
                    self.sym("}");
                } else {
                    self.sym("=");
                    match self.t.below(6) {
                        0 => self.string_lit(),
                        1 => self.number(),
                        5 => self.const_primary_more(),
                        _ => self.const_expr(2),
                    }
                }
                self.vars.push(name);
            }
        }
        if !in_port_list {
            self.sym(";");
        }
    }

    pub fn genvar_declaration(&mut self) -> Vec<String> {
        self.tag("genvar");
        self.kw("genvar");
        let n = 1 + self.t.below(2);
        let mut names = Vec::new();
        for i in 0..n {
            if i > 0 {
                self.sym(",");
            }
            let name = self.fresh();
            let tk = self.id(&name);
            self.expect(tk, "GenvarIdentifier", F_DECL, &["GenvarDeclaration"]);
            names.push(name);
        }
        self.sym(";");
        names
    }

    pub fn import_declaration(&mut self) {
        self.tag("import");
        self.kw("import");
        let n = 1 + self.t.below(2);
        for i in 0..n {
            if i > 0 {
                self.sym(",");
            }
            let pkg = if !self.packages.is_empty() && self.t.flip() {
                let i = self.t.below(self.packages.len());
                self.packages[i].clone()
            } else {
                "some_pkg".to_string()
            };
            self.id(&pkg);
            self.sym("::");
            if self.t.flip() {
                self.sym("*");
            } else {
                self.id("item_x");
            }
        }
        self.sym(";");
    }

    pub fn continuous_assign(&mut self) {
        self.tag("continuous-assign");
        self.kw("assign");
        if self.t.chance(1, 8) {
            self.drive_strength();
        }
        if self.t.chance(1, 6) {
            self.delay3();
        }
        let n = 1 + self.t.weighted(&[6, 1]);
        for i in 0..n {
            if i > 0 {
                self.sym(",");
            }
            self.net_lvalue();
            self.sym("=");
            self.expr(3);
        }
        self.sym(";");
    }

    // ------------------------------------------------------------------------------- statements

    pub fn block_label_opt(&mut self) -> Option<String> {
        if self.t.chance(1, 4) {
            let name = self.fresh();
            self.sym(":");
            self.id(&name);
            Some(name)
        } else {
            None
        }
    }

    pub fn stmt_or_null(&mut self, depth: usize) {
        if self.t.chance(1, 10) {
            self.sym(";");
        } else {
            self.stmt(depth);
        }
    }

    /// a statement that cannot be mistaken for a declaration when it opens a block
    pub fn stmt(&mut self, depth: usize) {
        let d = depth;
        let w: [usize; 16] = if d == 0 { [5, 4, 0, 0, 0, 0, 0, 1, 1, 1, 1, 0, 0, 1, 1, 0] } else { [5, 4, 4, 3, 3, 3, 2, 1, 1, 1, 1, 1, 1, 1, 1, 1] };
        match self.t.weighted(&w) {
            0 => {
                self.tag("stmt-blocking");
                self.lvalue();
                let op = if self.t.chance(1, 5) { *self.t.pick(&["+=", "-=", "*=", "|=", "&=", "^=", "<<=", ">>=", "<<<=", ">>>=", "/=", "%="]) } else { "=" };
                self.sym(op);
                if op == "=" && self.t.chance(1, 6) {
                    if self.t.flip() {
                        self.delay_control();
                    } else {
                        self.event_control();
                    }
                }
                self.expr(3);
                self.sym(";");
            }
            1 => {
                self.tag("stmt-nonblocking");
                self.lvalue();
                self.sym("<=");
                if self.t.chance(1, 6) {
                    if self.t.flip() {
                        self.delay_control();
                    } else {
                        self.event_control();
                    }
                }
                self.expr(3);
                self.sym(";");
            }
            2 => {
                self.tag("stmt-if");
                if self.t.chance(1, 8) {
                    let s = *self.t.pick(&["unique", "unique0", "priority"]);
                    self.kw(s);
                }
                self.kw("if");
                self.sym("(");
                self.expr(2);
                if self.t.chance(1, 8) {
                    // cond_predicate ::= expression_or_cond_pattern { &&& expression_or_cond_pattern }
                    self.tag("cond-predicate-and");
                    self.sym("&&&");
                    self.primary(0);
                }
                self.sym(")");
                self.stmt_or_null(d - 1);
                let mut k = 0;
                while k < 2 && self.t.chance(1, 3) {
                    self.kw("else");
                    self.kw("if");
                    self.sym("(");
                    self.expr(2);
                    self.sym(")");
                    self.stmt_or_null(d - 1);
                    k += 1;
                }
                if self.t.flip() {
                    self.kw("else");
                    self.stmt_or_null(d - 1);
                }
            }
            3 => {
                self.tag("stmt-case");
                if self.t.chance(1, 5) {
                    let s = *self.t.pick(&["unique", "unique0", "priority"]);
                    self.kw(s);
                }
                let c = *self.t.pick(&["case", "casez", "casex"]);
                self.kw(c);
                self.sym("(");
                self.expr(2);
                self.sym(")");
                let inside = c == "case" && self.t.chance(1, 4);
                if inside {
                    self.tag("stmt-case-inside");
                    self.kw("inside");
                }
                let n = 1 + self.t.below(3);
                for _ in 0..n {
                    if inside {
                        // open_range_list
                        if self.t.flip() {
                            self.sym("[");
                            self.const_expr(0);
                            self.sym(":");
                            self.const_expr(0);
                            self.sym("]");
                        } else {
                            self.expr(0);
                        }
                    } else {
                        self.expr(1);
                        if self.t.chance(1, 3) {
                            self.sym(",");
                            self.expr(1);
                        }
                    }
                    self.sym(":");
                    self.stmt_or_null(d - 1);
                }
                if self.t.flip() {
                    self.kw("default");
                    if self.t.flip() {
                        self.sym(":");
                    }
                    self.stmt_or_null(d - 1);
                }
                self.kw("endcase");
            }
            4 => {
                self.tag("stmt-seq-block");
                self.kw("begin");
                let l = self.block_label_opt();
                self.block_body(d - 1);
                self.kw("end");
                if let Some(l) = l {
                    if self.t.flip() {
                        self.sym(":");
                        self.id(&l);
                    }
                }
            }
            5 => {
                self.tag("stmt-loop");
                match self.t.below(6) {
                    0 => {
                        self.kw("for");
                        self.sym("(");
                        let v = self.fresh();
                        if self.t.flip() {
                            let ty = *self.t.pick(&["int", "integer", "byte"]);
                            self.kw(ty);
                            if self.t.chance(1, 4) {
                                self.kw("unsigned");
                            }
                        }
                        self.id(&v);
                        self.sym("=");
                        self.small_const();
                        self.sym(";");
                        self.id(&v);
                        self.sym("<");
                        self.small_const();
                        self.sym(";");
                        match self.t.below(3) {
                            0 => {
                                self.id(&v);
                                self.sym("++");
                            }
                            1 => {
                                self.id(&v);
                                self.sym("=");
                                self.id(&v);
                                self.sym("+");
                                self.num("1");
                            }
                            _ => {
                                self.sym("++");
                                self.id(&v);
                            }
                        }
                        self.sym(")");
                        self.stmt_or_null(d - 1);
                    }
                    1 => {
                        self.kw("foreach");
                        self.sym("(");
                        self.var_ref_ident_only();
                        self.sym("[");
                        let v = self.fresh();
                        self.id(&v);
                        if self.t.chance(1, 3) {
                            self.sym(",");
                            let v = self.fresh();
                            self.id(&v);
                        }
                        self.sym("]");
                        self.sym(")");
                        // A.6.8: foreach takes a statement, not statement_or_null
                        self.stmt(d - 1);
                    }
                    2 => {
                        self.kw("while");
                        self.sym("(");
                        self.expr(2);
                        self.sym(")");
                        self.stmt_or_null(d - 1);
                    }
                    3 => {
                        self.kw("do");
                        self.stmt_or_null(d - 1);
                        self.kw("while");
                        self.sym("(");
                        self.expr(2);
                        self.sym(")");
                        self.sym(";");
                    }
                    4 => {
                        self.kw("repeat");
                        self.sym("(");
                        self.expr(1);
                        self.sym(")");
                        self.stmt_or_null(d - 1);
                    }
                    _ => {
                        self.kw("forever");
                        self.stmt_or_null(d - 1);
                    }
                }
            }
            6 => {
                self.tag("stmt-timing");
                if self.t.flip() {
                    self.delay_control();
                } else {
                    self.event_control();
                }
                self.stmt_or_null(d - 1);
            }
            7 => {
                self.tag("stmt-systask");
                let f = *self.t.pick(&["$display", "$finish", "$write", "$stop", "$monitor", "$fatal", "$error"]);
                self.push(f, Class::SysIdent);
                if f == "$finish" || f == "$stop" {
                    if self.t.flip() {
                        self.sym("(");
                        self.sym(")");
                    }
                } else {
                    self.sym("(");
                    self.string_lit();
                    if self.t.flip() {
                        self.sym(",");
                        self.expr(2);
                    }
                    self.sym(")");
                }
                self.sym(";");
            }
            8 => {
                self.tag("stmt-incdec");
                if self.t.flip() {
                    self.lvalue();
                    let s = *self.t.pick(&["++", "--"]);
                    self.sym(s);
                } else {
                    let s = *self.t.pick(&["++", "--"]);
                    self.sym(s);
                    self.lvalue();
                }
                self.sym(";");
            }
            9 => {
                self.tag("stmt-event-trigger");
                let s = *self.t.pick(&["->", "->>"]);
                self.sym(s);
                self.var_ref_ident_only();
                self.sym(";");
            }
            10 if self.t.chance(1, 3) => {
                self.tag("stmt-break-continue");
                let k = *self.t.pick(&["break", "continue"]);
                self.kw(k);
                self.sym(";");
            }
            10 => {
                self.tag("stmt-jump");
                if self.in_function && self.t.flip() {
                    self.kw("return");
                    if self.t.flip() {
                        self.expr(2);
                    }
                    self.sym(";");
                } else {
                    self.kw("disable");
                    self.id("some_block");
                    self.sym(";");
                }
            }
            11 => {
                self.tag("stmt-fork");
                self.kw("fork");
                let l = self.block_label_opt();
                self.block_body(d - 1);
                let j = *self.t.pick(&["join", "join_any", "join_none"]);
                self.kw(j);
                if let Some(l) = l {
                    if self.t.flip() {
                        self.sym(":");
                        self.id(&l);
                    }
                }
            }
            12 => {
                self.tag("stmt-wait");
                match self.t.below(3) {
                    0 => {
                        self.kw("wait");
                        self.sym("(");
                        self.expr(2);
                        self.sym(")");
                        self.stmt_or_null(d - 1);
                    }
                    1 => {
                        self.kw("wait");
                        self.kw("fork");
                        self.sym(";");
                    }
                    _ => {
                        self.kw("disable");
                        self.kw("fork");
                        self.sym(";");
                    }
                }
            }
            13 => {
                self.tag("stmt-assert");
                let a = *self.t.pick(&["assert", "assume", "cover"]);
                self.kw(a);
                if self.t.chance(1, 4) {
                    if self.t.flip() {
                        // Annex A spells the deferred-assertion marker as the single terminal "#0"
                        self.sym("#0");
                    } else {
                        self.kw("final");
                    }
                }
                self.sym("(");
                self.expr(2);
                self.sym(")");
                if a == "cover" {
                    self.stmt_or_null(0);
                } else {
                    match self.t.below(3) {
                        0 => {
                            self.sym(";");
                        }
                        1 => {
                            self.stmt(0);
                        }
                        _ => {
                            if self.t.flip() {
                                self.stmt(0);
                            }
                            self.kw("else");
                            self.stmt_or_null(0);
                        }
                    }
                }
            }
            14 if self.t.chance(1, 6) => {
                self.tag("stmt-randcase");
                self.kw("randcase");
                let n = 1 + self.t.below(3);
                for _ in 0..n {
                    self.small_const();
                    self.sym(":");
                    self.stmt_or_null(0);
                }
                self.kw("endcase");
            }
            14 if self.t.chance(1, 3) => {
                self.tag("stmt-method-call");
                self.method_chain(1);
                self.sym(";");
            }
            14 => {
                self.tag("stmt-call");
                let f = *self.t.pick(&["do_task", "run1", "\\t+1"]);
                self.id(f);
                if self.t.chance(2, 3) {
                    self.sym("(");
                    if self.t.flip() {
                        self.expr(2);
                        if self.t.flip() {
                            self.sym(",");
                            self.expr(2);
                        }
                    }
                    self.sym(")");
                }
                self.sym(";");
            }
            _ if self.t.chance(2, 3) => self.stmt_more(d - 1),
            _ => {
                self.tag("stmt-proc-continuous");
                match self.t.below(3) {
                    0 => {
                        self.kw("assign");
                        self.lvalue_simple();
                        self.sym("=");
                        self.expr(2);
                    }
                    1 => {
                        self.kw("deassign");
                        self.lvalue_simple();
                    }
                    _ => {
                        self.kw("force");
                        self.lvalue_simple();
                        self.sym("=");
                        self.expr(2);
                    }
                }
                self.sym(";");
            }
        }
    }

    pub fn lvalue_simple(&mut self) {
        match self.some_var() {
            Some(v) => {
                self.id(&v);
            }
            None => {
                self.id("undeclared_lhs");
            }
        }
    }

    /// optional local declarations, then statements
    pub fn block_body(&mut self, depth: usize) {
        let saved = self.vars.len();
        let nd = self.t.weighted(&[6, 2, 1]);
        for _ in 0..nd {
            if self.t.chance(1, 6) {
                self.block_parameter_declaration();
            } else {
                self.tag("block-local-declaration");
                self.var_declaration();
            }
        }
        let ns = self.t.below(4);
        for _ in 0..ns {
            self.stmt_or_null(depth);
        }
        self.vars.truncate(saved);
    }

    // ------------------------------------------------------------------------------- module items

    pub fn always_construct(&mut self) {
        self.tag("always");
        let k = *self.t.pick(&["always", "always_comb", "always_ff", "always_latch"]);
        self.kw(k);
        if k == "always" || k == "always_ff" {
            if self.t.chance(4, 5) {
                self.event_control();
            } else if k == "always" {
                self.delay_control();
            }
        }
        self.stmt(3);
    }

    pub fn initial_construct(&mut self) {
        self.tag("initial-final");
        if self.t.chance(1, 5) {
            self.kw("final");
            let saved = self.in_function;
            self.in_function = true; // final takes a function statement; timing controls are a semantic matter
            self.stmt(2);
            self.in_function = saved;
        } else {
            self.kw("initial");
            self.stmt_or_null(3);
        }
    }

    pub fn named_port_connections(&mut self) {
        let n = self.t.below(4);
        for i in 0..n {
            if i > 0 {
                self.sym(",");
            }
            match self.t.weighted(&[5, 2, 1]) {
                0 => {
                    self.sym(".");
                    let p = *self.t.pick(&["clk", "rst_n", "d", "q", "end_p", "\\p+1"]);
                    self.id(p);
                    self.sym("(");
                    if self.t.chance(4, 5) {
                        self.expr(2);
                    }
                    self.sym(")");
                }
                1 => {
                    self.sym(".");
                    let p = *self.t.pick(&["clk", "rst_n", "d", "q"]);
                    self.id(p);
                }
                _ => {
                    self.sym(".*");
                }
            }
        }
    }

    pub fn module_instantiation(&mut self) {
        self.tag("instantiation");
        let target = if !self.modules.is_empty() && self.t.chance(3, 4) {
            let i = self.t.below(self.modules.len());
            self.modules[i].clone()
        } else {
            "other_mod".to_string()
        };
        let tk = self.id(&target);
        // forms that Annex A can only read as a module/interface/program instantiation (not a UDP / gate)
        let mut named = false;
        if self.t.chance(1, 3) {
            self.sym("#");
            self.sym("(");
            if self.t.flip() {
                named = true;
                let n = 1 + self.t.below(2);
                for i in 0..n {
                    if i > 0 {
                        self.sym(",");
                    }
                    self.sym(".");
                    let p = *self.t.pick(&["WIDTH", "N", "end_w", "T"]);
                    self.id(p);
                    self.sym("(");
                    if self.t.chance(4, 5) {
                        self.const_expr(1);
                    }
                    self.sym(")");
                }
            } else {
                self.const_expr(1);
                if self.t.flip() {
                    self.sym(",");
                    self.const_expr(1);
                }
            }
            self.sym(")");
        }
        let n = 1 + self.t.weighted(&[5, 1]);
        let mut all_named_ports = true;
        let mut insts = Vec::new();
        for i in 0..n {
            if i > 0 {
                self.sym(",");
            }
            let name = self.fresh_special();
            let itk = self.id(&name);
            insts.push(itk);
            if self.t.chance(1, 6) {
                self.range();
            }
            self.sym("(");
            if self.t.chance(3, 4) {
                self.named_port_connections();
            } else {
                // ordered connections
                let k = self.t.below(4);
                if k >= 2 {
                    all_named_ports = false;
                }
                for j in 0..k {
                    if j > 0 {
                        self.sym(",");
                    }
                    if self.t.chance(5, 6) {
                        self.expr(2);
                    }
                }
            }
            self.sym(")");
        }
        self.sym(";");
        // classification: syntactically a module, interface or program instantiation are the same
        // sentence; with >= 2 ordered terminals and no named parameters it is also a UDP instantiation.
        let target_is_generated_module = self.modules.contains(&target);
        let kinds: Vec<&'static str> = if target_is_generated_module {
            // the instantiated name is a module declared in this very source: the construct is a module instantiation
            vec!["ModuleInstantiation"]
        } else if all_named_ports || named {
            vec!["ModuleInstantiation", "InterfaceInstantiation", "ProgramInstantiation", "CheckerInstantiation"]
        } else {
            vec!["ModuleInstantiation", "InterfaceInstantiation", "ProgramInstantiation", "CheckerInstantiation", "UdpInstantiation"]
        };
        let _ = tk;
        for itk in insts {
            self.p.expects.push(Expect { tok: itk, name_kind: "InstanceIdentifier", family: F_INST, expected: kinds.clone() });
        }
    }

    pub fn gate_instantiation(&mut self) {
        self.tag("gate");
        let (g, nin, nout): (&str, usize, usize) = *self.t.pick(&[
            ("and", 2, 1),
            ("nand", 2, 1),
            ("or", 3, 1),
            ("nor", 2, 1),
            ("xor", 2, 1),
            ("xnor", 2, 1),
            ("buf", 1, 1),
            ("not", 1, 2),
            ("bufif0", 2, 1),
            ("bufif1", 2, 1),
            ("notif0", 2, 1),
            ("notif1", 2, 1),
            ("nmos", 2, 1),
            ("pmos", 2, 1),
            ("rnmos", 2, 1),
            ("rpmos", 2, 1),
            ("cmos", 3, 1),
            ("rcmos", 3, 1),
            ("tran", 1, 1),
            ("rtran", 1, 1),
            ("tranif0", 2, 1),
            ("tranif1", 2, 1),
            ("rtranif1", 2, 1),
            ("pullup", 0, 1),
            ("pulldown", 0, 1),
        ]);
        self.kw(g);
        let pull = g == "pullup" || g == "pulldown";
        let pass = g.contains("tran");
        if !pass && !pull && self.t.chance(1, 5) && !g.contains("mos") {
            self.drive_strength();
        }
        if !pull && !(g == "tran" || g == "rtran") && self.t.chance(1, 4) {
            self.sym("#");
            if self.t.flip() {
                let s = *self.t.pick(&["2", "1.5"]);
                self.num(s);
            } else {
                self.sym("(");
                self.small_const();
                if self.t.flip() {
                    self.sym(",");
                    self.small_const();
                }
                self.sym(")");
            }
        }
        let n = 1 + self.t.weighted(&[5, 1]);
        for i in 0..n {
            if i > 0 {
                self.sym(",");
            }
            if self.t.flip() {
                let name = self.fresh_special();
                let tk = self.id(&name);
                self.expect(tk, "InstanceIdentifier", F_INST, &["GateInstantiation"]);
                if self.t.chance(1, 6) {
                    self.range();
                }
            }
            self.sym("(");
            for j in 0..(nin + nout) {
                if j > 0 {
                    self.sym(",");
                }
                if j < nout || (pass && j < 2) {
                    self.lvalue_simple();
                } else {
                    self.expr(1);
                }
            }
            self.sym(")");
        }
        self.sym(";");
    }

    pub fn generate_item_block(&mut self, depth: usize) {
        self.generate_item_block_opt(depth, false)
    }

    /// `force_block`: an `else` of the enclosing generate-if follows; a bare item could end in an open procedural
    /// `if` (final if (a) x = 1;) that would take that `else` for itself
    pub fn generate_item_block_opt(&mut self, depth: usize, force_block: bool) {
        // generate_block ::= generate_item | [label :] begin [: label] { generate_item } end [: label]
        if force_block || self.t.chance(2, 3) {
            self.kw("begin");
            let l = self.block_label_opt();
            let n = self.t.below(3);
            let saved = self.vars.len();
            for _ in 0..n {
                self.module_item(depth);
            }
            self.vars.truncate(saved);
            self.kw("end");
            if let Some(l) = l {
                if self.t.flip() {
                    self.sym(":");
                    self.id(&l);
                }
            }
        } else {
            let saved = self.vars.len();
            self.module_item(depth);
            self.vars.truncate(saved);
        }
    }

    pub fn generate_construct(&mut self, depth: usize) {
        match self.t.below(3) {
            0 => {
                self.tag("generate-loop");
                self.kw("for");
                self.sym("(");
                if self.t.flip() {
                    self.kw("genvar");
                }
                let v = self.fresh();
                self.id(&v);
                self.sym("=");
                self.small_const();
                self.sym(";");
                self.id(&v);
                self.sym("<");
                self.small_const();
                self.sym(";");
                match self.t.below(3) {
                    0 => {
                        self.id(&v);
                        self.sym("=");
                        self.id(&v);
                        self.sym("+");
                        self.num("1");
                    }
                    1 => {
                        self.id(&v);
                        self.sym("++");
                    }
                    _ => {
                        self.id(&v);
                        self.sym("+=");
                        self.num("1");
                    }
                }
                self.sym(")");
                self.generate_item_block(depth);
            }
            1 => {
                self.tag("generate-if");
                self.kw("if");
                self.sym("(");
                self.const_expr(1);
                self.sym(")");
                let has_else = self.t.flip();
                self.generate_item_block_opt(depth, has_else);
                if has_else {
                    self.kw("else");
                    self.generate_item_block(depth);
                }
            }
            _ => {
                self.tag("generate-case");
                self.kw("case");
                self.sym("(");
                self.const_expr(1);
                self.sym(")");
                let n = 1 + self.t.below(2);
                for _ in 0..n {
                    self.small_const();
                    if self.t.chance(1, 3) {
                        self.sym(",");
                        self.small_const();
                    }
                    self.sym(":");
                    self.generate_item_block(depth);
                }
                if self.t.flip() {
                    self.kw("default");
                    if self.t.flip() {
                        self.sym(":");
                    }
                    self.generate_item_block(depth);
                }
                self.kw("endcase");
            }
        }
    }

    pub fn tf_port_list(&mut self) {
        // ( [ tf_port_item { , tf_port_item } ] )
        self.sym("(");
        let n = self.t.below(4);
        for i in 0..n {
            if i > 0 {
                self.sym(",");
            }
            let dir = self.t.below(6);
            match dir {
                0 => {
                    self.kw("input");
                }
                1 => {
                    self.kw("output");
                }
                2 => {
                    self.kw("inout");
                }
                3 => {
                    self.kw("ref");
                }
                4 => {
                    self.kw("const");
                    self.kw("ref");
                }
                _ => {}
            }
            if self.t.chance(1, 6) {
                self.kw("var");
            }
            // data_type_or_implicit; the first item without direction needs an explicit type to stay unambiguous
            if dir == 5 || self.t.chance(2, 3) {
                let ty = *self.t.pick(&["int", "logic", "bit", "integer", "byte", "string", "real"]);
                self.kw(ty);
                if ty == "logic" || ty == "bit" {
                    self.packed_dims(1);
                }
            } else {
                // `inout x` alone also derives "type x, no port name" (the name is optional in tf_port_item),
                // so an implicit type always carries a signing or a packed dimension here
                if self.t.flip() {
                    let s = *self.t.pick(&["signed", "unsigned"]);
                    self.kw(s);
                    if self.t.flip() {
                        self.range();
                    }
                } else {
                    self.range();
                }
            }
            let name = self.fresh_special();
            let tk = self.id(&name);
            self.expect(tk, "PortIdentifier", F_PORT, &["TfPortItem"]);
            if self.t.chance(1, 6) {
                self.range();
            }
            if self.t.chance(1, 5) {
                self.sym("=");
                self.expr(1);
            }
            self.vars.push(name);
        }
        self.sym(")");
    }

    pub fn function_declaration(&mut self, is_method: bool) {
        self.tag("function");
        let saved_vars = self.vars.len();
        let saved_fn = self.in_function;
        self.in_function = true;
        self.kw("function");
        if self.t.chance(1, 3) {
            let s = *self.t.pick(&["automatic", "static"]);
            self.kw(s);
        }
        // function_data_type_or_implicit
        match self.t.weighted(&[2, 3, 2, 1]) {
            0 => {
                self.kw("void");
            }
            1 => {
                let ty = *self.t.pick(&["int", "logic", "bit", "integer", "byte", "string", "real", "longint"]);
                self.kw(ty);
                if ty == "logic" || ty == "bit" {
                    self.packed_dims(1);
                }
            }
            2 => {}
            _ => {
                if self.t.flip() {
                    let s = *self.t.pick(&["signed", "unsigned"]);
                    self.kw(s);
                }
                self.range();
            }
        }
        let name = self.fresh();
        let tk = self.id(&name);
        self.expect(tk, "FunctionIdentifier", F_DESIGN, &["FunctionDeclaration"]);
        let ansi = self.t.chance(2, 3);
        if ansi {
            if self.t.chance(5, 6) {
                self.tf_port_list();
            }
            self.sym(";");
        } else {
            self.sym(";");
            self.old_style_tf_ports();
        }
        let nd = self.t.below(2);
        for _ in 0..nd {
            self.var_declaration();
        }
        // The first statement must not look like a declaration with an implicit type (`x = 0;`)
        let ns = self.t.below(4);
        for i in 0..ns {
            if i == 0 {
                self.stmt_not_assignment();
            } else {
                self.stmt_or_null(2);
            }
        }
        self.kw("endfunction");
        if self.t.chance(1, 3) {
            self.sym(":");
            self.id(&name);
        }
        let _ = is_method;
        self.in_function = saved_fn;
        self.vars.truncate(saved_vars);
    }

    pub fn stmt_not_assignment(&mut self) {
        // begin/end, if, return or a system task: none can be read as block_item_declaration
        match self.t.below(3) {
            0 => {
                self.kw("if");
                self.sym("(");
                self.expr(1);
                self.sym(")");
                self.stmt_or_null(1);
            }
            1 => {
                self.push("$display", Class::SysIdent);
                self.sym("(");
                self.string_lit();
                self.sym(")");
                self.sym(";");
            }
            _ => {
                self.kw("begin");
                self.kw("end");
            }
        }
    }

    pub fn old_style_tf_ports(&mut self) {
        let n = self.t.below(3);
        for _ in 0..n {
            let d = *self.t.pick(&["input", "output", "inout"]);
            self.kw(d);
            match self.t.below(3) {
                0 => {}
                1 => self.range(),
                _ => {
                    let ty = *self.t.pick(&["int", "logic", "integer", "reg"]);
                    self.kw(ty);
                }
            }
            let k = 1 + self.t.below(2);
            for i in 0..k {
                if i > 0 {
                    self.sym(",");
                }
                let name = self.fresh_special();
                let tk = self.id(&name);
                self.expect(tk, "PortIdentifier", F_PORT, &["TfPortDeclaration"]);
                self.vars.push(name);
            }
            self.sym(";");
        }
    }

    pub fn task_declaration(&mut self) {
        self.tag("task");
        let saved_vars = self.vars.len();
        let saved_fn = self.in_function;
        self.in_function = false;
        self.kw("task");
        if self.t.chance(1, 3) {
            let s = *self.t.pick(&["automatic", "static"]);
            self.kw(s);
        }
        let name = self.fresh();
        let tk = self.id(&name);
        self.expect(tk, "TaskIdentifier", F_DESIGN, &["TaskDeclaration"]);
        if self.t.chance(2, 3) {
            if self.t.chance(5, 6) {
                self.tf_port_list();
            }
            self.sym(";");
        } else {
            self.sym(";");
            self.old_style_tf_ports();
        }
        let nd = self.t.below(2);
        for _ in 0..nd {
            self.var_declaration();
        }
        let ns = self.t.below(4);
        for i in 0..ns {
            if i == 0 {
                self.stmt_not_assignment();
            } else {
                self.stmt_or_null(2);
            }
        }
        self.kw("endtask");
        if self.t.chance(1, 3) {
            self.sym(":");
            self.id(&name);
        }
        self.in_function = saved_fn;
        self.vars.truncate(saved_vars);
    }

    /// variable of an anonymous enum / struct type
    pub fn enum_struct_variable(&mut self) {
        self.tag("enum-struct-variable");
        if self.t.flip() {
            self.kw("enum");
            if self.t.flip() {
                let ty = *self.t.pick(&["logic", "bit", "int"]);
                self.kw(ty);
                if ty != "int" {
                    self.packed_dims(1);
                }
            }
            self.sym("{");
            let n = 1 + self.t.below(3);
            for i in 0..n {
                if i > 0 {
                    self.sym(",");
                }
                let m = self.fresh();
                let tk = self.id(&m);
                self.expect(tk, "EnumIdentifier", F_DECL, &["EnumNameDeclaration"]);
                if self.t.chance(1, 3) {
                    self.sym("=");
                    self.const_expr(0);
                }
            }
            self.sym("}");
        } else {
            self.kw("struct");
            if self.t.flip() {
                self.kw("packed");
            }
            self.sym("{");
            let n = 1 + self.t.below(2);
            for _ in 0..n {
                let ty = *self.t.pick(&["logic", "bit", "int", "byte"]);
                self.kw(ty);
                if ty == "logic" || ty == "bit" {
                    self.packed_dims(1);
                }
                let m = self.fresh();
                let tk = self.id(&m);
                self.expect(tk, "VariableIdentifier", F_DECL, &["StructUnionMember"]);
                self.sym(";");
            }
            self.sym("}");
        }
        let name = self.fresh_special();
        let tk = self.id(&name);
        self.expect(tk, "VariableIdentifier", F_DECL, &["DataDeclarationVariable"]);
        if self.t.chance(1, 4) {
            self.range();
        }
        self.sym(";");
        self.vars.push(name);
    }

    /// module_path_expression (A.8.3): constants, identifiers, concatenations, unary / binary module path
    /// operators and the conditional operator
    pub fn module_path_expr(&mut self, depth: usize) {
        if depth == 0 || self.t.chance(1, 3) {
            match self.t.below(3) {
                0 => {
                    let s = *self.t.pick(&["0", "1", "1'b0", "2'b10"]);
                    self.num(s);
                }
                _ => self.var_ref_ident_only(),
            }
            return;
        }
        match self.t.weighted(&[3, 2, 3, 1, 1]) {
            0 => {
                self.module_path_expr(depth - 1);
                let op = *self.t.pick(&["==", "!=", "&&", "||", "&", "|", "^", "^~", "~^"]);
                self.sym(op);
                self.module_path_expr(depth - 1);
            }
            1 => {
                let op = *self.t.pick(&["!", "~", "&", "~&", "|", "~|", "^", "~^", "^~"]);
                self.sym(op);
                self.var_ref_ident_only();
            }
            2 => {
                self.tag("module-path-conditional");
                self.module_path_expr(depth - 1);
                self.sym("?");
                self.module_path_expr(depth - 1);
                self.sym(":");
                self.module_path_expr(depth - 1);
            }
            3 => {
                self.sym("(");
                self.module_path_expr(depth - 1);
                self.sym(")");
            }
            _ => {
                self.sym("{");
                self.var_ref_ident_only();
                self.sym(",");
                self.var_ref_ident_only();
                self.sym("}");
            }
        }
    }

    fn path_delay_value(&mut self) {
        if self.t.flip() {
            self.small_const();
        } else {
            self.sym("(");
            self.small_const();
            self.sym(",");
            self.small_const();
            if self.t.chance(1, 3) {
                self.sym(",");
                self.small_const();
            }
            self.sym(")");
        }
    }

    /// specify block (A.7): parallel / full / edge-sensitive / state-dependent paths, specparams, pulsestyle
    pub fn specify_block(&mut self) {
        self.tag("specify");
        self.kw("specify");
        let n = 1 + self.t.below(4);
        for _ in 0..n {
            match self.t.weighted(&[4, 3, 3, 2, 1, 1, 4]) {
                6 => self.system_timing_check(),
                0 => {
                    // simple parallel path
                    self.sym("(");
                    self.var_ref_ident_only();
                    if self.t.chance(1, 3) {
                        let p = *self.t.pick(&["+", "-"]);
                        self.sym(p);
                    }
                    self.sym("=>");
                    self.var_ref_ident_only();
                    self.sym(")");
                    self.sym("=");
                    self.path_delay_value();
                    self.sym(";");
                }
                1 => {
                    // simple full path
                    self.sym("(");
                    self.var_ref_ident_only();
                    if self.t.flip() {
                        self.sym(",");
                        self.var_ref_ident_only();
                    }
                    self.sym("*>");
                    self.var_ref_ident_only();
                    self.sym(")");
                    self.sym("=");
                    self.path_delay_value();
                    self.sym(";");
                }
                2 => {
                    // state-dependent path
                    self.tag("specify-state-dependent");
                    let ifnone = self.t.chance(1, 5);
                    if ifnone {
                        self.kw("ifnone");
                    } else {
                        self.kw("if");
                        self.sym("(");
                        self.module_path_expr(2);
                        self.sym(")");
                    }
                    // ifnone takes a simple path only
                    if !ifnone && self.t.chance(1, 3) {
                        // if ( module_path_expression ) edge_sensitive_path_declaration
                        self.tag("specify-state-dependent-edge");
                        self.sym("(");
                        let e = *self.t.pick(&["posedge", "negedge", "edge"]);
                        self.kw(e);
                        self.var_ref_ident_only();
                        let op = *self.t.pick(&["=>", "*>"]);
                        self.sym(op);
                        self.sym("(");
                        self.var_ref_ident_only();
                        let p = *self.t.pick(&["+:", "-:", ":"]);
                        self.sym(p);
                        self.var_ref_ident_only();
                        self.sym(")");
                        self.sym(")");
                    } else {
                        self.sym("(");
                        self.var_ref_ident_only();
                        let op = *self.t.pick(&["=>", "*>"]);
                        self.sym(op);
                        self.var_ref_ident_only();
                        self.sym(")");
                    }
                    self.sym("=");
                    self.path_delay_value();
                    self.sym(";");
                }
                3 => {
                    // edge-sensitive path
                    self.sym("(");
                    let e = *self.t.pick(&["posedge", "negedge"]);
                    self.kw(e);
                    self.var_ref_ident_only();
                    self.sym("=>");
                    self.sym("(");
                    self.var_ref_ident_only();
                    let p = *self.t.pick(&["+:", "-:", ":"]);
                    self.sym(p);
                    self.var_ref_ident_only();
                    self.sym(")");
                    self.sym(")");
                    self.sym("=");
                    self.path_delay_value();
                    self.sym(";");
                }
                4 => {
                    self.specparam_declaration();
                }
                _ => {
                    let k = *self.t.pick(&["pulsestyle_onevent", "pulsestyle_ondetect", "showcancelled", "noshowcancelled"]);
                    self.kw(k);
                    self.var_ref_ident_only();
                    self.sym(";");
                }
            }
        }
        self.kw("endspecify");
    }

    /// specparam_declaration is a non_port_module_item: module body only, never inside generate constructs
    pub fn specparam_declaration(&mut self) {
        self.tag("specparam");
        self.kw("specparam");
        if self.t.chance(1, 5) {
            // pulse_control_specparam (A.2.4): PATHPULSE$ or PATHPULSE$in$out, written as one word
            self.tag("specparam-pathpulse");
            let w = *self.t.pick(&["PATHPULSE$", "PATHPULSE$in_a1$out_b2", "PATHPULSE$clk$q", "PATHPULSE$a$b"]);
            self.raw(w);
            self.sym("=");
            self.sym("(");
            let n = 1 + self.t.below(2);
            for i in 0..n {
                if i > 0 {
                    self.sym(",");
                }
                self.small_const();
                if self.t.chance(1, 3) {
                    self.sym(":");
                    self.small_const();
                    self.sym(":");
                    self.small_const();
                }
            }
            self.sym(")");
            self.sym(";");
            return;
        }
        if self.t.chance(1, 3) {
            self.range();
        }
        let name = self.fresh();
        self.id(&name);
        self.sym("=");
        self.const_expr(1);
        self.sym(";");
    }

    pub fn misc_module_item(&mut self) {
        match self.t.below(6) {
            0 => {
                self.tag("defparam");
                self.kw("defparam");
                self.id("u_inst");
                self.sym(".");
                self.id("WIDTH");
                self.sym("=");
                self.const_expr(1);
                self.sym(";");
            }
            1 | 2 => {
                self.tag("clocking");
                if self.t.chance(1, 4) {
                    self.kw("default");
                }
                self.kw("clocking");
                let name = self.fresh();
                self.id(&name);
                self.event_control_simple();
                self.sym(";");
                let n = self.t.below(3);
                for _ in 0..n {
                    let d = *self.t.pick(&["input", "output"]);
                    self.kw(d);
                    if self.t.chance(1, 3) {
                        self.sym("#");
                        self.num("1");
                    }
                    self.var_ref_ident_only();
                    self.sym(";");
                }
                self.kw("endclocking");
                if self.t.chance(1, 3) {
                    self.sym(":");
                    self.id(&name);
                }
            }
            3 => {
                self.tag("concurrent-assertion");
                if self.t.flip() {
                    let l = self.fresh();
                    self.id(&l);
                    self.sym(":");
                }
                let k = *self.t.pick(&["assert", "assume", "cover"]);
                self.kw(k);
                self.kw("property");
                self.sym("(");
                self.event_control_simple();
                if self.t.chance(1, 3) {
                    self.kw("disable");
                    self.kw("iff");
                    self.sym("(");
                    self.var_ref_ident_only();
                    self.sym(")");
                }
                self.var_ref_ident_only();
                let op = *self.t.pick(&["|->", "|=>"]);
                self.sym(op);
                if self.t.flip() {
                    self.sym("##");
                    self.num("1");
                }
                self.var_ref_ident_only();
                self.sym(")");
                if k == "cover" || self.t.flip() {
                    self.sym(";");
                } else {
                    self.kw("else");
                    self.push("$error", Class::SysIdent);
                    self.sym("(");
                    self.string_lit();
                    self.sym(")");
                    self.sym(";");
                }
            }
            4 => {
                self.tag("dpi-import");
                self.kw("import");
                let s = *self.t.pick(&["\"DPI-C\"", "\"DPI\""]);
                self.push(s, Class::Str);
                if self.t.chance(1, 3) {
                    let q = *self.t.pick(&["pure", "context"]);
                    self.kw(q);
                }
                if self.t.chance(1, 3) {
                    self.id("c_name_1");
                    self.sym("=");
                }
                self.kw("function");
                let ty = *self.t.pick(&["int", "void", "real", "byte"]);
                self.kw(ty);
                let name = self.fresh();
                let tk = self.id(&name);
                self.expect(tk, "FunctionIdentifier", F_DESIGN, &["FunctionPrototype"]);
                self.sym("(");
                if self.t.flip() {
                    self.kw("input");
                    self.kw("int");
                    self.id("dpi_a");
                }
                self.sym(")");
                self.sym(";");
            }
            _ => {
                self.tag("property-declaration");
                let seq = self.t.flip();
                self.kw(if seq { "sequence" } else { "property" });
                let name = self.fresh();
                self.id(&name);
                if self.t.flip() {
                    self.sym("(");
                    self.id("pa");
                    if self.t.flip() {
                        self.sym(",");
                        self.id("pb");
                    }
                    self.sym(")");
                }
                self.sym(";");
                self.event_control_simple();
                self.var_ref_ident_only();
                if seq {
                    self.sym("##");
                    self.num("1");
                    self.var_ref_ident_only();
                } else {
                    self.sym("|->");
                    self.var_ref_ident_only();
                }
                self.sym(";");
                self.kw(if seq { "endsequence" } else { "endproperty" });
                if self.t.chance(1, 3) {
                    self.sym(":");
                    self.id(&name);
                }
            }
        }
    }

    /// @(posedge x) / @(x)
    pub fn event_control_simple(&mut self) {
        self.sym("@");
        self.sym("(");
        if self.t.flip() {
            let e = *self.t.pick(&["posedge", "negedge"]);
            self.kw(e);
        }
        self.var_ref_ident_only();
        self.sym(")");
    }

    /// one module_or_generate_item (depth bounds generate nesting)
    pub fn module_item(&mut self, depth: usize) {
        let gen_w = if depth > 0 { 3 } else { 0 };
        if self.t.chance(1, 10) {
            match self.t.below(5) {
                0 | 1 => self.enum_struct_variable(),
                2 => self.misc_module_item(),
                _ => self.misc_module_item2(),
            }
            return;
        }
        match self.t.weighted(&[5, 5, 2, 3, 4, 4, 3, 3, 2, gen_w, 2, 1, 1, 1]) {
            0 => self.net_declaration(),
            1 => self.var_declaration(),
            2 => self.typedef(),
            3 => self.param_declaration(false),
            4 => self.continuous_assign(),
            5 => self.always_construct(),
            6 => self.initial_construct(),
            7 => self.module_instantiation(),
            8 => self.gate_instantiation(),
            9 => self.generate_construct(depth - 1),
            10 => self.function_declaration(false),
            11 => self.task_declaration(),
            12 => {
                self.genvar_declaration();
            }
            _ => self.import_declaration(),
        }
    }
}
