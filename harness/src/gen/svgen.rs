//! Reference generator for a subset of IEEE 1800-2017 Annex A (DESIGN.md 3.1).
//! Emits a token list plus expectations (which Annex A node kind must enclose which declared name).
//! Soundness rule: only sentences derivable by hand from Annex A; ambiguous forms carry a set of kinds.

use crate::gen::layout::{gen_trivia, Feats, TriviaCfg};
use crate::tape::Tape;
use std::collections::{BTreeMap, HashSet};

#[derive(Clone, Copy, PartialEq, Eq, Debug)]
pub enum Class {
    Keyword,
    Ident,
    EscIdent,
    SysIdent,
    Number,
    /// continuation of a number (base or digits); only blanks may precede it
    NumPart,
    Str,
    Symbol,
    /// word-like lexeme that is neither keyword nor identifier (UDP table symbols): spaced like a word, not leaf-checked
    Raw,
}

#[derive(Clone, Debug)]
pub struct Tok {
    pub text: String,
    pub class: Class,
}

#[derive(Clone, Debug)]
pub struct Expect {
    /// index of the token that carries the declared name
    pub tok: usize,
    /// identifier node kind that must directly wrap the name (e.g. "ModuleIdentifier")
    pub name_kind: &'static str,
    /// competing construct kinds (prefix match); the nearest enclosing node of this family ...
    pub family: &'static [&'static str],
    /// ... must be one of these (prefix match)
    pub expected: Vec<&'static str>,
}

#[derive(Clone, Debug, Default)]
pub struct Program {
    pub toks: Vec<Tok>,
    pub expects: Vec<Expect>,
    pub tags: BTreeMap<&'static str, usize>,
    pub design_elements: usize,
    /// token indices after which a `resetall may stand (between top-level descriptions)
    pub top_boundaries: Vec<usize>,
}

#[derive(Clone, Debug)]
pub struct Cfg {
    pub max_elements: usize,
    pub max_items: usize,
    pub adversarial_names: bool,
}

impl Default for Cfg {
    fn default() -> Self {
        Cfg { max_elements: 4, max_items: 8, adversarial_names: true }
    }
}

pub const F_DESIGN: &[&str] = &[
    "ModuleDeclarationNonansi",
    "ModuleDeclarationAnsi",
    "ModuleDeclarationWildcard",
    "ModuleDeclarationExtern",
    "InterfaceDeclarationNonansi",
    "InterfaceDeclarationAnsi",
    "InterfaceDeclarationWildcard",
    "InterfaceDeclarationExtern",
    "ProgramDeclarationNonansi",
    "ProgramDeclarationAnsi",
    "ProgramDeclarationWildcard",
    "ProgramDeclarationExtern",
    "PackageDeclaration",
    "ClassDeclaration",
    "InterfaceClassDeclaration",
    "FunctionDeclaration",
    "TaskDeclaration",
    "UdpDeclaration",
    "CheckerDeclaration",
    "ConfigDeclaration",
    "FunctionPrototype",
    "TaskPrototype",
    "UdpDeclarationNonansi",
    "UdpDeclarationAnsi",
];
pub const F_PORT: &[&str] = &[
    "AnsiPortDeclarationNet",
    "AnsiPortDeclarationVariable",
    "AnsiPortDeclarationParen",
    "InputDeclaration",
    "OutputDeclaration",
    "InoutDeclaration",
    "RefDeclaration",
    "InterfacePortDeclaration",
    "PortNonNamed",
    "PortNamed",
    "TfPortItem",
    "TfPortDeclaration",
    "NetDeclaration",
    "DataDeclaration",
];
pub const F_PARAM: &[&str] = &["ParamAssignment", "TypeAssignment", "DefparamAssignment", "NamedParameterAssignment"];
pub const F_PARAMDECL: &[&str] = &[
    "ParameterDeclarationParam",
    "ParameterDeclarationType",
    "LocalParameterDeclarationParam",
    "LocalParameterDeclarationType",
    "ParameterPortDeclarationParamList",
    "ParameterPortDeclarationTypeList",
    "ParameterPortListAssignment",
];
pub const F_DECL: &[&str] = &[
    "NetDeclarationNetType",
    "NetDeclarationNetTypeIdentifier",
    "NetDeclarationInterconnect",
    "DataDeclarationVariable",
    "TypeDeclarationDataType",
    "TypeDeclarationInterface",
    "TypeDeclarationReserved",
    "GenvarDeclaration",
    "StructUnionMember",
    "EnumNameDeclaration",
    "PackageImportDeclaration",
    "NetTypeDeclaration",
    "ParameterDeclaration",
    "LocalParameterDeclaration",
    "AnsiPortDeclaration",
    "TfPortItem",
    "InputDeclaration",
    "OutputDeclaration",
    "InoutDeclaration",
    "ClassProperty",
    "LoopGenerateConstruct",
    "ForInitialization",
    "BlockingAssignment",
    "OperatorAssignment",
    "NonblockingAssignment",
    "NetAssignment",
];
pub const F_INST: &[&str] = &[
    "ModuleInstantiation",
    "InterfaceInstantiation",
    "ProgramInstantiation",
    "UdpInstantiation",
    "CheckerInstantiation",
    "GateInstantiation",
];
pub const F_HINST: &[&str] = &[
    "HierarchicalInstance",
    "UdpInstance",
    "CmosSwitchInstance",
    "EnableGateInstance",
    "MosSwitchInstance",
    "NInputGateInstance",
    "NOutputGateInstance",
    "PassSwitchInstance",
    "PassEnableSwitchInstance",
    "PullGateInstance",
];

const PLAIN_PREFIX: &[&str] = &["n", "sig", "v", "x", "data", "q"];
const KW_PREFIX: &[&str] = &[
    "module_", "end", "wire", "begin", "input", "for", "logic_", "endmodule", "assign", "reg", "if", "else_", "case", "function", "task", "bit",
    "int", "var", "output", "always", "generate", "do", "new", "this", "super_", "null", "inside", "type", "void", "string", "event", "signed",
];
const KW_SUFFIX: &[&str] = &["module", "end", "wire", "begin", "input", "logic"];

pub struct Gen<'a, 'b> {
    pub t: &'a mut Tape<'b>,
    pub p: Program,
    cfg: Cfg,
    counter: usize,
    used: HashSet<String>,
    /// names that may be referenced in expressions (current scope chain)
    vars: Vec<String>,
    /// names of modules generated so far (instantiation targets)
    modules: Vec<String>,
    packages: Vec<String>,
    in_class: bool,
    in_function: bool,
}

impl<'a, 'b> Gen<'a, 'b> {
    pub fn tag(&mut self, s: &'static str) {
        *self.p.tags.entry(s).or_insert(0) += 1;
    }
    pub fn push(&mut self, text: &str, class: Class) -> usize {
        self.p.toks.push(Tok { text: text.to_string(), class });
        self.p.toks.len() - 1
    }
    pub fn kw(&mut self, s: &str) -> usize {
        self.push(s, Class::Keyword)
    }
    pub fn sym(&mut self, s: &str) -> usize {
        self.push(s, Class::Symbol)
    }
    pub fn raw(&mut self, s: &str) -> usize {
        self.push(s, Class::Raw)
    }
    pub fn num(&mut self, s: &str) -> usize {
        self.push(s, Class::Number)
    }
    /// reference or declaration of an identifier token (class derived from its spelling)
    pub fn id(&mut self, s: &str) -> usize {
        if s.starts_with('\\') {
            self.push(s, Class::EscIdent)
        } else {
            self.push(s, Class::Ident)
        }
    }
    pub fn expect(&mut self, tok: usize, name_kind: &'static str, family: &'static [&'static str], expected: &[&'static str]) {
        self.p.expects.push(Expect { tok, name_kind, family, expected: expected.to_vec() });
    }

    /// A globally unique identifier, adversarially spelled.
    pub fn fresh(&mut self) -> String {
        self.counter += 1;
        let k = self.counter;
        let style = if self.cfg.adversarial_names { self.t.weighted(&[6, 5, 2, 2, 2, 2, 1, 2]) } else { 0 };
        let name = match style {
            0 => format!("{}{}", self.t.pick(PLAIN_PREFIX), k),
            1 => format!("{}{}", self.t.pick(KW_PREFIX), k),
            2 => format!("z{}{}", k, self.t.pick(KW_SUFFIX)),
            3 => {
                // case variant of a keyword with the counter appended
                let w = *self.t.pick(&["Module", "WIRE", "End", "BEGIN", "Logic", "Input", "ENDMODULE", "If"]);
                format!("{}{}", w, k)
            }
            4 => {
                let w = *self.t.pick(&["a{}$b", "s{}$", "m{}$module", "_{}$_", "end${}", "begin$x{}", "join$_{}", "endcase${}", "wire${}"]);
                w.replace("{}", &k.to_string())
            }
            5 => {
                let w = *self.t.pick(&["_{}", "__x{}", "_{}_", "_end{}"]);
                w.replace("{}", &k.to_string())
            }
            6 => format!("L{}_{}", k, "abcdefghij".repeat(5)),
            _ => {
                let w = *self.t.pick(&[
                    "\\foo+bar{}", "\\module{}", "\\end{}", "\\{}", "\\a.b[{}]", "\\é{}", "\\`x{}", "\\\"q{}", "\\//{}", "\\/*{}*/", "\\(*{}", "\\;{}",
                ]);
                w.replace("{}", &k.to_string())
            }
        };
        if self.used.insert(name.clone()) {
            name
        } else {
            let n = format!("u{}", k);
            self.used.insert(n.clone());
            n
        }
    }

    /// one-time special names (exact keyword escapes, single letters) if still unused
    pub fn fresh_special(&mut self) -> String {
        if self.cfg.adversarial_names && self.t.chance(1, 6) {
            let w = *self.t.pick(&["\\module", "\\end", "\\begin", "\\wire", "Module", "WIRE", "END", "Begin", "a", "x", "_", "\\\\", "i", "\\input"]);
            if self.used.insert(w.to_string()) {
                return w.to_string();
            }
        }
        self.fresh()
    }

    pub fn some_var(&mut self) -> Option<String> {
        if self.vars.is_empty() {
            None
        } else {
            let i = self.t.below(self.vars.len());
            Some(self.vars[i].clone())
        }
    }
}

// -------------------------------------------------------------------------------------------------
// layout

fn wordy(c: Class) -> bool {
    matches!(c, Class::Keyword | Class::Ident | Class::SysIdent | Class::Number | Class::NumPart | Class::EscIdent | Class::Raw)
}

const SAFE: &[&str] = &["(", ")", "[", "]", "{", "}", ",", ";"];

/// Must some white space separate a and b?
pub fn needs_space(a: &Tok, b: &Tok) -> bool {
    if a.class == Class::EscIdent {
        return true;
    }
    if b.class == Class::NumPart {
        return false;
    }
    if wordy(a.class) && wordy(b.class) {
        return true;
    }
    if matches!(a.class, Class::Number | Class::NumPart) && (b.text.starts_with('?') || b.text.starts_with('.') || b.text.starts_with('\'')) {
        return true;
    }
    if a.class == Class::Symbol && b.class == Class::Symbol {
        let a_safe = SAFE.contains(&a.text.as_str());
        let b_safe = SAFE.contains(&b.text.as_str());
        if a.text == "(" && b.text.starts_with('*') {
            return true;
        }
        if a.text.ends_with('*') && b.text == ")" {
            return true;
        }
        return !(a_safe || b_safe);
    }
    // symbol next to a word / string: safe unless the symbol could extend the word
    if a.class == Class::Symbol && wordy(b.class) {
        // ".5" / "'h" hazards: a symbol ending in ' followed by a word would read as a based number
        return a.text.ends_with('\'') || a.text == "." && b.class == Class::Number;
    }
    if wordy(a.class) && b.class == Class::Symbol {
        return b.text.starts_with('$') || b.text.starts_with('\'') && a.class == Class::Number;
    }
    false
}

impl Program {
    /// Render with generated trivia; returns the text.
    pub fn render(&self, t: &mut Tape, cfg: &TriviaCfg, f: &mut Feats) -> String {
        self.render_spans(t, cfg, f).0
    }

    /// Render with white space exactly at the gaps where `mask` says so (gap i = between token i and i+1;
    /// the last entry is the end of the text, index len = before the first token). Where `mask` is None the
    /// gaps are chosen here. Every chosen gap gets a freshly generated non-empty run. Returns text and mask.
    pub fn render_masked(&self, t: &mut Tape, cfg: &TriviaCfg, f: &mut Feats, mask: Option<&[bool]>, plain_share: usize) -> (String, Vec<bool>) {
        let n = self.toks.len();
        let mut used = vec![false; n + 1];
        let mut out = String::new();
        if n == 0 {
            return (out, used);
        }
        let lead = match mask {
            Some(m) => m[n],
            None => t.chance(1, 4),
        };
        if lead {
            used[n] = true;
            let nf = self.toks[0].text.chars().next();
            out.push_str(&gen_trivia(t, cfg, None, nf, false, f));
        }
        for i in 0..n {
            let tok = &self.toks[i];
            out.push_str(&tok.text);
            let nxt = self.toks.get(i + 1);
            let num_part = nxt.map(|x| x.class == Class::NumPart).unwrap_or(false);
            let must = match nxt {
                Some(nx) => !num_part && needs_space(tok, nx),
                None => tok.class == Class::EscIdent,
            };
            let want = match mask {
                Some(m) => m[i],
                None => must || t.chance(1, if num_part { 3 } else { 2 }),
            };
            if !want {
                continue;
            }
            used[i] = true;
            if num_part {
                out.push_str(t.pick_str(&[" ", "\t", "  "]));
                continue;
            }
            let pl = tok.text.chars().next_back();
            let nf = nxt.and_then(|x| x.text.chars().next());
            if t.chance(plain_share, 4) {
                let s = *t.pick(&[" ", " ", "\n", "  ", "\t"]);
                out.push_str(s);
            } else {
                let mut cfg2 = *cfg;
                if tok.class == Class::EscIdent || tok.class == Class::Str {
                    cfg2.define_directives = false;
                }
                out.push_str(&gen_trivia(t, &cfg2, pl, nf, tok.class == Class::EscIdent, f));
            }
        }
        (out, used)
    }

    /// Render; also returns the byte offset of every token.
    pub fn render_spans(&self, t: &mut Tape, cfg: &TriviaCfg, f: &mut Feats) -> (String, Vec<usize>) {
        let mut out = String::new();
        let mut spans = Vec::with_capacity(self.toks.len());
        if !self.toks.is_empty() && t.chance(1, 4) {
            let nf = self.toks[0].text.chars().next();
            out.push_str(&gen_trivia(t, cfg, None, nf, false, f));
        }
        for i in 0..self.toks.len() {
            let tok = &self.toks[i];
            spans.push(out.len());
            out.push_str(&tok.text);
            if i + 1 < self.toks.len() {
                let nxt = &self.toks[i + 1];
                if nxt.class == Class::NumPart {
                    // inside a number only blanks are generated
                    if t.chance(1, 3) {
                        out.push_str(t.pick_str(&[" ", "\t", "  "]));
                    }
                    continue;
                }
                let must = needs_space(tok, nxt);
                if must || t.chance(1, 2) {
                    let pl = tok.text.chars().next_back();
                    let nf = nxt.text.chars().next();
                    // most runs are a single blank or newline so programs stay readable and small
                    if t.chance(2, 3) {
                        let s = *t.pick(&[" ", " ", "\n", "  ", "\t"]);
                        out.push_str(s);
                    } else {
                        // K1 (known finding RC1): no `define in trivia owned by a string / escaped identifier
                        let mut cfg2 = *cfg;
                        if tok.class == Class::EscIdent || tok.class == Class::Str {
                            cfg2.define_directives = false;
                        }
                        out.push_str(&gen_trivia(t, &cfg2, pl, nf, tok.class == Class::EscIdent, f));
                    }
                }
            } else if tok.class == Class::EscIdent || t.chance(1, 2) {
                out.push('\n');
            }
        }
        (out, spans)
    }

    /// Plain rendering: single blanks where required, newline after ';'.
    pub fn render_plain(&self) -> String {
        let mut out = String::new();
        for i in 0..self.toks.len() {
            out.push_str(&self.toks[i].text);
            if i + 1 < self.toks.len() {
                let nxt = &self.toks[i + 1];
                if nxt.class != Class::NumPart && needs_space(&self.toks[i], nxt) {
                    out.push(' ');
                } else if self.toks[i].text == ";" {
                    out.push('\n');
                }
            } else {
                out.push('\n');
            }
        }
        out
    }
}

pub fn generate(t: &mut Tape, cfg: &Cfg) -> Program {
    let mut g = Gen {
        t,
        p: Program::default(),
        cfg: cfg.clone(),
        counter: 0,
        used: HashSet::new(),
        vars: Vec::new(),
        modules: Vec::new(),
        packages: Vec::new(),
        in_class: false,
        in_function: false,
    };
    g.source_text();
    g.p
}

/// A small program centred on one rarely reached family (specify blocks, assertions, clocking, covergroups, UDPs, …).
pub fn generate_focus(t: &mut Tape) -> Program {
    let mut g = Gen {
        t,
        p: Program::default(),
        cfg: Cfg { max_elements: 1, max_items: 2, adversarial_names: true },
        counter: 0,
        used: HashSet::new(),
        vars: Vec::new(),
        modules: Vec::new(),
        packages: Vec::new(),
        in_class: false,
        in_function: false,
    };
    g.focus_text();
    g.p
}

/// `generate`, but every fifth program is a focused small one.
pub fn generate_mixed(t: &mut Tape, cfg: &Cfg) -> Program {
    if t.chance(1, 5) {
        generate_focus(t)
    } else {
        generate(t, cfg)
    }
}

include!("svgen_expr.rs");
include!("svgen_items.rs");
include!("svgen_top.rs");
include!("svgen_more.rs");
include!("svgen_more2.rs");
