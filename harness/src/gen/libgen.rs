//! Library map files (IEEE 1800-2017 33.3): library declarations, include statements, null statements.
//! Non-literal paths avoid "/*" and "//" (the preprocessor runs first and would see a comment); they end at white
//! space of any kind, ',' or ';'.

use crate::tape::Tape;

const LIBS: &[&str] = &["lib1", "rtlLib", "gateLib", "work", "L_2", "\\esc+lib "];
const PATHS: &[&str] = &[
    "a.v", "./*.v", "../src/top.sv", "dir/...", "/abs/path/x.v", "*.vg", "?.v", "$LIB/x.v", "a-b.v", "dir/sub/", "ü.v",
];
const STR_PATHS: &[&str] = &["\"a.v\"", "\"dir with space/x.v\"", "\"é.sv\"", "\"a;b,c.v\"", "\"\\\"q\\\".v\""];

fn sep(t: &mut Tape) -> &'static str {
    *t.pick(&[" ", " ", "\n", "  ", " \n ", " /* c */ ", " // c\n", "\t"])
}

fn path(t: &mut Tape, out: &mut String) {
    if t.chance(1, 4) {
        out.push_str(t.pick_str(STR_PATHS));
        if t.flip() {
            out.push_str(sep(t));
        }
    } else {
        out.push_str(t.pick_str(PATHS));
        // a non-literal path ends at white space, ',' or ';'
        if t.flip() {
            out.push_str(sep(t));
        }
    }
}

fn path_list(t: &mut Tape, out: &mut String) {
    path(t, out);
    let mut n = 0;
    while n < 3 && t.chance(1, 3) {
        out.push(',');
        if t.flip() {
            out.push_str(sep(t));
        }
        path(t, out);
        n += 1;
    }
}

pub fn generate(t: &mut Tape) -> String {
    let mut out = String::new();
    if t.chance(1, 3) {
        out.push_str(sep(t));
    }
    let mut n = 0;
    loop {
        match t.weighted(&[2, 6, 3, 1]) {
            0 => break,
            1 => {
                out.push_str("library");
                out.push_str(sep(t));
                let l = t.pick(LIBS);
                out.push_str(l);
                if !l.ends_with(' ') {
                    out.push_str(sep(t));
                }
                path_list(t, &mut out);
                if t.chance(1, 3) {
                    if !out.ends_with(|c: char| c.is_whitespace()) {
                        out.push(' ');
                    }
                    out.push_str("-incdir");
                    out.push_str(sep(t));
                    path_list(t, &mut out);
                }
                out.push(';');
            }
            2 => {
                out.push_str("include");
                out.push_str(sep(t));
                path(t, &mut out);
                out.push(';');
            }
            _ => out.push(';'),
        }
        out.push_str(sep(t));
        n += 1;
        if n >= 8 {
            break;
        }
    }
    out
}

/// Token list of a library map (for layout-metamorphic checks): word-like tokens need white space between them.
pub fn generate_tokens(t: &mut Tape) -> Vec<String> {
    let mut toks: Vec<String> = Vec::new();
    let n = 1 + t.below(5);
    // (no "/*" inside a path here: the preprocessor, which runs first, takes it for a comment opener, and whether that
    // comment is ever closed depends on the trivia that follows)
    let plain: Vec<&str> = PATHS.iter().copied().filter(|p| !p.contains("/*") && !p.contains("//")).collect();
    let path = |t: &mut Tape| -> String {
        if t.chance(1, 4) {
            t.pick_str(STR_PATHS).to_string()
        } else {
            t.pick_str(&plain).to_string()
        }
    };
    for _ in 0..n {
        match t.weighted(&[6, 3, 1]) {
            0 => {
                toks.push("library".to_string());
                toks.push(t.pick(LIBS).trim_end().to_string());
                toks.push(path(t));
                let mut k = 0;
                while k < 3 && t.chance(1, 3) {
                    toks.push(",".to_string());
                    toks.push(path(t));
                    k += 1;
                }
                if t.chance(1, 3) {
                    toks.push("-incdir".to_string());
                    toks.push(path(t));
                    if t.chance(1, 3) {
                        toks.push(",".to_string());
                        toks.push(path(t));
                    }
                }
                toks.push(";".to_string());
            }
            1 => {
                toks.push("include".to_string());
                toks.push(path(t));
                toks.push(";".to_string());
            }
            _ => toks.push(";".to_string()),
        }
    }
    toks
}

/// Render a token list with a white-space run (blanks, tabs, newlines, form feeds, CR LF, comments led by a blank)
/// in every gap where one is needed and in about half of the others.
pub fn render_tokens(toks: &[String], t: &mut Tape) -> String {
    const RUNS: &[&str] = &[" ", "\t", "\n", "  ", "\r\n", " \n ", "\x0c", " /* c */ ", " // c\n", "\t\t", "\n\n"];
    let mut out = String::new();
    for (i, tok) in toks.iter().enumerate() {
        if i > 0 {
            let prev = &toks[i - 1];
            let punct = |s: &str| s == "," || s == ";";
            // an escaped identifier needs white space behind it; so do two word-like tokens
            let needed = (!punct(prev) && !punct(tok)) || prev.starts_with('\\');
            if needed || t.flip() {
                out.push_str(t.pick_str(RUNS));
            }
        }
        out.push_str(tok);
    }
    out.push_str(t.pick_str(&["", "\n", " "]));
    out
}
