//! Library map files (IEEE 1800-2017 33.3): library declarations, include statements, null statements.
//! Non-literal paths avoid "/*" and "//" (the preprocessor runs first and would see a comment) and are
//! always followed by a blank, ',' or ';' because the implementation ends them only there.

use crate::tape::Tape;

const LIBS: &[&str] = &["lib1", "rtlLib", "gateLib", "work", "L_2", "\\esc+lib "];
const PATHS: &[&str] = &[
    "a.v", "./*.v", "../src/top.sv", "dir/...", "/abs/path/x.v", "*.vg", "?.v", "$LIB/x.v", "a-b.v", "dir/sub/", "ü.v",
];
const STR_PATHS: &[&str] = &["\"a.v\"", "\"dir with space/x.v\"", "\"é.sv\"", "\"a;b,c.v\"", "\"\\\"q\\\".v\""];

fn sep(t: &mut Tape) -> &'static str {
    *t.pick(&[" ", " ", "\n", "  ", " \n ", " /* c */ ", " // c\n", "\t"])
}

fn path(t: &mut Tape, out: &mut String) {
    if t.chance(1, 4) {
        out.push_str(t.pick_str(STR_PATHS));
        if t.flip() {
            out.push_str(sep(t));
        }
    } else {
        out.push_str(t.pick_str(PATHS));
        // a non-literal path ends at ' ', ',' or ';' only
        if t.flip() {
            out.push(' ');
            if t.chance(1, 3) {
                out.push_str(sep(t));
            }
        }
    }
}

fn path_list(t: &mut Tape, out: &mut String) {
    path(t, out);
    let mut n = 0;
    while n < 3 && t.chance(1, 3) {
        out.push(',');
        if t.flip() {
            out.push_str(sep(t));
        }
        path(t, out);
        n += 1;
    }
}

pub fn generate(t: &mut Tape) -> String {
    let mut out = String::new();
    if t.chance(1, 3) {
        out.push_str(sep(t));
    }
    let mut n = 0;
    loop {
        match t.weighted(&[2, 6, 3, 1]) {
            0 => break,
            1 => {
                out.push_str("library");
                out.push_str(sep(t));
                let l = t.pick(LIBS);
                out.push_str(l);
                if !l.ends_with(' ') {
                    out.push_str(sep(t));
                }
                path_list(t, &mut out);
                if t.chance(1, 3) {
                    if !out.ends_with(|c: char| c.is_whitespace()) {
                        out.push(' ');
                    }
                    out.push_str("-incdir");
                    out.push_str(sep(t));
                    path_list(t, &mut out);
                }
                out.push(';');
            }
            2 => {
                out.push_str("include");
                out.push_str(sep(t));
                path(t, &mut out);
                out.push(';');
            }
            _ => out.push(';'),
        }
        out.push_str(sep(t));
        n += 1;
        if n >= 8 {
            break;
        }
    }
    out
}
