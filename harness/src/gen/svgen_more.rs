// svgen, part 5 (included into svgen.rs): attribute instances, bind, let, sequences / properties, clocking items,
// cover cross, pattern matching, class scope, expect / wait_order / randsequence, randomize-with.
// Same soundness rule as the rest of svgen: only sentences derivable from IEEE 1800-2017 Annex A.

pub const F_ASSERT: &[&str] = &[
    "SequenceDeclaration",
    "PropertyDeclaration",
    "LetDeclaration",
    "ClockingDeclarationLocal",
    "ClockingDeclarationGlobal",
    "CovergroupDeclaration",
    "CoverPoint",
    "CoverCross",
    "BindDirective",
];

impl<'a, 'b> Gen<'a, 'b> {
    /// (* name [= constant_expression] {, ...} *)   (A.9.1)
    pub fn attr_instance(&mut self) {
        self.tag("attribute");
        self.sym("(*");
        let n = 1 + self.t.below(3);
        for i in 0..n {
            if i > 0 {
                self.sym(",");
            }
            let name = *self.t.pick(&["full_case", "parallel_case", "keep", "mark_debug", "a1", "\\esc-attr", "synthesis", "module_attr"]);
            self.id(name);
            if self.t.chance(1, 2) {
                self.sym("=");
                if self.t.chance(1, 4) {
                    self.string_lit();
                } else {
                    self.const_expr(1);
                }
            }
        }
        self.sym("*)");
    }

    pub fn maybe_attr(&mut self, one_in: usize) {
        if self.t.chance(1, one_in) {
            self.attr_instance();
            if self.t.chance(1, 5) {
                self.attr_instance();
            }
        }
    }

    fn cycle_delay_range(&mut self) {
        self.sym("##");
        match self.t.below(6) {
            0 | 1 => {
                let s = *self.t.pick(&["1", "2", "0", "10"]);
                self.num(s);
            }
            2 => {
                self.sym("[");
                self.small_const();
                self.sym(":");
                if self.t.flip() {
                    self.sym("$");
                } else {
                    self.small_const();
                }
                self.sym("]");
            }
            3 => {
                self.sym("[*");
                self.sym("]");
            }
            4 => {
                self.sym("[+");
                self.sym("]");
            }
            _ => {
                // ## ( constant_expression )
                self.sym("(");
                self.const_expr(1);
                self.sym(")");
            }
        }
    }

    fn const_or_range(&mut self) {
        self.small_const();
        if self.t.chance(1, 3) {
            self.sym(":");
            if self.t.flip() {
                self.sym("$");
            } else {
                self.small_const();
            }
        }
    }

    fn consecutive_repetition(&mut self) {
        match self.t.below(4) {
            0 | 1 => {
                self.sym("[*");
                self.const_or_range();
                self.sym("]");
            }
            2 => {
                self.sym("[*");
                self.sym("]");
            }
            _ => {
                self.sym("[+");
                self.sym("]");
            }
        }
    }

    fn boolean_abbrev(&mut self) {
        match self.t.below(4) {
            0 | 1 => self.consecutive_repetition(),
            2 => {
                self.sym("[=");
                self.const_or_range();
                self.sym("]");
            }
            _ => {
                self.sym("[->");
                self.const_or_range();
                self.sym("]");
            }
        }
    }

    /// a boolean operand of a sequence: identifier, comparison or a parenthesised expression
    fn seq_bool(&mut self) {
        match self.t.below(4) {
            0 | 1 => self.var_ref_ident_only(),
            2 => {
                self.var_ref_ident_only();
                let op = *self.t.pick(&["==", "!=", "&&", "||", "<"]);
                self.sym(op);
                self.small_const();
            }
            _ => {
                self.sym("!");
                self.var_ref_ident_only();
            }
        }
    }

    /// sequence_expr (A.2.10)
    pub fn sequence_expr(&mut self, depth: usize) {
        self.tag("sequence-expr");
        let w: [usize; 8] = if depth == 0 { [6, 0, 0, 0, 0, 0, 0, 0] } else { [5, 4, 2, 2, 1, 1, 1, 1] };
        match self.t.weighted(&w) {
            0 => {
                self.seq_bool();
                if self.t.chance(1, 3) {
                    self.boolean_abbrev();
                }
            }
            1 => {
                if self.t.chance(1, 4) {
                    self.cycle_delay_range();
                }
                self.sequence_expr(depth - 1);
                let n = 1 + self.t.below(2);
                for _ in 0..n {
                    self.cycle_delay_range();
                    self.sequence_expr(depth - 1);
                }
            }
            2 => {
                self.sym("(");
                self.sequence_expr(depth - 1);
                if self.t.chance(1, 3) {
                    self.sym(",");
                    self.var_ref_ident_only();
                    self.sym("=");
                    self.small_const();
                }
                self.sym(")");
                if self.t.chance(1, 3) {
                    self.consecutive_repetition();
                }
            }
            3 => {
                self.sym("(");
                self.sequence_expr(depth - 1);
                self.sym(")");
                let op = *self.t.pick(&["and", "or", "intersect", "within"]);
                self.kw(op);
                self.sym("(");
                self.sequence_expr(depth - 1);
                self.sym(")");
            }
            4 => {
                self.kw("first_match");
                self.sym("(");
                self.sequence_expr(depth - 1);
                self.sym(")");
            }
            5 => {
                self.var_ref_ident_only();
                self.kw("throughout");
                self.sym("(");
                self.sequence_expr(depth - 1);
                self.sym(")");
            }
            6 => {
                self.event_control_simple();
                self.sequence_expr(depth - 1);
            }
            _ => {
                // sequence instance
                self.id("seq_inst");
                if self.t.flip() {
                    self.sym("(");
                    self.var_ref_ident_only();
                    self.sym(")");
                }
            }
        }
    }

    /// property_expr (A.2.10); operands of binary operators are parenthesised so that precedence is not in play
    pub fn property_expr(&mut self, depth: usize) {
        self.tag("property-expr");
        let w: [usize; 10] = if depth == 0 { [6, 0, 0, 0, 0, 0, 0, 0, 0, 0] } else { [4, 4, 2, 2, 2, 1, 1, 1, 1, 1] };
        match self.t.weighted(&w) {
            0 => self.sequence_expr(depth.min(1)),
            1 => {
                self.sequence_expr(depth.min(1));
                let op = *self.t.pick(&["|->", "|=>", "#-#", "#=#"]);
                self.sym(op);
                self.property_expr(depth - 1);
            }
            2 => {
                let k = *self.t.pick(&["not", "nexttime", "s_nexttime", "always", "s_eventually"]);
                self.kw(k);
                if (k == "nexttime" || k == "s_nexttime") && self.t.chance(1, 3) {
                    self.sym("[");
                    self.small_const();
                    self.sym("]");
                }
                self.sym("(");
                self.property_expr(depth - 1);
                self.sym(")");
            }
            3 => {
                self.sym("(");
                self.property_expr(depth - 1);
                self.sym(")");
                let op = *self.t.pick(&["and", "or", "implies", "iff", "until", "s_until", "until_with", "s_until_with"]);
                self.kw(op);
                self.sym("(");
                self.property_expr(depth - 1);
                self.sym(")");
            }
            4 => {
                self.kw("if");
                self.sym("(");
                self.seq_bool();
                self.sym(")");
                self.sym("(");
                self.property_expr(depth - 1);
                self.sym(")");
                if self.t.flip() {
                    self.kw("else");
                    self.sym("(");
                    self.property_expr(depth - 1);
                    self.sym(")");
                }
            }
            5 => {
                let k = *self.t.pick(&["strong", "weak"]);
                self.kw(k);
                self.sym("(");
                self.sequence_expr(depth - 1);
                self.sym(")");
            }
            6 => {
                let k = *self.t.pick(&["accept_on", "reject_on", "sync_accept_on", "sync_reject_on"]);
                self.kw(k);
                self.sym("(");
                self.seq_bool();
                self.sym(")");
                self.sym("(");
                self.property_expr(depth - 1);
                self.sym(")");
            }
            7 => {
                self.kw("case");
                self.sym("(");
                self.var_ref_ident_only();
                self.sym(")");
                let n = 1 + self.t.below(2);
                for _ in 0..n {
                    self.small_const();
                    self.sym(":");
                    self.property_expr(depth - 1);
                    self.sym(";");
                }
                if self.t.flip() {
                    self.kw("default");
                    if self.t.flip() {
                        self.sym(":");
                    }
                    self.property_expr(depth - 1);
                    self.sym(";");
                }
                self.kw("endcase");
            }
            8 => {
                self.event_control_simple();
                self.sym("(");
                self.property_expr(depth - 1);
                self.sym(")");
            }
            _ => {
                let k = *self.t.pick(&["always", "s_always", "eventually", "s_eventually"]);
                self.kw(k);
                self.sym("[");
                self.small_const();
                self.sym(":");
                // eventually and s_always need a bounded range, always / s_eventually may end in $
                if (k == "always" || k == "s_eventually") && self.t.chance(1, 3) {
                    self.sym("$");
                } else {
                    self.small_const();
                }
                self.sym("]");
                self.sym("(");
                self.property_expr(depth - 1);
                self.sym(")");
            }
        }
    }

    fn assertion_port_list(&mut self, property: bool) -> Vec<String> {
        let mut names = Vec::new();
        self.sym("(");
        let n = self.t.below(4);
        for i in 0..n {
            if i > 0 {
                self.sym(",");
            }
            match self.t.below(if property { 6 } else { 5 }) {
                0 => {}
                1 => {
                    self.kw("int");
                }
                2 => {
                    self.kw("untyped");
                }
                3 => {
                    self.kw("sequence");
                }
                4 => {
                    self.kw("local");
                    if self.t.flip() {
                        self.kw("input");
                    }
                    self.kw("logic");
                }
                _ => {
                    self.kw("property");
                }
            }
            let name = self.fresh();
            self.id(&name);
            if self.t.chance(1, 4) {
                self.sym("=");
                self.small_const();
            }
            names.push(name);
        }
        self.sym(")");
        names
    }

    pub fn sequence_or_property_declaration(&mut self) {
        let seq = self.t.flip();
        self.tag(if seq { "sequence-declaration" } else { "property-declaration-full" });
        self.kw(if seq { "sequence" } else { "property" });
        let name = self.fresh();
        let tk = self.id(&name);
        self.expect(tk, if seq { "SequenceIdentifier" } else { "PropertyIdentifier" }, F_ASSERT, &[if seq { "SequenceDeclaration" } else { "PropertyDeclaration" }]);
        let saved = self.vars.len();
        if self.t.flip() {
            let names = self.assertion_port_list(!seq);
            self.vars.extend(names);
        }
        self.sym(";");
        let nv = self.t.below(3);
        for _ in 0..nv {
            // assertion_variable_declaration
            let ty = *self.t.pick(&["int", "logic", "bit"]);
            self.kw(ty);
            let v = self.fresh();
            self.id(&v);
            if self.t.chance(1, 3) {
                self.sym("=");
                self.small_const();
            }
            self.sym(";");
            self.vars.push(v);
        }
        if seq {
            self.sequence_expr(2);
        } else {
            self.property_expr(2);
        }
        if self.t.chance(3, 4) {
            self.sym(";");
        }
        self.vars.truncate(saved);
        self.kw(if seq { "endsequence" } else { "endproperty" });
        self.end_label(&name);
    }

    pub fn concurrent_assertion_more(&mut self) {
        self.tag("concurrent-assertion-full");
        if self.t.flip() {
            let l = self.fresh();
            self.id(&l);
            self.sym(":");
        }
        match self.t.below(5) {
            0 | 1 | 2 => {
                let k = *self.t.pick(&["assert", "assume", "cover", "restrict"]);
                self.kw(k);
                self.kw("property");
                self.sym("(");
                if self.t.chance(1, 3) {
                    self.event_control_simple();
                }
                if self.t.chance(1, 3) {
                    self.kw("disable");
                    self.kw("iff");
                    self.sym("(");
                    self.seq_bool();
                    self.sym(")");
                }
                self.property_expr(2);
                self.sym(")");
                if k == "restrict" {
                    self.sym(";");
                } else if k == "cover" {
                    self.stmt_or_null(0);
                } else {
                    match self.t.below(3) {
                        0 => {
                            self.sym(";");
                        }
                        1 => self.stmt(0),
                        _ => {
                            if self.t.flip() {
                                self.stmt(0);
                            }
                            self.kw("else");
                            self.stmt_or_null(0);
                        }
                    }
                }
            }
            3 => {
                self.kw("cover");
                self.kw("sequence");
                self.sym("(");
                if self.t.chance(1, 3) {
                    self.event_control_simple();
                }
                self.sequence_expr(2);
                self.sym(")");
                self.stmt_or_null(0);
            }
            _ => {
                // deferred immediate assertion as a module item
                let k = *self.t.pick(&["assert", "assume", "cover"]);
                self.kw(k);
                if self.t.flip() {
                    self.sym("#0");
                } else {
                    self.kw("final");
                }
                self.sym("(");
                self.expr(1);
                self.sym(")");
                if k == "cover" {
                    self.stmt_or_null(0);
                } else if self.t.flip() {
                    self.sym(";");
                } else {
                    self.kw("else");
                    self.stmt_or_null(0);
                }
            }
        }
    }

    /// bind directive (A.1.4)
    pub fn bind_directive(&mut self) {
        self.tag("bind");
        self.kw("bind");
        let form = self.t.below(3);
        self.id("bind_target");
        match form {
            0 => {}
            1 => {
                self.sym(":");
                self.id("inst_a");
                if self.t.flip() {
                    self.sym(",");
                    self.id("inst_b");
                    self.sym(".");
                    self.id("sub");
                }
            }
            _ => {
                self.sym(".");
                self.id("u_sub");
                if self.t.chance(1, 3) {
                    self.sym("[");
                    self.small_const();
                    self.sym("]");
                }
            }
        }
        let target = if !self.modules.is_empty() && self.t.chance(2, 3) {
            let i = self.t.below(self.modules.len());
            self.modules[i].clone()
        } else {
            "bound_checker".to_string()
        };
        self.id(&target);
        if self.t.chance(1, 3) {
            self.sym("#");
            self.sym("(");
            if self.t.flip() {
                self.sym(".");
                self.id("P");
                self.sym("(");
                self.const_expr(1);
                self.sym(")");
            } else {
                self.const_expr(1);
            }
            self.sym(")");
        }
        let inst = self.fresh();
        let tk = self.id(&inst);
        self.expect(tk, "InstanceIdentifier", F_HINST, &["HierarchicalInstance"]);
        self.sym("(");
        match self.t.below(4) {
            0 => {}
            1 => {
                self.sym(".*");
            }
            2 => {
                self.sym(".");
                self.id("clk");
                self.sym("(");
                self.var_ref_ident_only();
                self.sym(")");
            }
            _ => {
                self.var_ref_ident_only();
                self.sym(",");
                self.var_ref_ident_only();
            }
        }
        self.sym(")");
        self.sym(";");
    }

    /// let declaration (A.2.12)
    pub fn let_declaration(&mut self) {
        self.tag("let");
        self.kw("let");
        let name = self.fresh();
        let tk = self.id(&name);
        self.expect(tk, "LetIdentifier", F_ASSERT, &["LetDeclaration"]);
        let saved = self.vars.len();
        if self.t.flip() {
            self.sym("(");
            let n = self.t.below(3);
            for i in 0..n {
                if i > 0 {
                    self.sym(",");
                }
                match self.t.below(4) {
                    0 => {
                        self.kw("untyped");
                    }
                    1 => {
                        self.kw("int");
                    }
                    2 => {
                        self.kw("logic");
                        self.range();
                    }
                    _ => {}
                }
                let a = self.fresh();
                self.id(&a);
                if self.t.chance(1, 3) {
                    self.sym("=");
                    self.small_const();
                }
                self.vars.push(a);
            }
            self.sym(")");
        }
        self.sym("=");
        self.expr(2);
        self.sym(";");
        self.vars.truncate(saved);
    }

    /// clocking block with the full item repertoire, global clocking, default clocking / disable
    pub fn clocking_more(&mut self) {
        match self.t.below(6) {
            0 => {
                self.tag("clocking-global");
                self.kw("global");
                self.kw("clocking");
                let named = self.t.flip();
                let name = self.fresh();
                if named {
                    let tk = self.id(&name);
                    self.expect(tk, "ClockingIdentifier", F_ASSERT, &["ClockingDeclarationGlobal"]);
                }
                self.event_control_simple();
                self.sym(";");
                self.kw("endclocking");
                if named {
                    self.end_label(&name);
                }
            }
            1 => {
                self.tag("default-clocking-ref");
                self.kw("default");
                self.kw("clocking");
                self.id("cb_ref");
                self.sym(";");
            }
            2 => {
                self.tag("default-disable");
                self.kw("default");
                self.kw("disable");
                self.kw("iff");
                self.seq_bool();
                self.sym(";");
            }
            _ => {
                self.tag("clocking-full");
                if self.t.chance(1, 4) {
                    self.kw("default");
                }
                self.kw("clocking");
                let name = self.fresh();
                let tk = self.id(&name);
                self.expect(tk, "ClockingIdentifier", F_ASSERT, &["ClockingDeclarationLocal"]);
                self.event_control_simple();
                self.sym(";");
                let n = self.t.below(5);
                for _ in 0..n {
                    match self.t.below(6) {
                        0 => {
                            self.kw("default");
                            match self.t.below(3) {
                                0 => {
                                    self.kw("input");
                                    self.clocking_skew();
                                }
                                1 => {
                                    self.kw("output");
                                    self.clocking_skew();
                                }
                                _ => {
                                    self.kw("input");
                                    self.clocking_skew();
                                    self.kw("output");
                                    self.clocking_skew();
                                }
                            }
                            self.sym(";");
                        }
                        1 | 2 | 3 => {
                            match self.t.below(4) {
                                0 => {
                                    self.kw("input");
                                    if self.t.chance(1, 3) {
                                        self.clocking_skew();
                                    }
                                }
                                1 => {
                                    self.kw("output");
                                    if self.t.chance(1, 3) {
                                        self.clocking_skew();
                                    }
                                }
                                2 => {
                                    self.kw("input");
                                    if self.t.chance(1, 3) {
                                        self.clocking_skew();
                                    }
                                    self.kw("output");
                                    if self.t.chance(1, 3) {
                                        self.clocking_skew();
                                    }
                                }
                                _ => {
                                    self.kw("inout");
                                }
                            }
                            let k = 1 + self.t.below(2);
                            for i in 0..k {
                                if i > 0 {
                                    self.sym(",");
                                }
                                let s = self.fresh();
                                self.id(&s);
                                if self.t.chance(1, 4) {
                                    self.sym("=");
                                    self.id("top_x");
                                    self.sym(".");
                                    self.id("sig");
                                }
                            }
                            self.sym(";");
                        }
                        4 => {
                            self.let_declaration();
                        }
                        _ => {
                            self.sequence_or_property_declaration();
                        }
                    }
                }
                self.kw("endclocking");
                self.end_label(&name);
            }
        }
    }

    fn clocking_skew(&mut self) {
        match self.t.below(4) {
            0 => {
                let e = *self.t.pick(&["posedge", "negedge", "edge"]);
                self.kw(e);
                if self.t.flip() {
                    self.sym("#");
                    self.num("1");
                }
            }
            1 => {
                self.sym("#");
                self.num("1step");
            }
            2 => {
                self.sym("#");
                let s = *self.t.pick(&["0", "2", "1ns"]);
                self.num(s);
            }
            _ => {
                self.sym("#");
                self.sym("(");
                self.const_expr(1);
                self.sym(")");
            }
        }
    }

    /// covergroup with bins of every flavour and a cross with a body
    pub fn covergroup_more(&mut self) {
        self.tag("covergroup-full");
        self.kw("covergroup");
        let name = self.fresh();
        let tk = self.id(&name);
        self.expect(tk, "CovergroupIdentifier", F_ASSERT, &["CovergroupDeclaration"]);
        if self.t.chance(1, 3) {
            self.sym("(");
            self.kw("int");
            self.id("cg_arg");
            self.sym(")");
        }
        match self.t.below(3) {
            0 => {}
            1 => self.event_control_simple(),
            _ => {
                self.kw("with");
                self.kw("function");
                self.kw("sample");
                self.sym("(");
                self.kw("int");
                self.id("sv");
                self.sym(")");
            }
        }
        self.sym(";");
        let mut points: Vec<String> = Vec::new();
        let n = 1 + self.t.below(3);
        for _ in 0..n {
            let label = self.fresh();
            let tk = self.id(&label);
            self.expect(tk, "CoverPointIdentifier", F_ASSERT, &["CoverPoint"]);
            self.sym(":");
            self.kw("coverpoint");
            self.var_ref_ident_only();
            if self.t.chance(1, 4) {
                self.kw("iff");
                self.sym("(");
                self.seq_bool();
                self.sym(")");
            }
            self.sym("{");
            let b = self.t.below(4);
            for _ in 0..b {
                if self.t.chance(1, 6) {
                    let o = *self.t.pick(&["option", "type_option"]);
                    self.kw(o);
                    self.sym(".");
                    self.id("weight");
                    self.sym("=");
                    self.small_const();
                    self.sym(";");
                    continue;
                }
                // 0 default, 1 default sequence, 2 trans_list, 3 range list
                let rhs = self.t.weighted(&[2, 1, 3, 6]);
                if rhs >= 2 && self.t.chance(1, 5) {
                    self.kw("wildcard");
                }
                let k = *self.t.pick(&["bins", "illegal_bins", "ignore_bins"]);
                self.kw(k);
                let bn = self.fresh();
                self.id(&bn);
                if rhs != 1 && self.t.chance(1, 3) {
                    self.sym("[");
                    if rhs != 2 && self.t.flip() {
                        self.small_const();
                    }
                    self.sym("]");
                }
                self.sym("=");
                match rhs {
                    0 => {
                        self.kw("default");
                    }
                    1 => {
                        self.kw("default");
                        self.kw("sequence");
                    }
                    2 => {
                        // trans_list
                        self.sym("(");
                        self.small_const();
                        self.sym("=>");
                        self.small_const();
                        if self.t.flip() {
                            self.sym("=>");
                            self.small_const();
                            if self.t.chance(1, 3) {
                                self.sym("[*");
                                self.small_const();
                                self.sym("]");
                            }
                        }
                        self.sym(")");
                        if self.t.chance(1, 3) {
                            self.sym(",");
                            self.sym("(");
                            self.small_const();
                            self.sym(",");
                            self.small_const();
                            self.sym("=>");
                            self.small_const();
                            self.sym(")");
                        }
                    }
                    _ => {
                        self.sym("{");
                        self.small_const();
                        if self.t.flip() {
                            self.sym(",");
                            self.sym("[");
                            self.small_const();
                            self.sym(":");
                            if self.t.chance(1, 4) {
                                self.sym("$");
                            } else {
                                self.small_const();
                            }
                            self.sym("]");
                        }
                        self.sym("}");
                        if self.t.chance(1, 4) {
                            self.kw("with");
                            self.sym("(");
                            self.id("item");
                            self.sym(">");
                            self.small_const();
                            self.sym(")");
                        }
                    }
                }
                if self.t.chance(1, 5) {
                    self.kw("iff");
                    self.sym("(");
                    self.seq_bool();
                    self.sym(")");
                }
                self.sym(";");
            }
            self.sym("}");
            points.push(label);
        }
        if points.len() >= 2 && self.t.chance(2, 3) {
            self.tag("cover-cross");
            let labelled = self.t.flip();
            if labelled {
                let l = self.fresh();
                let tk = self.id(&l);
                self.expect(tk, "CrossIdentifier", F_ASSERT, &["CoverCross"]);
                self.sym(":");
            }
            self.kw("cross");
            let a = points[0].clone();
            let b = points[1].clone();
            self.id(&a);
            self.sym(",");
            self.id(&b);
            if self.t.chance(1, 4) {
                self.kw("iff");
                self.sym("(");
                self.seq_bool();
                self.sym(")");
            }
            if self.t.flip() {
                self.sym(";");
            } else {
                self.sym("{");
                let k = self.t.below(3);
                for _ in 0..k {
                    let kind = *self.t.pick(&["bins", "ignore_bins", "illegal_bins"]);
                    self.kw(kind);
                    let bn = self.fresh();
                    self.id(&bn);
                    self.sym("=");
                    if self.t.chance(1, 4) {
                        self.sym("!");
                    }
                    self.kw("binsof");
                    self.sym("(");
                    self.id(&a);
                    self.sym(")");
                    if self.t.flip() {
                        self.kw("intersect");
                        self.sym("{");
                        self.small_const();
                        self.sym("}");
                    }
                    if self.t.flip() {
                        let op = *self.t.pick(&["&&", "||"]);
                        self.sym(op);
                        self.kw("binsof");
                        self.sym("(");
                        self.id(&b);
                        self.sym(")");
                    }
                    self.sym(";");
                }
                self.sym("}");
            }
        }
        if self.t.chance(1, 3) {
            let o = *self.t.pick(&["option", "type_option"]);
            self.kw(o);
            self.sym(".");
            self.id("comment");
            self.sym("=");
            self.string_lit();
            self.sym(";");
        }
        self.kw("endgroup");
        self.end_label(&name);
    }

    /// module-level items of this part
    pub fn misc_module_item2(&mut self) {
        if self.t.chance(1, 4) {
            self.misc_module_item3(true);
            return;
        }
        match self.t.below(7) {
            0 => self.bind_directive(),
            1 => self.let_declaration(),
            2 => self.sequence_or_property_declaration(),
            3 => self.concurrent_assertion_more(),
            4 => self.clocking_more(),
            5 => self.covergroup_more(),
            _ => {
                self.attr_instance();
                match self.t.below(4) {
                    0 => self.net_declaration(),
                    1 => self.continuous_assign(),
                    2 => self.always_construct(),
                    _ => self.var_declaration(),
                }
            }
        }
    }

    fn pattern(&mut self, depth: usize) {
        match self.t.below(if depth == 0 { 3 } else { 5 }) {
            0 => {
                self.sym(".");
                let v = self.fresh();
                self.id(&v);
            }
            1 => {
                self.sym(".*");
            }
            2 => {
                self.small_const();
            }
            3 => {
                self.kw("tagged");
                let m = *self.t.pick(&["Valid", "Invalid", "tag_a"]);
                self.id(m);
                if self.t.flip() {
                    self.pattern(depth - 1);
                }
            }
            _ => {
                self.sym("'{");
                self.pattern(depth - 1);
                if self.t.flip() {
                    self.sym(",");
                    self.pattern(depth - 1);
                }
                self.sym("}");
            }
        }
    }

    /// statements of this part (never first in a block where a declaration could be meant)
    pub fn stmt_more(&mut self, depth: usize) {
        if self.t.chance(1, 3) {
            self.stmt_more2();
            return;
        }
        match self.t.below(10) {
            0 => {
                self.tag("stmt-cycle-delay");
                self.sym("##");
                match self.t.below(3) {
                    0 => {
                        self.num("1");
                    }
                    1 => self.var_ref_ident_only(),
                    _ => {
                        self.sym("(");
                        self.expr(1);
                        self.sym(")");
                    }
                }
                self.stmt_or_null(0);
            }
            1 => {
                self.tag("stmt-case-matches");
                self.kw("case");
                self.sym("(");
                self.expr(1);
                self.sym(")");
                self.kw("matches");
                let n = 1 + self.t.below(3);
                for _ in 0..n {
                    self.pattern(2);
                    if self.t.chance(1, 3) {
                        self.sym("&&&");
                        self.expr(1);
                    }
                    self.sym(":");
                    self.stmt_or_null(0);
                }
                if self.t.flip() {
                    self.kw("default");
                    if self.t.flip() {
                        self.sym(":");
                    }
                    self.stmt_or_null(0);
                }
                self.kw("endcase");
            }
            2 => {
                self.tag("stmt-if-matches");
                self.kw("if");
                self.sym("(");
                self.var_ref_ident_only();
                self.kw("matches");
                self.pattern(1);
                if self.t.flip() {
                    self.sym("&&&");
                    self.primary(0);
                }
                self.sym(")");
                self.stmt_or_null(0);
            }
            3 => {
                self.tag("stmt-class-scope");
                self.lvalue();
                self.sym("=");
                match self.t.below(4) {
                    0 => {
                        self.id("Cls");
                        self.sym("::");
                        self.id("member");
                    }
                    1 => {
                        self.id("Cls");
                        self.sym("#");
                        self.sym("(");
                        self.const_expr(0);
                        self.sym(")");
                        self.sym("::");
                        self.id("fn");
                        self.sym("(");
                        self.expr(1);
                        self.sym(")");
                    }
                    2 => {
                        self.kw("$unit");
                        self.sym("::");
                        self.id("glob");
                    }
                    _ => {
                        self.id("pkg_q");
                        self.sym("::");
                        self.id("Cls");
                        self.sym("::");
                        self.id("member");
                    }
                }
                self.sym(";");
            }
            4 => {
                self.tag("stmt-expect");
                self.kw("expect");
                self.sym("(");
                self.event_control_simple();
                self.property_expr(1);
                self.sym(")");
                match self.t.below(3) {
                    0 => {
                        self.sym(";");
                    }
                    1 => self.stmt(0),
                    _ => {
                        self.kw("else");
                        self.stmt_or_null(0);
                    }
                }
            }
            5 => {
                self.tag("stmt-wait-order");
                self.kw("wait_order");
                self.sym("(");
                self.var_ref_ident_only();
                let n = self.t.below(3);
                for _ in 0..n {
                    self.sym(",");
                    self.var_ref_ident_only();
                    if self.t.chance(1, 4) {
                        self.sym(".");
                        self.id("ev");
                    }
                }
                self.sym(")");
                match self.t.below(3) {
                    0 => {
                        self.sym(";");
                    }
                    1 => self.stmt(0),
                    _ => {
                        if self.t.flip() {
                            self.stmt(0);
                        }
                        self.kw("else");
                        self.stmt(0);
                    }
                }
            }
            6 => {
                self.tag("stmt-randsequence");
                self.kw("randsequence");
                self.sym("(");
                let named = self.t.flip();
                if named {
                    self.id("rs_main");
                }
                self.sym(")");
                let prods = ["rs_main", "rs_a", "rs_b"];
                let n = 1 + self.t.below(3);
                for i in 0..n {
                    if self.t.chance(1, 5) {
                        self.kw("void");
                    }
                    self.id(prods[i]);
                    self.sym(":");
                    let alts = 1 + self.t.below(2);
                    for k in 0..alts {
                        if k > 0 {
                            self.sym("|");
                        }
                        match self.t.below(5) {
                            0 => {
                                self.sym("{");
                                self.stmt(0);
                                self.sym("}");
                            }
                            1 => {
                                self.id(prods[(i + 1) % 3]);
                                self.id(prods[(i + 2) % 3]);
                            }
                            2 => {
                                self.kw("if");
                                self.sym("(");
                                self.expr(1);
                                self.sym(")");
                                self.id(prods[(i + 1) % 3]);
                                if self.t.flip() {
                                    self.kw("else");
                                    self.id(prods[(i + 2) % 3]);
                                }
                            }
                            3 => {
                                self.kw("repeat");
                                self.sym("(");
                                self.small_const();
                                self.sym(")");
                                self.id(prods[(i + 1) % 3]);
                            }
                            _ => {
                                self.kw("rand");
                                self.kw("join");
                                self.id(prods[(i + 1) % 3]);
                                self.id(prods[(i + 2) % 3]);
                            }
                        }
                        if self.t.chance(1, 4) {
                            self.sym(":=");
                            self.small_const();
                        }
                    }
                    self.sym(";");
                }
                self.kw("endsequence");
            }
            7 => {
                self.tag("stmt-new");
                self.lvalue_simple();
                self.sym("=");
                match self.t.below(5) {
                    0 => {
                        self.kw("new");
                    }
                    1 => {
                        self.kw("new");
                        self.sym("(");
                        self.expr(1);
                        if self.t.flip() {
                            self.sym(",");
                            self.expr(1);
                        }
                        self.sym(")");
                    }
                    2 => {
                        self.kw("new");
                        self.sym("[");
                        self.expr(1);
                        self.sym("]");
                        if self.t.flip() {
                            self.sym("(");
                            self.var_ref_ident_only();
                            self.sym(")");
                        }
                    }
                    3 => {
                        self.kw("new");
                        self.var_ref_ident_only();
                    }
                    _ => {
                        self.id("Cls");
                        self.sym("::");
                        self.kw("new");
                        if self.t.flip() {
                            self.sym("(");
                            self.expr(1);
                            self.sym(")");
                        }
                    }
                }
                self.sym(";");
            }
            8 => {
                self.tag("stmt-randomize-with");
                match self.t.below(3) {
                    0 => {
                        self.id("obj");
                        self.sym(".");
                        self.kw("randomize");
                        self.sym("(");
                        self.sym(")");
                    }
                    1 => {
                        self.kw("std");
                        self.sym("::");
                        self.kw("randomize");
                        self.sym("(");
                        self.var_ref_ident_only();
                        self.sym(")");
                    }
                    _ => {
                        self.kw("void");
                        self.sym("'");
                        self.sym("(");
                        self.id("obj");
                        self.sym(".");
                        self.kw("randomize");
                        self.sym("(");
                        self.sym(")");
                        self.sym(")");
                        self.sym(";");
                        return;
                    }
                }
                self.kw("with");
                self.sym("{");
                let n = 1 + self.t.below(2);
                for _ in 0..n {
                    self.var_ref_ident_only();
                    let op = *self.t.pick(&["<", ">", "==", "!="]);
                    self.sym(op);
                    self.small_const();
                    self.sym(";");
                }
                self.sym("}");
                self.sym(";");
            }
            _ => {
                self.tag("stmt-attribute");
                self.attr_instance();
                self.stmt(depth);
            }
        }
    }
}
