// svgen, part 6 (included into svgen.rs): system timing checks, modport ports of every form, extern subroutines of
// interfaces, class items (const / rand properties, constraint prototypes, the remaining constraint items, extern
// constraints, interface classes), net aliases, interconnect and nettype declarations, elaboration system tasks,
// UDP instantiations, pull strengths, package exports, extern and wildcard design element headers, named ports,
// DPI tasks, type references, virtual interfaces and a handful of expression forms.
// Same soundness rule as the rest of svgen: only sentences derivable from IEEE 1800-2017 Annex A.

impl<'a, 'b> Gen<'a, 'b> {
    /// specify_terminal_descriptor: identifier [ [ constant_range_expression ] ]
    fn specify_terminal(&mut self) {
        self.var_ref_ident_only();
        if self.t.chance(1, 4) {
            self.sym("[");
            self.small_const();
            if self.t.chance(1, 3) {
                self.sym(":");
                self.small_const();
            }
            self.sym("]");
        }
    }

    /// delayed_reference / delayed_data: terminal_identifier [ [ constant_mintypmax_expression ] ]
    fn delayed_terminal(&mut self) {
        self.var_ref_ident_only();
        if self.t.flip() {
            self.sym("[");
            self.small_const();
            if self.t.chance(1, 3) {
                self.sym(":");
                self.small_const();
                self.sym(":");
                self.small_const();
            }
            self.sym("]");
        }
    }

    fn timing_check_event_control(&mut self) {
        match self.t.below(5) {
            0 | 1 => {
                self.kw("posedge");
            }
            2 => {
                self.kw("negedge");
            }
            3 => {
                self.kw("edge");
            }
            _ => {
                self.tag("edge-control-specifier");
                self.kw("edge");
                self.sym("[");
                let n = 1 + self.t.below(3);
                for i in 0..n {
                    if i > 0 {
                        self.sym(",");
                    }
                    let d = *self.t.pick(&["01", "10"]);
                    self.num(d);
                }
                self.sym("]");
            }
        }
    }

    /// [ &&& timing_check_condition ]
    fn timing_check_condition_opt(&mut self) {
        if !self.t.chance(1, 3) {
            return;
        }
        self.tag("timing-check-condition");
        self.sym("&&&");
        let paren = self.t.chance(1, 3);
        if paren {
            self.sym("(");
        }
        match self.t.below(4) {
            0 => self.var_ref_ident_only(),
            1 => {
                self.sym("~");
                self.var_ref_ident_only();
            }
            _ => {
                self.var_ref_ident_only();
                let op = *self.t.pick(&["==", "===", "!=", "!=="]);
                self.sym(op);
                let c = *self.t.pick(&["1'b0", "1'b1", "1'B0", "'b1", "0", "1"]);
                self.num(c);
            }
        }
        if paren {
            self.sym(")");
        }
    }

    fn timing_check_event(&mut self, controlled: bool) {
        if controlled || self.t.chance(2, 3) {
            self.timing_check_event_control();
        }
        self.specify_terminal();
        self.timing_check_condition_opt();
    }

    fn timing_check_limit(&mut self) {
        if self.t.chance(1, 4) {
            let s = *self.t.pick(&["1.5", "0.25", "2.0e1", "10"]);
            self.num(s);
        } else {
            self.small_const();
        }
    }

    /// [ , [ notifier ] ]
    fn notifier_opt(&mut self) -> bool {
        if self.t.flip() {
            self.sym(",");
            if self.t.chance(3, 4) {
                self.var_ref_ident_only();
            }
            true
        } else {
            false
        }
    }

    /// system_timing_check (A.7.5.1)
    pub fn system_timing_check(&mut self) {
        self.tag("system-timing-check");
        let which = self.t.below(12);
        let name = ["$setup", "$hold", "$recovery", "$removal", "$skew", "$setuphold", "$recrem", "$timeskew", "$fullskew", "$period", "$width", "$nochange"][which];
        self.kw(name);
        self.sym("(");
        match which {
            0..=4 => {
                // both events, one limit, notifier
                self.timing_check_event(false);
                self.sym(",");
                self.timing_check_event(false);
                self.sym(",");
                self.timing_check_limit();
                self.notifier_opt();
            }
            5 | 6 => {
                self.timing_check_event(false);
                self.sym(",");
                self.timing_check_event(false);
                self.sym(",");
                self.timing_check_limit();
                self.sym(",");
                self.timing_check_limit();
                if self.notifier_opt() && self.t.chance(2, 3) {
                    // [ , [ timestamp_condition ] [ , [ timecheck_condition ] [ , [ delayed_reference ] [ , [ delayed_data ] ] ] ] ]
                    self.sym(",");
                    if self.t.flip() {
                        self.var_ref_ident_only();
                    }
                    if self.t.chance(3, 4) {
                        self.sym(",");
                        if self.t.flip() {
                            self.var_ref_ident_only();
                        }
                        if self.t.chance(3, 4) {
                            self.sym(",");
                            if self.t.chance(3, 4) {
                                self.delayed_terminal();
                            }
                            if self.t.chance(3, 4) {
                                self.sym(",");
                                if self.t.chance(3, 4) {
                                    self.delayed_terminal();
                                }
                            }
                        }
                    }
                }
            }
            7 | 8 => {
                self.timing_check_event(false);
                self.sym(",");
                self.timing_check_event(false);
                self.sym(",");
                self.timing_check_limit();
                if which == 8 {
                    self.sym(",");
                    self.timing_check_limit();
                }
                if self.notifier_opt() && self.t.flip() {
                    // [ , [ event_based_flag ] [ , [ remain_active_flag ] ] ]
                    self.sym(",");
                    if self.t.flip() {
                        self.small_const();
                    }
                    if self.t.flip() {
                        self.sym(",");
                        if self.t.flip() {
                            self.small_const();
                        }
                    }
                }
            }
            9 => {
                self.timing_check_event(true);
                self.sym(",");
                self.timing_check_limit();
                self.notifier_opt();
            }
            10 => {
                self.timing_check_event(true);
                self.sym(",");
                self.timing_check_limit();
                self.sym(",");
                self.small_const();
                self.notifier_opt();
            }
            _ => {
                self.timing_check_event(false);
                self.sym(",");
                self.timing_check_event(false);
                self.sym(",");
                // start_edge_offset, end_edge_offset: mintypmax_expression
                for i in 0..2 {
                    if i > 0 {
                        self.sym(",");
                    }
                    self.small_const();
                    if self.t.chance(1, 4) {
                        self.sym(":");
                        self.small_const();
                        self.sym(":");
                        self.small_const();
                    }
                }
                self.notifier_opt();
            }
        }
        self.sym(")");
        self.sym(";");
    }

    /// modport_declaration with every kind of modport_ports_declaration (A.2.9)
    pub fn modport_more(&mut self, clockings: &[String]) {
        self.tag("modport-more");
        self.kw("modport");
        let items = 1 + self.t.below(2);
        for it in 0..items {
            if it > 0 {
                self.sym(",");
            }
            let mp = self.fresh();
            self.id(&mp);
            self.sym("(");
            let k = 1 + self.t.below(3);
            for i in 0..k {
                if i > 0 {
                    self.sym(",");
                }
                match self.t.below(5) {
                    0 => {
                        let d = *self.t.pick(&["input", "output", "inout", "ref"]);
                        self.kw(d);
                        self.var_ref_ident_only();
                    }
                    1 => {
                        // modport_simple_port: . port_identifier ( [ expression ] )
                        self.tag("modport-named-port");
                        let d = *self.t.pick(&["input", "output", "inout"]);
                        self.kw(d);
                        let m = 1 + self.t.below(2);
                        for j in 0..m {
                            if j > 0 {
                                self.sym(",");
                            }
                            self.sym(".");
                            let p = self.fresh();
                            self.id(&p);
                            self.sym("(");
                            if self.t.chance(3, 4) {
                                self.var_ref_ident_only();
                                if self.t.chance(1, 3) {
                                    self.sym("[");
                                    self.small_const();
                                    self.sym("]");
                                }
                            }
                            self.sym(")");
                        }
                    }
                    2 => {
                        // import_export tf_identifier { , tf_identifier }
                        self.tag("modport-tf-port");
                        let d = *self.t.pick(&["import", "export"]);
                        self.kw(d);
                        self.id("tf_a1");
                        if self.t.chance(1, 3) {
                            self.sym(",");
                            self.id("tf_b2");
                        }
                    }
                    3 => {
                        // import_export method_prototype
                        self.tag("modport-tf-prototype");
                        let d = *self.t.pick(&["import", "export"]);
                        self.kw(d);
                        if self.t.flip() {
                            self.kw("function");
                            let ty = *self.t.pick(&["int", "void", "bit", "string"]);
                            self.kw(ty);
                            let name = self.fresh();
                            let tk = self.id(&name);
                            self.expect(tk, "FunctionIdentifier", F_DESIGN, &["FunctionPrototype"]);
                            if self.t.chance(3, 4) {
                                self.sym("(");
                                if self.t.flip() {
                                    self.kw("input");
                                    self.kw("int");
                                    self.id("pa_1");
                                }
                                self.sym(")");
                            }
                        } else {
                            self.kw("task");
                            let name = self.fresh();
                            let tk = self.id(&name);
                            self.expect(tk, "TaskIdentifier", F_DESIGN, &["TaskPrototype"]);
                            if self.t.chance(3, 4) {
                                self.sym("(");
                                if self.t.flip() {
                                    self.kw("output");
                                    self.kw("logic");
                                    self.id("pa_2");
                                }
                                self.sym(")");
                            }
                        }
                    }
                    _ => {
                        if clockings.is_empty() {
                            self.kw("input");
                            self.var_ref_ident_only();
                        } else {
                            self.tag("modport-clocking");
                            self.kw("clocking");
                            let c = clockings[self.t.below(clockings.len())].clone();
                            self.id(&c);
                        }
                    }
                }
            }
            self.sym(")");
        }
        self.sym(";");
    }

    /// extern_tf_declaration (interface_or_generate_item)
    pub fn extern_tf_declaration(&mut self) {
        self.tag("extern-tf");
        self.kw("extern");
        if self.t.chance(1, 3) {
            self.kw("forkjoin");
            self.kw("task");
            let name = self.fresh();
            let tk = self.id(&name);
            self.expect(tk, "TaskIdentifier", F_DESIGN, &["TaskPrototype"]);
            self.sym("(");
            if self.t.flip() {
                self.kw("input");
                self.kw("int");
                self.id("pa_1");
            }
            self.sym(")");
        } else if self.t.flip() {
            self.kw("function");
            let ty = *self.t.pick(&["int", "void", "bit", "string"]);
            self.kw(ty);
            let name = self.fresh();
            let tk = self.id(&name);
            self.expect(tk, "FunctionIdentifier", F_DESIGN, &["FunctionPrototype"]);
            self.sym("(");
            if self.t.flip() {
                self.kw("input");
                self.kw("int");
                self.id("pa_1");
            }
            self.sym(")");
        } else {
            self.kw("task");
            let name = self.fresh();
            let tk = self.id(&name);
            self.expect(tk, "TaskIdentifier", F_DESIGN, &["TaskPrototype"]);
            self.sym("(");
            self.sym(")");
        }
        self.sym(";");
    }

    /// the constraint items svgen part 3 leaves out: solve-before, foreach, disable soft, unique (A.1.10)
    fn constraint_item_more(&mut self, depth: usize, top: bool) {
        let mut which = self.t.below(if depth == 0 { 4 } else { 6 });
        if which == 0 && !top {
            // solve ... before is a constraint_block_item, not a constraint_expression: top level only
            which = 3;
        }
        match which {
            0 => {
                self.tag("constraint-solve");
                self.kw("solve");
                self.var_ref_ident_only();
                if self.t.chance(1, 3) {
                    self.sym(",");
                    self.var_ref_ident_only();
                }
                self.kw("before");
                self.var_ref_ident_only();
                if self.t.chance(1, 3) {
                    self.sym(",");
                    self.var_ref_ident_only();
                }
                self.sym(";");
            }
            1 => {
                self.tag("constraint-disable-soft");
                self.kw("disable");
                self.kw("soft");
                self.var_ref_ident_only();
                self.sym(";");
            }
            2 => {
                self.tag("constraint-unique");
                self.kw("unique");
                self.sym("{");
                self.var_ref_ident_only();
                if self.t.flip() {
                    self.sym(",");
                    self.var_ref_ident_only();
                }
                self.sym("}");
                self.sym(";");
            }
            3 => {
                if self.t.chance(1, 4) {
                    self.kw("soft");
                }
                self.var_ref_ident_only();
                let op = *self.t.pick(&["<", ">", "==", "!=", "<=", ">="]);
                self.sym(op);
                self.small_const();
                self.sym(";");
            }
            4 => {
                self.tag("constraint-foreach");
                self.kw("foreach");
                self.sym("(");
                self.var_ref_ident_only();
                self.sym("[");
                self.id("ci_1");
                if self.t.chance(1, 4) {
                    self.sym(",");
                    self.id("cj_2");
                }
                self.sym("]");
                self.sym(")");
                if self.t.flip() {
                    self.sym("{");
                    let n = self.t.below(3);
                    for _ in 0..n {
                        self.constraint_item_more(depth - 1, false);
                    }
                    self.sym("}");
                } else {
                    self.constraint_item_more(0, false);
                }
            }
            _ => {
                self.var_ref_ident_only();
                self.sym("->");
                self.sym("{");
                // at least one item: "x -> {}" is read as the expression x -> {} (listed finding K23)
                let n = 1 + self.t.below(2);
                for _ in 0..n {
                    self.constraint_item_more(depth - 1, false);
                }
                self.sym("}");
            }
        }
    }

    fn constraint_block_more(&mut self) {
        self.sym("{");
        let n = self.t.below(4);
        for _ in 0..n {
            self.constraint_item_more(2, true);
        }
        self.sym("}");
    }

    /// class items of this part; returns the names of constraint prototypes declared `extern`/implicit
    pub fn class_item_more(&mut self) -> Option<String> {
        match self.t.below(5) {
            0 => {
                // const class property: const { class_item_qualifier } data_type const_identifier [ = constant_expression ] ;
                self.tag("class-const-property");
                self.kw("const");
                if self.t.chance(1, 3) {
                    let q = *self.t.pick(&["static", "local", "protected"]);
                    self.kw(q);
                }
                let ty = *self.t.pick(&["int", "bit", "logic", "byte", "string", "integer"]);
                self.kw(ty);
                let name = self.fresh();
                self.id(&name);
                if self.t.chance(3, 4) {
                    self.sym("=");
                    self.const_expr(1);
                }
                self.sym(";");
                None
            }
            1 => {
                // { property_qualifier } data_declaration with random and class item qualifiers in any order
                self.tag("class-rand-property");
                let quals: &[&[&str]] = &[&["rand"], &["randc"], &["rand", "local"], &["local", "rand"], &["protected", "randc"], &["static", "rand"], &["rand", "static"]];
                let q = quals[self.t.below(quals.len())];
                for w in q {
                    self.kw(w);
                }
                self.var_declaration_class();
                None
            }
            2 => {
                // constraint_prototype: [ constraint_prototype_qualifier ] [ static ] constraint constraint_identifier ;
                self.tag("constraint-prototype");
                let q = self.t.below(3);
                match q {
                    0 => {
                        self.kw("extern");
                    }
                    1 => {
                        self.kw("pure");
                    }
                    _ => {}
                }
                if self.t.chance(1, 4) {
                    self.kw("static");
                }
                self.kw("constraint");
                let name = self.fresh();
                self.id(&name);
                self.sym(";");
                if q == 1 {
                    None
                } else {
                    Some(name)
                }
            }
            3 => {
                self.tag("constraint-more");
                if self.t.chance(1, 4) {
                    self.kw("static");
                }
                self.kw("constraint");
                let name = self.fresh();
                self.id(&name);
                self.constraint_block_more();
                None
            }
            _ => {
                // virtual interface variable as a class property
                self.virtual_interface_variable();
                None
            }
        }
    }

    /// extern_constraint_declaration: [ static ] constraint class_scope constraint_identifier constraint_block
    pub fn extern_constraint_declaration(&mut self, class: &str, name: &str) {
        self.tag("extern-constraint");
        if self.t.chance(1, 4) {
            self.kw("static");
        }
        self.kw("constraint");
        self.id(class);
        self.sym("::");
        self.id(name);
        self.constraint_block_more();
    }

    /// data_type ::= virtual [ interface ] interface_identifier [ parameter_value_assignment ] [ . modport_identifier ]
    pub fn virtual_interface_variable(&mut self) {
        self.tag("virtual-interface");
        self.kw("virtual");
        if self.t.flip() {
            self.kw("interface");
        }
        self.id("ifc_t");
        if self.t.chance(1, 3) {
            self.sym("#");
            self.sym("(");
            if self.t.flip() {
                self.small_const();
            } else {
                self.sym(".");
                self.id("W");
                self.sym("(");
                self.small_const();
                self.sym(")");
            }
            self.sym(")");
        }
        if self.t.chance(1, 3) {
            self.sym(".");
            self.id("mp_x");
        }
        let name = self.fresh();
        let tk = self.id(&name);
        self.expect(tk, "VariableIdentifier", F_DECL, &["DataDeclarationVariable"]);
        if self.t.chance(1, 4) {
            self.sym(",");
            let name = self.fresh();
            let tk = self.id(&name);
            self.expect(tk, "VariableIdentifier", F_DECL, &["DataDeclarationVariable"]);
        }
        self.sym(";");
    }

    /// interface_class_declaration (A.1.2)
    pub fn interface_class_declaration(&mut self) {
        self.tag("interface-class");
        self.kw("interface");
        self.kw("class");
        let name = self.fresh();
        let tk = self.id(&name);
        self.expect(tk, "ClassIdentifier", F_DESIGN, &["InterfaceClassDeclaration"]);
        if self.t.chance(1, 4) {
            self.parameter_port_list();
        }
        if self.t.chance(1, 3) {
            self.kw("extends");
            self.id("ibase_a");
            if self.t.chance(1, 3) {
                self.sym("#");
                self.sym("(");
                self.kw("int");
                self.sym(")");
            }
            if self.t.chance(1, 3) {
                self.sym(",");
                self.id("ibase_b");
            }
        }
        self.sym(";");
        let n = self.t.below(4);
        for _ in 0..n {
            match self.t.below(5) {
                0 | 1 => {
                    self.tag("interface-class-method");
                    self.kw("pure");
                    self.kw("virtual");
                    if self.t.flip() {
                        self.kw("function");
                        let ty = *self.t.pick(&["int", "void", "bit", "string"]);
                        self.kw(ty);
                        let name = self.fresh();
                        let tk = self.id(&name);
                        self.expect(tk, "FunctionIdentifier", F_DESIGN, &["FunctionPrototype"]);
                        self.sym("(");
                        if self.t.flip() {
                            self.kw("input");
                            self.kw("int");
                            self.id("pa_1");
                        }
                        self.sym(")");
                    } else {
                        self.kw("task");
                        let name = self.fresh();
                        let tk = self.id(&name);
                        self.expect(tk, "TaskIdentifier", F_DESIGN, &["TaskPrototype"]);
                        self.sym("(");
                        self.sym(")");
                    }
                    self.sym(";");
                }
                2 => self.typedef(),
                3 => self.param_declaration(false),
                _ => {
                    self.sym(";");
                }
            }
        }
        self.kw("endclass");
        self.end_label(&name);
    }

    /// class header with `implements`
    pub fn class_implements(&mut self) {
        self.tag("class-implements");
        self.kw("class");
        let name = self.fresh();
        let tk = self.id(&name);
        self.expect(tk, "ClassIdentifier", F_DESIGN, &["ClassDeclaration"]);
        if self.t.chance(1, 3) {
            self.kw("extends");
            self.id("base_cls");
        }
        self.kw("implements");
        self.id("ibase_a");
        if self.t.chance(1, 3) {
            self.sym("#");
            self.sym("(");
            self.kw("int");
            self.sym(")");
        }
        if self.t.chance(1, 3) {
            self.sym(",");
            self.id("ibase_b");
        }
        self.sym(";");
        let mut externs: Vec<String> = Vec::new();
        let n = self.t.below(4);
        let saved = self.vars.len();
        let saved_class = self.in_class;
        self.in_class = true;
        for _ in 0..n {
            if let Some(c) = self.class_item_more() {
                externs.push(c);
            }
        }
        self.in_class = saved_class;
        self.kw("endclass");
        self.end_label(&name);
        // extern constraint blocks of this class (same scope, after the class)
        for c in externs {
            if self.t.flip() {
                self.extern_constraint_declaration(&name, &c);
            }
        }
        self.vars.truncate(saved);
    }

    /// module_common_item / package_or_generate_item_declaration forms of this part
    pub fn misc_module_item3(&mut self, module_ctx: bool) {
        let mut which = self.t.below(8);
        if !module_ctx && (which == 4 || which == 5) {
            // UDP and gate instantiations are module items only
            which = 3;
        }
        match which {
            0 => {
                // net_alias: alias net_lvalue = net_lvalue { = net_lvalue } ;
                self.tag("net-alias");
                self.kw("alias");
                self.net_lvalue();
                let n = 1 + self.t.below(2);
                for _ in 0..n {
                    self.sym("=");
                    self.net_lvalue();
                }
                self.sym(";");
            }
            1 => {
                // interconnect implicit_data_type [ # delay_value ] net_identifier { unpacked_dimension } [ , net_identifier { unpacked_dimension } ] ;
                self.tag("interconnect");
                self.kw("interconnect");
                if self.t.chance(1, 4) {
                    let s = *self.t.pick(&["signed", "unsigned"]);
                    self.kw(s);
                }
                if self.t.chance(1, 2) {
                    self.range();
                }
                if self.t.chance(1, 4) {
                    self.sym("#");
                    let d = *self.t.pick(&["1", "2.5", "10"]);
                    self.num(d);
                }
                let name = self.fresh();
                let tk = self.id(&name);
                self.expect(tk, "NetIdentifier", F_DECL, &["NetDeclarationInterconnect"]);
                if self.t.chance(1, 4) {
                    self.sym("[");
                    self.small_const();
                    self.sym("]");
                }
                if self.t.chance(1, 3) {
                    self.sym(",");
                    let name = self.fresh();
                    let tk = self.id(&name);
                    self.expect(tk, "NetIdentifier", F_DECL, &["NetDeclarationInterconnect"]);
                    if self.t.chance(1, 4) {
                        self.range();
                    }
                }
                self.sym(";");
            }
            2 => {
                // net_type_declaration
                self.tag("nettype");
                self.kw("nettype");
                if self.t.chance(3, 4) {
                    let ty = *self.t.pick(&["real", "shortreal", "logic", "int", "bit"]);
                    self.kw(ty);
                    if (ty == "logic" || ty == "bit") && self.t.flip() {
                        self.range();
                    }
                    let name = self.fresh();
                    let tk = self.id(&name);
                    self.expect(tk, "NetTypeIdentifier", F_DECL, &["NetTypeDeclarationDataType"]);
                    if self.t.flip() {
                        self.kw("with");
                        if self.t.chance(1, 3) {
                            self.id("pkg_r");
                            self.sym("::");
                        }
                        self.id("resolve_f");
                    }
                } else {
                    // nettype [ package_scope | class_scope ] net_type_identifier net_type_identifier ;
                    if self.t.chance(1, 3) {
                        self.id("pkg_r");
                        self.sym("::");
                    }
                    self.id("nt_base");
                    let name = self.fresh();
                    let tk = self.id(&name);
                    // nt_base also derives data_type (a type identifier): both productions fit
                    self.expect(tk, "NetTypeIdentifier", F_DECL, &["NetTypeDeclarationNetType", "NetTypeDeclarationDataType"]);
                }
                self.sym(";");
            }
            3 => {
                // elaboration_system_task
                self.tag("elaboration-task");
                let which = self.t.below(4);
                let name = ["$fatal", "$error", "$warning", "$info"][which];
                self.kw(name);
                if self.t.chance(3, 4) {
                    self.sym("(");
                    if which == 0 {
                        // $fatal [ ( finish_number [, list_of_arguments ] ) ]
                        let f = *self.t.pick(&["0", "1", "2"]);
                        self.num(f);
                        if self.t.flip() {
                            self.sym(",");
                            self.string_lit();
                            if self.t.chance(1, 3) {
                                self.sym(",");
                                self.const_expr(1);
                            }
                        }
                    } else if self.t.chance(4, 5) {
                        self.string_lit();
                        if self.t.chance(1, 3) {
                            self.sym(",");
                            self.const_expr(1);
                        }
                    }
                    self.sym(")");
                }
                self.sym(";");
            }
            4 => {
                // udp_instantiation without instance name (with a name the sentence is also a module instantiation)
                self.tag("udp-instantiation");
                self.id("udp_prim");
                if self.t.chance(1, 4) {
                    self.drive_strength();
                }
                if self.t.chance(1, 3) {
                    self.sym("#");
                    if self.t.flip() {
                        self.num("1");
                    } else {
                        self.sym("(");
                        self.small_const();
                        self.sym(",");
                        self.small_const();
                        self.sym(")");
                    }
                }
                let n = 1 + self.t.below(2);
                for i in 0..n {
                    if i > 0 {
                        self.sym(",");
                    }
                    self.sym("(");
                    self.net_lvalue();
                    let k = 1 + self.t.below(3);
                    for _ in 0..k {
                        self.sym(",");
                        self.expr(1);
                    }
                    self.sym(")");
                }
                self.sym(";");
            }
            5 => {
                // pullup / pulldown with strengths
                self.tag("pull-strength");
                let up = self.t.flip();
                self.kw(if up { "pullup" } else { "pulldown" });
                self.sym("(");
                let s0: &[&str] = &["supply0", "strong0", "pull0", "weak0"];
                let s1: &[&str] = &["supply1", "strong1", "pull1", "weak1"];
                match self.t.below(3) {
                    0 => {
                        let a = *self.t.pick(s0);
                        let b = *self.t.pick(s1);
                        self.kw(a);
                        self.sym(",");
                        self.kw(b);
                    }
                    1 => {
                        let a = *self.t.pick(s1);
                        let b = *self.t.pick(s0);
                        self.kw(a);
                        self.sym(",");
                        self.kw(b);
                    }
                    _ => {
                        let a = *self.t.pick(if up { s1 } else { s0 });
                        self.kw(a);
                    }
                }
                self.sym(")");
                let n = 1 + self.t.below(2);
                for i in 0..n {
                    if i > 0 {
                        self.sym(",");
                    }
                    if self.t.flip() {
                        let name = self.fresh();
                        let tk = self.id(&name);
                        self.expect(tk, "InstanceIdentifier", F_INST, &["GateInstantiation"]);
                        if self.t.chance(1, 4) {
                            self.range();
                        }
                    }
                    self.sym("(");
                    self.net_lvalue();
                    self.sym(")");
                }
                self.sym(";");
            }
            6 => {
                // variables of a type reference
                self.tag("type-reference");
                match self.t.below(3) {
                    0 => {
                        self.kw("var");
                        self.kw("type");
                        self.sym("(");
                        if self.t.flip() {
                            self.var_ref_ident_only();
                        } else {
                            self.data_type();
                        }
                        self.sym(")");
                        let name = self.fresh();
                        let tk = self.id(&name);
                        self.expect(tk, "VariableIdentifier", F_DECL, &["DataDeclarationVariable"]);
                        self.sym(";");
                        self.vars.push(name);
                    }
                    1 => {
                        self.kw("localparam");
                        self.kw("type");
                        let name = self.fresh();
                        let tk = self.id(&name);
                        self.expect(tk, "TypeIdentifier", F_PARAM, &["TypeAssignment"]);
                        self.sym("=");
                        self.kw("type");
                        self.sym("(");
                        self.var_ref_ident_only();
                        self.sym(")");
                        self.sym(";");
                    }
                    _ => {
                        self.kw("localparam");
                        let name = self.fresh();
                        let tk = self.id(&name);
                        self.expect(tk, "ParameterIdentifier", F_PARAM, &["ParamAssignment"]);
                        self.sym("=");
                        self.sym("(");
                        self.kw("type");
                        self.sym("(");
                        self.var_ref_ident_only();
                        self.sym(")");
                        let op = *self.t.pick(&["==", "!=", "===", "!=="]);
                        self.sym(op);
                        self.kw("type");
                        self.sym("(");
                        let ty = *self.t.pick(&["int", "logic", "real", "string"]);
                        self.kw(ty);
                        self.sym(")");
                        self.sym(")");
                        self.sym(";");
                    }
                }
            }
            _ => {
                self.virtual_interface_variable();
            }
        }
    }

    /// package_export_declaration
    pub fn package_export(&mut self) {
        self.tag("package-export");
        self.kw("export");
        if self.t.chance(1, 3) {
            self.sym("*::*");
        } else {
            let n = 1 + self.t.below(2);
            for i in 0..n {
                if i > 0 {
                    self.sym(",");
                }
                self.id(if i == 0 { "pkg_r" } else { "pkg_s" });
                self.sym("::");
                if self.t.flip() {
                    self.sym("*");
                } else {
                    self.id("item_x");
                }
            }
        }
        self.sym(";");
    }

    /// extern design element headers and `(.*)` headers (A.1.2)
    pub fn extern_or_wildcard_element(&mut self) {
        let elem = *self.t.pick(&["module", "interface", "program"]);
        let cap = match elem {
            "module" => "Module",
            "interface" => "Interface",
            _ => "Program",
        };
        let ident_kind: &'static str = match elem {
            "module" => "ModuleIdentifier",
            "interface" => "InterfaceIdentifier",
            _ => "ProgramIdentifier",
        };
        if self.t.flip() {
            self.tag("extern-element");
            self.kw("extern");
            self.kw(elem);
            if self.t.chance(1, 6) {
                let s = *self.t.pick(&["static", "automatic"]);
                self.kw(s);
            }
            let name = self.fresh();
            let tk = self.id(&name);
            if self.t.chance(1, 3) {
                self.parameter_port_list();
            }
            let before = self.p.toks.len();
            if self.t.chance(1, 4) {
                // no port list
                let exp: &'static [&'static str] = match elem {
                    "module" => &["ModuleDeclarationExtern"],
                    "interface" => &["InterfaceDeclarationExtern"],
                    _ => &["ProgramDeclarationExtern"],
                };
                self.expect(tk, ident_kind, F_DESIGN, exp);
            } else {
                self.ansi_port_list(elem);
                let empty = self.p.toks.len() == before + 2;
                let exp: &'static [&'static str] = match (elem, empty) {
                    ("module", true) => &["ModuleDeclarationExtern"],
                    ("module", false) => &["ModuleDeclarationExternAnsi"],
                    ("interface", true) => &["InterfaceDeclarationExtern"],
                    ("interface", false) => &["InterfaceDeclarationExternAnsi"],
                    (_, true) => &["ProgramDeclarationExtern"],
                    (_, false) => &["ProgramDeclarationExternAnsi"],
                };
                self.expect(tk, ident_kind, F_DESIGN, exp);
            }
            self.sym(";");
            let _ = cap;
        } else {
            self.tag("wildcard-element");
            self.kw(elem);
            // only the module form has [ lifetime ] in Annex A
            if elem == "module" && self.t.chance(1, 6) {
                let s = *self.t.pick(&["static", "automatic"]);
                self.kw(s);
            }
            let name = self.fresh();
            let tk = self.id(&name);
            let exp: &'static [&'static str] = match elem {
                "module" => &["ModuleDeclarationWildcard"],
                "interface" => &["InterfaceDeclarationWildcard"],
                _ => &["ProgramDeclarationWildcard"],
            };
            self.expect(tk, ident_kind, F_DESIGN, exp);
            self.sym("(");
            self.sym(".*");
            self.sym(")");
            self.sym(";");
            let saved = self.vars.len();
            let n = self.t.below(3);
            for _ in 0..n {
                match self.t.below(3) {
                    0 => self.var_declaration(),
                    1 => self.continuous_assign(),
                    _ => self.initial_construct(),
                }
            }
            self.kw(match elem {
                "module" => "endmodule",
                "interface" => "endinterface",
                _ => "endprogram",
            });
            self.end_label(&name);
            self.vars.truncate(saved);
        }
    }

    /// non-ANSI module whose port list uses named ports and concatenations (A.1.3 port / port_expression)
    pub fn named_port_module(&mut self) {
        self.tag("named-port-module");
        self.kw("module");
        let name = self.fresh();
        let module_tk = self.id(&name);
        self.sym("(");
        let mut named_tks: Vec<usize> = Vec::new();
        let mut inner: Vec<String> = Vec::new();
        let n = 1 + self.t.below(4);
        for i in 0..n {
            if i > 0 {
                self.sym(",");
            }
            match self.t.below(5) {
                0 => {
                    // . port_identifier ( [ port_expression ] )
                    self.sym(".");
                    let p = self.fresh();
                    let tk = self.id(&p);
                    named_tks.push(tk);
                    self.sym("(");
                    match self.t.below(3) {
                        0 => {}
                        1 => {
                            let v = self.fresh();
                            self.id(&v);
                            inner.push(v);
                        }
                        _ => {
                            self.sym("{");
                            let v = self.fresh();
                            self.id(&v);
                            inner.push(v);
                            self.sym(",");
                            let v = self.fresh();
                            self.id(&v);
                            inner.push(v);
                            self.sym("}");
                        }
                    }
                    self.sym(")");
                }
                1 => {
                    self.sym("{");
                    let v = self.fresh();
                    self.id(&v);
                    inner.push(v);
                    if self.t.flip() {
                        self.sym(",");
                        let v = self.fresh();
                        self.id(&v);
                        inner.push(v);
                        if self.t.flip() {
                            self.sym("[");
                            self.small_const();
                            self.sym("]");
                        }
                    }
                    self.sym("}");
                }
                2 => {
                    let v = self.fresh();
                    self.id(&v);
                    inner.push(v);
                    self.sym("[");
                    self.small_const();
                    if self.t.flip() {
                        self.sym(":");
                        self.small_const();
                    }
                    self.sym("]");
                }
                3 if n > 1 => {
                    // an empty port
                }
                _ => {
                    let v = self.fresh();
                    self.id(&v);
                    inner.push(v);
                }
            }
        }
        self.sym(")");
        self.sym(";");
        if inner.is_empty() {
            // only ". name ( )" ports and no port declarations in the body: the ANSI header derives the sentence too
            self.expect(module_tk, "ModuleIdentifier", F_DESIGN, &["ModuleDeclarationNonansi", "ModuleDeclarationAnsi"]);
            for tk in named_tks {
                self.expect(tk, "PortIdentifier", F_PORT, &["PortNamed", "AnsiPortDeclarationParen"]);
            }
        } else {
            self.expect(module_tk, "ModuleIdentifier", F_DESIGN, &["ModuleDeclarationNonansi"]);
            for tk in named_tks {
                self.expect(tk, "PortIdentifier", F_PORT, &["PortNamed"]);
            }
        }
        for v in &inner {
            let d = *self.t.pick(&["input", "output", "inout"]);
            self.kw(d);
            if self.t.chance(1, 3) {
                self.range();
            }
            let tk = self.id(v);
            self.expect(tk, "PortIdentifier", F_PORT, &[match d {
                "input" => "InputDeclaration",
                "output" => "OutputDeclaration",
                _ => "InoutDeclaration",
            }]);
            self.sym(";");
        }
        self.kw("endmodule");
        self.end_label(&name);
    }

    /// DPI import / export of tasks and the remaining spellings (A.2.6)
    pub fn dpi_more(&mut self) {
        self.tag("dpi-more");
        let spec = *self.t.pick(&["\"DPI-C\"", "\"DPI\""]);
        if self.t.chance(2, 3) {
            self.kw("import");
            self.push(spec, Class::Str);
            if self.t.chance(1, 3) {
                self.kw("context");
            }
            if self.t.chance(1, 3) {
                self.id("c_name_1");
                self.sym("=");
            }
            self.kw("task");
            let name = self.fresh();
            let tk = self.id(&name);
            self.expect(tk, "TaskIdentifier", F_DESIGN, &["TaskPrototype"]);
            if self.t.chance(3, 4) {
                self.sym("(");
                if self.t.flip() {
                    self.kw("input");
                    self.kw("int");
                    self.id("pa_1");
                    if self.t.flip() {
                        self.sym(",");
                        self.kw("output");
                        self.kw("int");
                        self.id("pa_2");
                    }
                }
                self.sym(")");
            }
        } else {
            self.kw("export");
            self.push(spec, Class::Str);
            if self.t.chance(1, 3) {
                self.id("c_name_2");
                self.sym("=");
            }
            let k = *self.t.pick(&["task", "function"]);
            self.kw(k);
            self.id("exported_tf");
        }
        self.sym(";");
    }

    /// statements and expressions of this part
    /// constant_primary forms that plain constant expressions of svgen leave out: concatenations and casts
    pub fn const_primary_more(&mut self) {
        match self.t.below(4) {
            0 => {
                self.tag("constant-concatenation");
                self.sym("{");
                let n = 1 + self.t.below(3);
                for i in 0..n {
                    if i > 0 {
                        self.sym(",");
                    }
                    let c = *self.t.pick(&["4'd1", "2'b0", "8'hA5", "1'b1", "3'o7"]);
                    self.num(c);
                }
                self.sym("}");
                if self.t.chance(1, 4) {
                    self.sym("[");
                    self.small_const();
                    if self.t.flip() {
                        self.sym(":");
                        self.small_const();
                    }
                    self.sym("]");
                }
            }
            1 => {
                self.tag("constant-multiple-concatenation");
                self.sym("{");
                self.small_const();
                self.sym("{");
                let c = *self.t.pick(&["1'b1", "2'b01", "4'hF"]);
                self.num(c);
                self.sym("}");
                self.sym("}");
            }
            _ => {
                // constant_cast ::= casting_type ' ( constant_expression )
                self.tag("constant-cast");
                match self.t.below(5) {
                    0 => {
                        let ty = *self.t.pick(&["int", "byte", "integer", "shortint", "longint", "real", "string"]);
                        self.kw(ty);
                    }
                    1 => {
                        let ty = *self.t.pick(&["signed", "unsigned"]);
                        self.kw(ty);
                    }
                    2 => {
                        let c = *self.t.pick(&["4", "8", "16"]);
                        self.num(c);
                    }
                    3 => {
                        self.kw("const");
                    }
                    _ => {
                        self.id("cast_t");
                    }
                }
                self.sym("'");
                self.sym("(");
                self.const_expr(1);
                self.sym(")");
            }
        }
    }

    /// parameter / localparam as a block item declaration (only where declarations may stand: called by block_body)
    pub fn block_parameter_declaration(&mut self) {
        self.tag("block-parameter");
        let local = self.t.flip();
        self.kw(if local { "localparam" } else { "parameter" });
        if self.t.chance(1, 4) {
            self.kw("type");
            let name = self.fresh();
            let tk = self.id(&name);
            self.expect(tk, "TypeIdentifier", F_PARAM, &["TypeAssignment"]);
            self.sym("=");
            let ty = *self.t.pick(&["int", "logic", "byte", "real"]);
            self.kw(ty);
        } else {
            if self.t.chance(1, 3) {
                let ty = *self.t.pick(&["int", "integer", "bit", "logic"]);
                self.kw(ty);
            }
            let name = self.fresh();
            let tk = self.id(&name);
            self.expect(tk, "ParameterIdentifier", F_PARAM, &["ParamAssignment"]);
            self.sym("=");
            if self.t.chance(1, 3) {
                self.const_primary_more();
            } else {
                self.const_expr(1);
            }
        }
        self.sym(";");
    }

    pub fn stmt_more2(&mut self) {
        match self.t.below(12) {
            9 => {
                // assignment_pattern_variable_lvalue
                self.tag("pattern-lvalue");
                self.sym("'{");
                self.lvalue_simple();
                self.sym(",");
                if self.t.chance(1, 3) {
                    self.sym("'{");
                    self.lvalue_simple();
                    self.sym(",");
                    self.lvalue_simple();
                    self.sym("}");
                } else {
                    self.lvalue_simple();
                }
                self.sym("}");
                let op = *self.t.pick(&["=", "<="]);
                self.sym(op);
                self.expr(1);
                self.sym(";");
            }
            10 => {
                // streaming concatenation with an array range
                self.tag("stream-with-range");
                self.lvalue_simple();
                self.sym("=");
                self.sym("{");
                let op = *self.t.pick(&["<<", ">>"]);
                self.sym(op);
                match self.t.below(3) {
                    0 => {
                        let ty = *self.t.pick(&["byte", "int", "shortint"]);
                        self.kw(ty);
                    }
                    1 => {
                        let c = *self.t.pick(&["8", "4", "16"]);
                        self.num(c);
                    }
                    _ => {}
                }
                self.sym("{");
                self.var_ref_ident_only();
                self.kw("with");
                self.sym("[");
                self.small_const();
                match self.t.below(4) {
                    0 => {}
                    1 => {
                        self.sym(":");
                        self.small_const();
                    }
                    2 => {
                        self.sym("+:");
                        self.small_const();
                    }
                    _ => {
                        self.sym("-:");
                        self.small_const();
                    }
                }
                self.sym("]");
                if self.t.chance(1, 3) {
                    self.sym(",");
                    self.var_ref_ident_only();
                }
                self.sym("}");
                self.sym("}");
                self.sym(";");
            }
            11 => {
                // clocking_drive ::= clockvar_expression <= [ cycle_delay ] expression
                self.tag("clocking-drive");
                self.id("cb_drv");
                self.sym(".");
                self.id("sig_o");
                if self.t.chance(1, 4) {
                    self.sym("[");
                    self.small_const();
                    self.sym("]");
                }
                self.sym("<=");
                let mut number_delay = false;
                if self.t.flip() {
                    self.sym("##");
                    match self.t.below(3) {
                        0 => {
                            self.num("2");
                            number_delay = true;
                        }
                        1 => self.var_ref_ident_only(),
                        _ => {
                            self.sym("(");
                            self.expr(1);
                            self.sym(")");
                        }
                    }
                }
                if number_delay {
                    // "##2 'b1" is the cycle delay 2'b1: keep a based literal from following the count
                    self.sym("(");
                    self.expr(1);
                    self.sym(")");
                } else {
                    self.expr(1);
                }
                self.sym(";");
            }
            7 => {
                // event_control ::= @ ps_or_hierarchical_sequence_identifier (package scope without parentheses)
                self.tag("event-control-package-scope");
                self.sym("@");
                if self.t.chance(1, 4) {
                    self.push("$unit", Class::Keyword);
                } else {
                    self.id("pkg_r");
                }
                self.sym("::");
                self.id("seq_ev");
                if self.t.flip() {
                    self.sym(";");
                } else {
                    self.stmt_not_assignment();
                }
            }
            8 => {
                // class_scope with a package scope and a parameter value assignment in front of a static member
                self.tag("package-class-scope");
                self.lvalue_simple();
                self.sym("=");
                if self.t.flip() {
                    self.push("$unit", Class::Keyword);
                } else {
                    self.id("pkg_r");
                }
                self.sym("::");
                self.id("cls_p");
                if self.t.chance(2, 3) {
                    self.sym("#");
                    self.sym("(");
                    if self.t.chance(3, 4) {
                        self.small_const();
                    }
                    self.sym(")");
                }
                self.sym("::");
                self.id("memb_s");
                self.sym(";");
            }
            0 => {
                // tagged_union_expression
                self.tag("tagged-union-expression");
                self.lvalue_simple();
                self.sym("=");
                self.kw("tagged");
                self.id("Valid_m");
                match self.t.below(4) {
                    0 => {}
                    1 => self.small_const(),
                    2 => {
                        self.sym("(");
                        self.expr(1);
                        self.sym(")");
                    }
                    _ => {
                        self.sym("'{");
                        self.small_const();
                        self.sym(",");
                        self.small_const();
                        self.sym("}");
                    }
                }
                self.sym(";");
            }
            1 => {
                // assignment_pattern_expression with a type prefix
                self.tag("typed-assignment-pattern");
                self.lvalue_simple();
                self.sym("=");
                match self.t.below(4) {
                    0 => {
                        self.id("rec_t");
                    }
                    1 => {
                        self.id("pkg_r");
                        self.sym("::");
                        self.id("rec_t");
                    }
                    2 => {
                        let ty = *self.t.pick(&["int", "byte", "integer", "shortint", "longint"]);
                        self.kw(ty);
                    }
                    _ => {
                        self.kw("type");
                        self.sym("(");
                        self.var_ref_ident_only();
                        self.sym(")");
                    }
                }
                self.sym("'{");
                match self.t.below(3) {
                    0 => {
                        self.small_const();
                        if self.t.flip() {
                            self.sym(",");
                            self.small_const();
                        }
                    }
                    1 => {
                        self.id("fa_1");
                        self.sym(":");
                        self.small_const();
                        self.sym(",");
                        self.id("fb_2");
                        self.sym(":");
                        self.expr(1);
                    }
                    _ => {
                        self.kw("default");
                        self.sym(":");
                        self.small_const();
                    }
                }
                self.sym("}");
                self.sym(";");
            }
            2 => {
                // ( operator_assignment ) as an expression
                self.tag("expression-operator-assignment");
                self.lvalue_simple();
                self.sym("=");
                if self.t.flip() {
                    self.var_ref_ident_only();
                    let op = *self.t.pick(&["+", "-", "&", "|"]);
                    self.sym(op);
                }
                self.sym("(");
                self.lvalue_simple();
                let op = *self.t.pick(&["=", "+=", "-=", "*=", "/=", "%=", "&=", "|=", "^=", "<<=", ">>=", "<<<=", ">>>="]);
                self.sym(op);
                self.expr(1);
                self.sym(")");
                self.sym(";");
            }
            3 => {
                // empty_unpacked_array_concatenation
                self.tag("empty-queue");
                self.lvalue_simple();
                self.sym("=");
                self.sym("{");
                self.sym("}");
                self.sym(";");
            }
            4 => {
                // delay_or_event_control ::= repeat ( expression ) event_control
                self.tag("repeat-event-control");
                self.lvalue_simple();
                let op = *self.t.pick(&["=", "<="]);
                self.sym(op);
                self.kw("repeat");
                self.sym("(");
                self.expr(1);
                self.sym(")");
                self.event_control_simple_at();
                self.expr(1);
                self.sym(";");
            }
            5 => {
                // release / deassign / force of variables
                self.tag("release-variable");
                let k = *self.t.pick(&["release", "deassign"]);
                self.kw(k);
                self.lvalue_simple();
                self.sym(";");
            }
            _ => {
                // type reference as the casting type
                self.tag("type-reference-cast");
                self.lvalue_simple();
                self.sym("=");
                self.kw("type");
                self.sym("(");
                self.var_ref_ident_only();
                self.sym(")");
                self.sym("'");
                self.sym("(");
                self.expr(1);
                self.sym(")");
                self.sym(";");
            }
        }
    }

    /// @ ( [edge] identifier )
    fn event_control_simple_at(&mut self) {
        self.sym("@");
        self.sym("(");
        if self.t.flip() {
            let e = *self.t.pick(&["posedge", "negedge", "edge"]);
            self.kw(e);
        }
        self.var_ref_ident_only();
        self.sym(")");
    }

    /// one top-level description of this part
    pub fn description_more2(&mut self) {
        match self.t.below(6) {
            0 => self.interface_class_declaration(),
            1 => self.class_implements(),
            2 => self.extern_or_wildcard_element(),
            3 => self.named_port_module(),
            4 => self.interface_more(),
            _ => self.package_more(),
        }
    }

    /// an interface with clocking blocks, modports of every form and extern subroutines
    pub fn interface_more(&mut self) {
        self.tag("interface-more");
        let saved = self.vars.len();
        self.kw("interface");
        let name = self.fresh();
        let tk = self.id(&name);
        self.expect(tk, "InterfaceIdentifier", F_DESIGN, &["InterfaceDeclarationNonansi", "InterfaceDeclarationAnsi"]);
        self.sym(";");
        let mut clockings: Vec<String> = Vec::new();
        let n = 1 + self.t.below(5);
        for _ in 0..n {
            match self.t.weighted(&[3, 2, 4, 2, 1, 1]) {
                0 => self.var_declaration(),
                1 => {
                    self.tag("clocking");
                    self.kw("clocking");
                    let c = self.fresh();
                    let tk = self.id(&c);
                    self.expect(tk, "ClockingIdentifier", F_ASSERT, &["ClockingDeclarationLocal"]);
                    self.event_control_simple_at();
                    self.sym(";");
                    self.kw("endclocking");
                    self.end_label(&c);
                    clockings.push(c);
                }
                2 => {
                    let cl = clockings.clone();
                    self.modport_more(&cl);
                }
                3 => self.extern_tf_declaration(),
                4 => self.misc_module_item3(false),
                _ => self.net_declaration(),
            }
        }
        self.kw("endinterface");
        self.end_label(&name);
        self.vars.truncate(saved);
    }

    /// a package with exports, nettypes, DPI tasks, classes with extern constraints
    pub fn package_more(&mut self) {
        self.tag("package-more");
        let saved = self.vars.len();
        self.kw("package");
        let name = self.fresh();
        let tk = self.id(&name);
        self.expect(tk, "PackageIdentifier", F_DESIGN, &["PackageDeclaration"]);
        self.sym(";");
        let n = 1 + self.t.below(4);
        for _ in 0..n {
            match self.t.below(6) {
                0 => self.package_export(),
                1 => self.dpi_more(),
                2 => self.class_implements(),
                3 => self.interface_class_declaration(),
                4 => self.var_declaration(),
                _ => self.typedef(),
            }
        }
        self.kw("endpackage");
        self.end_label(&name);
        self.vars.truncate(saved);
        self.packages.push(name);
    }
}
