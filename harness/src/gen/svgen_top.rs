// Design elements: modules, interfaces, programs, packages, classes (included into svgen.rs).

impl<'a, 'b> Gen<'a, 'b> {
    pub fn parameter_port_list(&mut self) {
        self.tag("parameter-port-list");
        self.sym("#");
        self.sym("(");
        match self.t.below(4) {
            0 => {}
            1 => {
                // list_of_param_assignments { , parameter_port_declaration }
                let n = 1 + self.t.below(2);
                for i in 0..n {
                    if i > 0 {
                        self.sym(",");
                    }
                    let name = self.fresh_special();
                    let tk = self.id(&name);
                    self.expect(tk, "ParameterIdentifier", F_PARAM, &["ParamAssignment"]);
                    self.sym("=");
                    self.const_expr(1);
                    self.vars.push(name);
                }
                if self.t.chance(1, 3) {
                    // { , parameter_port_declaration }: data_type list_of_param_assignments with a user-defined type
                    self.tag("param-port-user-type");
                    self.sym(",");
                    self.user_type_name();
                    let name = self.fresh();
                    let tk = self.id(&name);
                    self.expect(tk, "ParameterIdentifier", F_PARAM, &["ParamAssignment"]);
                    self.sym("=");
                    self.const_expr(1);
                    self.vars.push(name);
                }
            }
            _ => {
                let n = 1 + self.t.below(3);
                for i in 0..n {
                    if i > 0 {
                        self.sym(",");
                    }
                    if self.t.chance(1, 5) {
                        // data_type list_of_param_assignments | type list_of_type_assignments
                        if self.t.flip() {
                            if self.t.chance(1, 3) {
                                self.tag("param-port-user-type");
                                self.user_type_name();
                            } else {
                                let ty = *self.t.pick(&["int", "logic", "bit", "integer"]);
                                self.kw(ty);
                            }
                            let name = self.fresh();
                            let tk = self.id(&name);
                            self.expect(tk, "ParameterIdentifier", F_PARAM, &["ParamAssignment"]);
                            self.sym("=");
                            self.const_expr(1);
                            self.vars.push(name);
                        } else {
                            self.kw("type");
                            let name = self.fresh();
                            let tk = self.id(&name);
                            self.expect(tk, "TypeIdentifier", F_PARAM, &["TypeAssignment"]);
                            self.sym("=");
                            self.data_type();
                        }
                    } else {
                        self.param_declaration(true);
                    }
                }
            }
        }
        self.sym(")");
    }

    /// a user-defined type: plain, package-scoped or class-scoped type identifier
    pub fn user_type_name(&mut self) {
        match self.t.below(3) {
            0 => {
                self.id("user_t");
            }
            1 => {
                self.id("some_pkg");
                self.sym("::");
                self.id("item_t");
            }
            _ => {
                self.id("Cls_p");
                self.sym("#");
                self.sym("(");
                self.small_const();
                self.sym(")");
                self.sym("::");
                self.id("item_t");
            }
        }
    }

    /// variable_dimension that only a variable (not a net) port / declaration can carry
    pub fn variable_only_dimension(&mut self) {
        self.tag("port-variable-dimension");
        self.sym("[");
        match self.t.below(3) {
            0 => {}
            1 => {
                self.kw("string");
            }
            _ => {
                self.sym("*");
            }
        }
        self.sym("]");
    }

    pub fn ansi_port_list(&mut self, elem: &'static str) {
        self.tag("ansi-ports");
        self.sym("(");
        let n = self.t.below(5);
        let mut first = true;
        for i in 0..n {
            if i > 0 {
                self.sym(",");
            }
            let form = self.t.weighted(&[5, 4, 2, 1, if first { 0 } else { 2 }]);
            match form {
                0 => {
                    // net port header with an explicit net type: unambiguously the net alternative
                    let d = *self.t.pick(&["input", "output", "inout"]);
                    self.kw(d);
                    let nt = *self.t.pick(&["wire", "tri", "wand", "uwire", "supply0"]);
                    self.kw(nt);
                    match self.t.below(3) {
                        0 => {}
                        1 => {
                            if self.t.flip() {
                                self.kw("signed");
                            }
                            self.range();
                        }
                        _ => {
                            self.kw("logic");
                            self.packed_dims(1);
                        }
                    }
                    let name = self.fresh_special();
                    let tk = self.id(&name);
                    self.expect(tk, "PortIdentifier", F_PORT, &["AnsiPortDeclarationNet"]);
                    if self.t.chance(1, 6) {
                        self.range();
                    }
                    self.vars.push(name);
                }
                1 => {
                    // direction + data type / implicit type: Annex A allows the net and the variable reading
                    let d = *self.t.pick(&["input", "output", "inout", "ref"]);
                    self.kw(d);
                    let mut unambiguous_var = false; // `ref logic x` still derives net_port_header syntactically
                    match self.t.below(4) {
                        0 => {
                            if d == "ref" {
                                self.kw("int");
                            }
                        }
                        1 => {
                            if self.t.flip() {
                                self.kw("signed");
                            }
                            self.range();
                            if d == "ref" {
                                // implicit type after ref is still a variable port
                            }
                        }
                        2 => {
                            self.kw("var");
                            unambiguous_var = true;
                            if self.t.flip() {
                                let ty = *self.t.pick(&["logic", "bit", "int"]);
                                self.kw(ty);
                            }
                        }
                        _ => {
                            let ty = *self.t.pick(&["logic", "bit", "reg", "int", "integer", "byte", "real", "string"]);
                            self.kw(ty);
                            if ty == "logic" || ty == "bit" || ty == "reg" {
                                self.packed_dims(2);
                            }
                        }
                    }
                    let explicit_type = matches!(self.p.toks.last().map(|x| x.text.as_str()), Some("int") | Some("integer") | Some("byte") | Some("real") | Some("string") | Some("logic") | Some("bit") | Some("reg"));
                    let name = self.fresh_special();
                    let tk = self.id(&name);
                    // an unsized / associative dimension exists only in variable_dimension: the variable form
                    let var_dim = explicit_type && d != "inout" && self.t.chance(1, 6);
                    if unambiguous_var || var_dim {
                        self.expect(tk, "PortIdentifier", F_PORT, &["AnsiPortDeclarationVariable"]);
                    } else {
                        self.expect(tk, "PortIdentifier", F_PORT, &["AnsiPortDeclarationNet", "AnsiPortDeclarationVariable"]);
                    }
                    if var_dim {
                        self.variable_only_dimension();
                    } else if self.t.chance(1, 6) {
                        self.range();
                    }
                    if d == "input" && self.t.chance(1, 6) {
                        self.sym("=");
                        self.const_expr(1);
                    }
                    self.vars.push(name);
                }
                2 => {
                    // interface port: interface_identifier [ . modport ] port | interface [ . modport ] port
                    self.tag("interface-port");
                    if self.t.flip() {
                        self.kw("interface");
                    } else {
                        self.id("some_bus_if");
                    }
                    let has_modport = self.t.flip();
                    if has_modport {
                        self.sym(".");
                        self.id("mp_master");
                    }
                    let name = self.fresh();
                    let tk = self.id(&name);
                    // `ifc p` without modport can also be read as a net port of a user-defined nettype / type
                    self.expect(tk, "PortIdentifier", F_PORT, &["AnsiPortDeclarationNet", "AnsiPortDeclarationVariable"]);
                    self.vars.push(name);
                }
                3 => {
                    // [direction] . port_identifier ( [expression] )
                    self.tag("explicit-named-port");
                    if self.t.flip() {
                        let d = *self.t.pick(&["input", "output"]);
                        self.kw(d);
                    }
                    self.sym(".");
                    let name = self.fresh();
                    let tk = self.id(&name);
                    self.expect(tk, "PortIdentifier", F_PORT, &["AnsiPortDeclarationParen"]);
                    self.sym("(");
                    if self.t.flip() {
                        self.var_ref();
                    }
                    self.sym(")");
                }
                _ => {
                    // inherits direction and type from the previous port
                    let name = self.fresh_special();
                    let tk = self.id(&name);
                    self.expect(tk, "PortIdentifier", F_PORT, &["AnsiPortDeclarationNet", "AnsiPortDeclarationVariable"]);
                    self.vars.push(name);
                }
            }
            first = false;
        }
        self.sym(")");
        let _ = elem;
    }

    pub fn nonansi_ports_and_decls(&mut self) {
        self.tag("nonansi-ports");
        let n = 1 + self.t.below(4);
        let mut names = Vec::new();
        self.sym("(");
        for i in 0..n {
            if i > 0 {
                self.sym(",");
            }
            let name = self.fresh_special();
            let tk = self.id(&name);
            self.expect(tk, "PortIdentifier", F_PORT, &["PortNonNamed"]);
            names.push(name);
        }
        self.sym(")");
        self.sym(";");
        // port declarations in the body
        for name in names {
            let d = *self.t.pick(&["input", "output", "inout"]);
            self.kw(d);
            let mut kinds: Vec<&'static str> = match d {
                "input" => vec!["InputDeclaration"],
                "output" => vec!["OutputDeclaration"],
                _ => vec!["InoutDeclaration"],
            };
            let mut variable_form = false;
            match self.t.below(5) {
                0 => {}
                1 => {
                    self.kw("wire");
                    if self.t.flip() {
                        self.range();
                    }
                }
                2 => {
                    if self.t.flip() {
                        self.kw("signed");
                    }
                    self.range();
                }
                3 => {
                    if d != "inout" {
                        let ty = *self.t.pick(&["logic", "reg", "bit", "integer"]);
                        self.kw(ty);
                        if ty != "integer" && self.t.flip() {
                            self.range();
                        }
                        variable_form = true;
                    }
                }
                _ => {
                    if d != "inout" {
                        self.kw("var");
                        self.kw("logic");
                        variable_form = true;
                    }
                }
            }
            // a second declaration of the same name in the body: same identifier text appears twice by design
            let tk = self.id(&name);
            kinds.push("PortDeclaration");
            // the variable forms use list_of_variable_identifiers (input) / list_of_variable_port_identifiers (output)
            self.p.expects.push(Expect { tok: tk, name_kind: "PortIdentifier|VariableIdentifier", family: F_PORT, expected: kinds });
            if variable_form && self.t.chance(1, 6) {
                // list_of_variable_identifiers / list_of_variable_port_identifiers: { variable_dimension }
                self.variable_only_dimension();
            }
            if d == "output" && variable_form && self.t.chance(1, 3) {
                // list_of_variable_port_identifiers: port_identifier { variable_dimension } [ = constant_expression ]
                self.tag("output-variable-initialiser");
                self.sym("=");
                self.const_expr(1);
            }
            self.sym(";");
            self.vars.push(name);
        }
    }

    pub fn end_label(&mut self, name: &str) {
        if self.t.chance(1, 3) {
            self.sym(":");
            self.id(name);
        }
    }

    pub fn module_declaration(&mut self, nest: usize) {
        self.tag("module");
        let saved = self.vars.len();
        let kw = if self.t.chance(1, 8) { "macromodule" } else { "module" };
        self.kw(kw);
        if self.t.chance(1, 6) {
            let s = *self.t.pick(&["static", "automatic"]);
            self.kw(s);
        }
        let name = self.fresh();
        let tk = self.id(&name);
        if self.t.chance(1, 8) {
            // package imports in the header
            self.tag("header-import");
            self.import_declaration();
        }
        if self.t.chance(1, 3) {
            self.parameter_port_list();
        }
        let body_items;
        match self.t.weighted(&[3, 5, 3]) {
            0 => {
                // no port list: both headers derive it
                self.expect(tk, "ModuleIdentifier", F_DESIGN, &["ModuleDeclarationNonansi", "ModuleDeclarationAnsi"]);
                self.sym(";");
                body_items = true;
            }
            1 => {
                let before = self.p.toks.len();
                self.ansi_port_list("module");
                let empty = self.p.toks.len() == before + 2;
                if empty {
                    // "()" is an empty ANSI list and a non-ANSI list with one empty port
                    self.expect(tk, "ModuleIdentifier", F_DESIGN, &["ModuleDeclarationNonansi", "ModuleDeclarationAnsi"]);
                } else {
                    self.expect(tk, "ModuleIdentifier", F_DESIGN, &["ModuleDeclarationAnsi"]);
                }
                self.sym(";");
                body_items = true;
            }
            _ => {
                self.expect(tk, "ModuleIdentifier", F_DESIGN, &["ModuleDeclarationNonansi"]);
                self.nonansi_ports_and_decls();
                body_items = true;
            }
        }
        if body_items {
            if self.t.chance(1, 10) {
                self.timeunits_declaration();
            }
            let n = self.t.below(self.cfg.max_items + 1);
            for _ in 0..n {
                if nest > 0 && self.t.chance(1, 25) {
                    self.tag("nested-module");
                    self.module_declaration(nest - 1);
                } else if self.t.chance(1, 40) {
                    self.specparam_declaration();
                } else if self.t.chance(1, 25) {
                    self.specify_block();
                } else if self.t.chance(1, 12) {
                    self.tag("generate-region");
                    self.kw("generate");
                    let k = self.t.below(3);
                    for _ in 0..k {
                        self.module_item(2);
                    }
                    self.kw("endgenerate");
                } else {
                    self.module_item(2);
                }
            }
        }
        self.kw("endmodule");
        self.end_label(&name);
        self.vars.truncate(saved);
        self.modules.push(name);
    }

    pub fn interface_declaration(&mut self) {
        self.tag("interface");
        let saved = self.vars.len();
        self.kw("interface");
        if self.t.chance(1, 6) {
            let s = *self.t.pick(&["static", "automatic"]);
            self.kw(s);
        }
        let name = self.fresh();
        let tk = self.id(&name);
        if self.t.chance(1, 3) {
            self.parameter_port_list();
        }
        let mut header_closed = false;
        match self.t.weighted(&[3, 3, 1]) {
            0 => {
                let before = self.p.toks.len();
                self.ansi_port_list("interface");
                if self.p.toks.len() == before + 2 {
                    self.expect(tk, "InterfaceIdentifier", F_DESIGN, &["InterfaceDeclarationNonansi", "InterfaceDeclarationAnsi"]);
                } else {
                    self.expect(tk, "InterfaceIdentifier", F_DESIGN, &["InterfaceDeclarationAnsi"]);
                }
            }
            1 => {
                self.expect(tk, "InterfaceIdentifier", F_DESIGN, &["InterfaceDeclarationNonansi", "InterfaceDeclarationAnsi"]);
            }
            _ => {
                self.expect(tk, "InterfaceIdentifier", F_DESIGN, &["InterfaceDeclarationNonansi"]);
                self.nonansi_ports_and_decls();
                header_closed = true;
            }
        }
        if !header_closed {
            self.sym(";");
        }
        let n = self.t.below(5);
        for _ in 0..n {
            match self.t.weighted(&[4, 3, 2, 2, 2, 1]) {
                0 => self.var_declaration(),
                1 => self.net_declaration(),
                2 => {
                    self.tag("modport");
                    self.kw("modport");
                    let mp = self.fresh();
                    self.id(&mp);
                    self.sym("(");
                    let k = 1 + self.t.below(3);
                    for i in 0..k {
                        if i > 0 {
                            self.sym(",");
                        }
                        let d = *self.t.pick(&["input", "output", "inout", "ref"]);
                        self.kw(d);
                        self.var_ref_ident_only();
                        if self.t.chance(1, 3) {
                            self.sym(",");
                            self.var_ref_ident_only();
                        }
                    }
                    self.sym(")");
                    self.sym(";");
                }
                3 => self.continuous_assign(),
                4 => self.function_declaration(false),
                _ => self.param_declaration(false),
            }
        }
        self.kw("endinterface");
        self.end_label(&name);
        self.vars.truncate(saved);
    }

    pub fn program_declaration(&mut self) {
        self.tag("program");
        let saved = self.vars.len();
        self.kw("program");
        if self.t.chance(1, 6) {
            let s = *self.t.pick(&["static", "automatic"]);
            self.kw(s);
        }
        let name = self.fresh();
        let tk = self.id(&name);
        let mut header_closed = false;
        match self.t.weighted(&[3, 3, 1]) {
            0 => {
                let before = self.p.toks.len();
                self.ansi_port_list("program");
                if self.p.toks.len() == before + 2 {
                    self.expect(tk, "ProgramIdentifier", F_DESIGN, &["ProgramDeclarationNonansi", "ProgramDeclarationAnsi"]);
                } else {
                    self.expect(tk, "ProgramIdentifier", F_DESIGN, &["ProgramDeclarationAnsi"]);
                }
            }
            1 => {
                self.expect(tk, "ProgramIdentifier", F_DESIGN, &["ProgramDeclarationNonansi", "ProgramDeclarationAnsi"]);
            }
            _ => {
                self.expect(tk, "ProgramIdentifier", F_DESIGN, &["ProgramDeclarationNonansi"]);
                self.nonansi_ports_and_decls();
                header_closed = true;
            }
        }
        if !header_closed {
            self.sym(";");
        }
        let n = self.t.below(5);
        for _ in 0..n {
            match self.t.weighted(&[4, 3, 2, 2, 1]) {
                0 => self.var_declaration(),
                1 => self.initial_construct(),
                2 => self.continuous_assign(),
                3 => self.task_declaration(),
                _ => self.function_declaration(false),
            }
        }
        self.kw("endprogram");
        self.end_label(&name);
        self.vars.truncate(saved);
    }

    pub fn package_declaration(&mut self) {
        self.tag("package");
        let saved = self.vars.len();
        self.kw("package");
        if self.t.chance(1, 6) {
            let s = *self.t.pick(&["static", "automatic"]);
            self.kw(s);
        }
        let name = self.fresh();
        let tk = self.id(&name);
        self.expect(tk, "PackageIdentifier", F_DESIGN, &["PackageDeclaration"]);
        self.sym(";");
        if self.t.chance(1, 10) {
            self.timeunits_declaration();
        }
        let n = self.t.below(6);
        for _ in 0..n {
            match self.t.weighted(&[4, 3, 3, 3, 2, 2, 1, 1, 1]) {
                0 => self.var_declaration(),
                1 => self.typedef(),
                2 => self.param_declaration(false),
                3 => self.function_declaration(false),
                4 => self.task_declaration(),
                5 => self.class_declaration(),
                7 => self.package_export(),
                8 => self.dpi_more(),
                _ => self.import_declaration(),
            }
        }
        self.kw("endpackage");
        self.end_label(&name);
        self.vars.truncate(saved);
        self.packages.push(name);
    }

    pub fn class_declaration(&mut self) {
        self.tag("class");
        let saved = self.vars.len();
        let saved_class = self.in_class;
        self.in_class = true;
        if self.t.chance(1, 6) {
            self.kw("virtual");
        }
        self.kw("class");
        if self.t.chance(1, 8) {
            let s = *self.t.pick(&["static", "automatic"]);
            self.kw(s);
        }
        let name = self.fresh();
        let tk = self.id(&name);
        self.expect(tk, "ClassIdentifier", F_DESIGN, &["ClassDeclaration"]);
        if self.t.chance(1, 4) {
            self.parameter_port_list();
        }
        if self.t.chance(1, 3) {
            self.kw("extends");
            self.id("base_cls");
            if self.t.chance(1, 3) {
                self.sym("(");
                if self.t.flip() {
                    self.expr(1);
                }
                self.sym(")");
            }
        }
        self.sym(";");
        let n = self.t.below(5);
        for _ in 0..n {
            match self.t.weighted(&[5, 4, 2, 2, 1, 2]) {
                5 => {
                    // pure / extern constraint prototypes stay without a body here
                    let _ = self.class_item_more();
                }
                0 => {
                    // class property
                    self.tag("class-property");
                    let q = self.t.below(6);
                    match q {
                        0 => {
                            self.kw("rand");
                        }
                        1 => {
                            self.kw("local");
                        }
                        2 => {
                            self.kw("protected");
                        }
                        3 => {
                            self.kw("static");
                        }
                        _ => {}
                    }
                    self.var_declaration_class();
                }
                1 => {
                    self.tag("class-method");
                    let q = self.t.below(5);
                    match q {
                        0 => {
                            self.kw("virtual");
                        }
                        1 => {
                            self.kw("static");
                        }
                        2 => {
                            self.kw("local");
                        }
                        _ => {}
                    }
                    if self.t.chance(2, 3) {
                        self.function_declaration(true);
                    } else {
                        self.task_declaration();
                    }
                }
                2 => {
                    self.tag("class-new");
                    self.kw("function");
                    self.kw("new");
                    if self.t.flip() {
                        self.tf_port_list();
                    }
                    self.sym(";");
                    if self.t.flip() {
                        self.stmt_not_assignment();
                    }
                    self.kw("endfunction");
                    if self.t.chance(1, 3) {
                        self.sym(":");
                        self.kw("new");
                    }
                }
                3 if self.t.chance(1, 3) => self.constraint_declaration(),
                3 if self.t.chance(1, 2) => self.method_prototype(),
                3 => self.typedef(),
                _ if self.t.chance(1, 3) => self.covergroup_declaration(),
                _ => self.param_declaration(false),
            }
        }
        self.kw("endclass");
        self.end_label(&name);
        self.in_class = saved_class;
        self.vars.truncate(saved);
    }

    /// constraint declaration (A.1.10), simple expression / implication / dist / foreach items
    pub fn constraint_declaration(&mut self) {
        self.tag("constraint");
        if self.t.chance(1, 4) {
            self.kw("static");
        }
        self.kw("constraint");
        let name = self.fresh();
        self.id(&name);
        self.sym("{");
        let n = self.t.below(4);
        for _ in 0..n {
            match self.t.below(5) {
                0 => {
                    if self.t.chance(1, 4) {
                        self.kw("soft");
                    }
                    self.var_ref_ident_only();
                    let op = *self.t.pick(&["<", ">", "==", "!=", "<=", ">="]);
                    self.sym(op);
                    self.small_const();
                    self.sym(";");
                }
                1 => {
                    self.var_ref_ident_only();
                    self.sym("->");
                    self.sym("{");
                    self.var_ref_ident_only();
                    self.sym("==");
                    self.small_const();
                    self.sym(";");
                    self.sym("}");
                }
                2 => {
                    self.var_ref_ident_only();
                    self.kw("dist");
                    self.sym("{");
                    self.small_const();
                    self.sym(":=");
                    self.small_const();
                    self.sym(",");
                    self.sym("[");
                    self.small_const();
                    self.sym(":");
                    self.small_const();
                    self.sym("]");
                    self.sym(":/");
                    self.small_const();
                    self.sym("}");
                    self.sym(";");
                }
                3 => {
                    self.var_ref_ident_only();
                    self.kw("inside");
                    self.sym("{");
                    self.small_const();
                    self.sym(",");
                    self.sym("[");
                    self.small_const();
                    self.sym(":");
                    self.small_const();
                    self.sym("]");
                    self.sym("}");
                    self.sym(";");
                }
                _ => {
                    self.kw("if");
                    self.sym("(");
                    self.var_ref_ident_only();
                    self.sym(")");
                    self.var_ref_ident_only();
                    self.sym("==");
                    self.small_const();
                    self.sym(";");
                    if self.t.flip() {
                        self.kw("else");
                        self.var_ref_ident_only();
                        self.sym("!=");
                        self.small_const();
                        self.sym(";");
                    }
                }
            }
        }
        self.sym("}");
    }

    /// pure virtual / extern method prototypes
    pub fn method_prototype(&mut self) {
        self.tag("method-prototype");
        if self.t.flip() {
            self.kw("pure");
            self.kw("virtual");
        } else {
            self.kw("extern");
            if self.t.chance(1, 3) {
                self.kw("virtual");
            }
        }
        if self.t.flip() {
            self.kw("function");
            let ty = *self.t.pick(&["int", "void", "bit", "string"]);
            self.kw(ty);
            let name = self.fresh();
            let tk = self.id(&name);
            self.expect(tk, "FunctionIdentifier", F_DESIGN, &["FunctionPrototype"]);
            self.sym("(");
            if self.t.flip() {
                self.kw("input");
                self.kw("int");
                self.id("pa_1");
            }
            self.sym(")");
        } else {
            self.kw("task");
            let name = self.fresh();
            let tk = self.id(&name);
            self.expect(tk, "TaskIdentifier", F_DESIGN, &["TaskPrototype"]);
            self.sym("(");
            self.sym(")");
        }
        self.sym(";");
    }

    /// covergroup declaration (A.2.11), simple coverpoints / bins / cross
    pub fn covergroup_declaration(&mut self) {
        self.tag("covergroup");
        self.kw("covergroup");
        let name = self.fresh();
        self.id(&name);
        if self.t.flip() {
            self.event_control_simple();
        }
        self.sym(";");
        let n = self.t.below(4);
        let mut points: Vec<String> = Vec::new();
        for _ in 0..n {
            match self.t.below(4) {
                0 | 1 => {
                    let label = self.fresh();
                    self.id(&label);
                    self.sym(":");
                    self.kw("coverpoint");
                    self.var_ref_ident_only();
                    if self.t.flip() {
                        self.sym("{");
                        let b = self.t.below(3);
                        for _ in 0..b {
                            let k = *self.t.pick(&["bins", "illegal_bins", "ignore_bins"]);
                            self.kw(k);
                            let bn = self.fresh();
                            self.id(&bn);
                            if self.t.chance(1, 3) {
                                self.sym("[");
                                self.sym("]");
                            }
                            self.sym("=");
                            if self.t.chance(1, 4) {
                                self.kw("default");
                            } else {
                                self.sym("{");
                                self.small_const();
                                self.sym(",");
                                self.sym("[");
                                self.small_const();
                                self.sym(":");
                                self.small_const();
                                self.sym("]");
                                self.sym("}");
                            }
                            self.sym(";");
                        }
                        self.sym("}");
                    } else {
                        self.sym(";");
                    }
                    points.push(label);
                }
                2 => {
                    if points.len() >= 2 {
                        self.kw("cross");
                        let a = points[0].clone();
                        let b = points[1].clone();
                        self.id(&a);
                        self.sym(",");
                        self.id(&b);
                        self.sym(";");
                    }
                }
                _ => {
                    self.kw("option");
                    self.sym(".");
                    self.id("per_instance");
                    self.sym("=");
                    self.num("1");
                    self.sym(";");
                }
            }
        }
        self.kw("endgroup");
        self.end_label(&name);
    }

    /// data declaration of a class property (no `var`/`const` prefix to stay within class_property)
    pub fn var_declaration_class(&mut self) {
        let before = self.p.toks.len();
        self.data_type();
        let ev = self.p.toks[before].text == "event" || self.p.toks[before].text == "chandle";
        let name = self.fresh_special();
        let tk = self.id(&name);
        self.expect(tk, "VariableIdentifier", F_DECL, &["DataDeclarationVariable"]);
        if !ev {
            self.unpacked_dims(true);
            if self.t.chance(1, 4) {
                self.sym("=");
                self.expr(1);
            }
        }
        self.sym(";");
        self.vars.push(name);
    }

    /// UDP declaration (A.5): ANSI and non-ANSI headers, combinational and sequential tables
    pub fn udp_declaration(&mut self) {
        self.tag("udp");
        let seq = self.t.flip();
        self.kw("primitive");
        let name = self.fresh();
        let tk = self.id(&name);
        let out = self.fresh();
        let ins: Vec<String> = (0..(1 + self.t.below(3))).map(|_| self.fresh()).collect();
        let ansi = self.t.flip();
        self.expect(tk, "UdpIdentifier", F_DESIGN, &["UdpDeclaration"]);
        self.sym("(");
        if ansi {
            self.kw("output");
            if seq {
                self.kw("reg");
            }
            self.id(&out);
            if seq && self.t.chance(1, 3) {
                self.sym("=");
                self.num("1'b0");
            }
            for i in &ins {
                self.sym(",");
                self.kw("input");
                self.id(i);
            }
            self.sym(")");
            self.sym(";");
        } else {
            self.id(&out);
            for i in &ins {
                self.sym(",");
                self.id(i);
            }
            self.sym(")");
            self.sym(";");
            self.kw("output");
            self.id(&out);
            self.sym(";");
            self.kw("input");
            for (k, i) in ins.iter().enumerate() {
                if k > 0 {
                    self.sym(",");
                }
                self.id(i);
            }
            self.sym(";");
            if seq {
                self.kw("reg");
                self.id(&out);
                self.sym(";");
            }
        }
        if seq && self.t.chance(1, 3) {
            self.kw("initial");
            self.id(&out);
            self.sym("=");
            let v = *self.t.pick(&["1'b0", "1'b1", "1'bx", "0", "1"]);
            self.num(v);
            self.sym(";");
        }
        self.kw("table");
        // table entries are level / edge symbols (not identifiers or numbers): emitted as symbol tokens
        let rows = 1 + self.t.below(3);
        for _ in 0..rows {
            if seq {
                let edge_at = if self.t.flip() { Some(self.t.below(ins.len())) } else { None };
                for k in 0..ins.len() {
                    if edge_at == Some(k) {
                        if self.t.flip() {
                            self.sym("(");
                            let a = *self.t.pick(&["0", "1", "x", "?", "b"]);
                            let b = *self.t.pick(&["0", "1", "x"]);
                            self.tsym(a);
                            self.tsym(b);
                            self.sym(")");
                        } else {
                            let e = *self.t.pick(&["r", "f", "p", "n", "*"]);
                            self.tsym(e);
                        }
                    } else {
                        let l = *self.t.pick(&["0", "1", "x", "?", "b"]);
                        self.tsym(l);
                    }
                }
                self.sym(":");
                let cs = *self.t.pick(&["0", "1", "?", "x", "b"]);
                self.tsym(cs);
                self.sym(":");
                let ns = *self.t.pick(&["0", "1", "x", "-"]);
                self.tsym(ns);
                self.sym(";");
            } else {
                for _ in 0..ins.len() {
                    let l = *self.t.pick(&["0", "1", "x", "?", "b"]);
                    self.tsym(l);
                }
                self.sym(":");
                let o = *self.t.pick(&["0", "1", "x"]);
                self.tsym(o);
                self.sym(";");
            }
        }
        self.kw("endtable");
        self.kw("endprimitive");
        self.end_label(&name);
    }

    /// UDP table symbol: word-like ones (0 1 x b r f p n) are spaced like words, the others are plain symbols
    fn tsym(&mut self, s: &str) {
        if s.chars().all(|c| c.is_ascii_alphanumeric()) {
            self.raw(s);
        } else {
            self.sym(s);
        }
    }

    /// config declaration (A.1.5)
    pub fn config_declaration(&mut self) {
        self.tag("config");
        self.kw("config");
        let name = self.fresh();
        self.id(&name);
        self.sym(";");
        if self.t.chance(1, 3) {
            self.kw("localparam");
            let p = self.fresh();
            self.id(&p);
            self.sym("=");
            self.small_const();
            self.sym(";");
        }
        self.kw("design");
        let n = 1 + self.t.below(2);
        for _ in 0..n {
            if self.t.flip() {
                self.id("lib_a");
                self.sym(".");
            }
            self.id("top_cell");
        }
        self.sym(";");
        let r = self.t.below(4);
        for _ in 0..r {
            match self.t.below(3) {
                0 => {
                    self.kw("default");
                    self.kw("liblist");
                    self.id("lib_a");
                    if self.t.flip() {
                        self.id("lib_b");
                    }
                }
                1 => {
                    self.kw("instance");
                    self.id("top_cell");
                    self.sym(".");
                    self.id("u1");
                    if self.t.flip() {
                        self.kw("liblist");
                        self.id("lib_b");
                    } else {
                        self.kw("use");
                        self.id("lib_b");
                        self.sym(".");
                        self.id("cell_x");
                        if self.t.chance(1, 3) {
                            self.sym(":");
                            self.kw("config");
                        }
                    }
                }
                _ => {
                    self.kw("cell");
                    if self.t.flip() {
                        self.id("lib_a");
                        self.sym(".");
                    }
                    self.id("cell_y");
                    self.kw("use");
                    self.id("cell_z");
                }
            }
            self.sym(";");
        }
        self.kw("endconfig");
        self.end_label(&name);
    }

    /// checker declaration (A.1.8), simple
    pub fn checker_declaration(&mut self) {
        self.tag("checker");
        let saved = self.vars.len();
        self.kw("checker");
        let name = self.fresh();
        let tk = self.id(&name);
        self.expect(tk, "CheckerIdentifier", F_DESIGN, &["CheckerDeclaration"]);
        if self.t.flip() {
            self.sym("(");
            let n = self.t.below(3);
            for i in 0..n {
                if i > 0 {
                    self.sym(",");
                }
                if self.t.flip() {
                    let d = *self.t.pick(&["input", "output"]);
                    self.kw(d);
                }
                let ty = *self.t.pick(&["logic", "bit", "event", "untyped"]);
                self.kw(ty);
                let p = self.fresh();
                self.id(&p);
                self.vars.push(p);
            }
            self.sym(")");
        }
        self.sym(";");
        let n = self.t.below(4);
        for _ in 0..n {
            match self.t.below(4) {
                0 => self.var_declaration(),
                1 => {
                    self.kw("default");
                    self.kw("disable");
                    self.kw("iff");
                    self.var_ref_ident_only();
                    self.sym(";");
                }
                2 => self.initial_construct(),
                _ => self.function_declaration(false),
            }
        }
        self.kw("endchecker");
        self.end_label(&name);
        self.vars.truncate(saved);
    }

    /// timeunits_declaration (A.1.2), all five forms
    pub fn timeunits_declaration(&mut self) {
        self.tag("timeunits");
        let unit = *self.t.pick(&["1ns", "10ns", "100ps", "1us"]);
        let prec = *self.t.pick(&["1ps", "10ps", "1fs", "100fs"]);
        match self.t.below(5) {
            0 => {
                self.kw("timeunit");
                self.num(unit);
                self.sym(";");
            }
            1 => {
                self.kw("timeunit");
                self.num(unit);
                self.sym("/");
                self.num(prec);
                self.sym(";");
            }
            2 => {
                self.kw("timeprecision");
                self.num(prec);
                self.sym(";");
            }
            3 => {
                self.kw("timeunit");
                self.num(unit);
                self.sym(";");
                self.kw("timeprecision");
                self.num(prec);
                self.sym(";");
            }
            _ => {
                self.kw("timeprecision");
                self.num(prec);
                self.sym(";");
                self.kw("timeunit");
                self.num(unit);
                self.sym(";");
            }
        }
    }

    /// one small design element around one or two items of a family that full programs reach rarely
    pub fn focus_text(&mut self) {
        let which = self.t.below(17);
        match which {
            12 | 13 => self.description_more2(),
            0 => self.udp_declaration(),
            1 => self.config_declaration(),
            2 => self.checker_declaration(),
            3 => self.class_declaration(),
            _ => {
                self.tag("module");
                self.kw("module");
                let name = self.fresh();
                let tk = self.id(&name);
                self.expect(tk, "ModuleIdentifier", F_DESIGN, &["ModuleDeclarationNonansi", "ModuleDeclarationAnsi"]);
                self.sym(";");
                if self.t.chance(1, 6) {
                    self.timeunits_declaration();
                }
                let n = 1 + self.t.below(2);
                for _ in 0..n {
                    match which {
                        4 | 5 => self.specify_block(),
                        6 => self.misc_module_item(),
                        7 | 8 => self.misc_module_item2(),
                        9 => self.enum_struct_variable(),
                        10 => self.generate_construct(1),
                        14 => self.misc_module_item3(true),
                        15 | 16 => {
                            // the statement and expression forms of part 6
                            self.tag("focus-stmt-more2");
                            self.kw("initial");
                            self.kw("begin");
                            let k = 1 + self.t.below(3);
                            for _ in 0..k {
                                self.stmt_more2();
                            }
                            self.kw("end");
                        }
                        _ => self.gate_instantiation(),
                    }
                }
                self.kw("endmodule");
                self.end_label(&name);
            }
        }
        self.p.design_elements += 1;
    }

    pub fn source_text(&mut self) {
        if self.t.chance(1, 10) {
            self.timeunits_declaration();
        }
        let n = 1 + self.t.below(self.cfg.max_elements);
        for _ in 0..n {
            let before = self.p.toks.len();
            if before > 0 {
                self.p.top_boundaries.push(before - 1);
            }
            match self.t.weighted(&[10, 2, 2, 2, 2, 1, 1, 1, 1, 1, 1, 2]) {
                11 => self.description_more2(),
                8 => self.udp_declaration(),
                9 => self.config_declaration(),
                10 => self.checker_declaration(),
                0 => self.module_declaration(1),
                1 => self.interface_declaration(),
                2 => self.program_declaration(),
                3 => self.package_declaration(),
                4 => self.class_declaration(),
                5 => self.function_declaration(false),
                6 => self.typedef(),
                _ => self.param_declaration(false),
            }
            self.p.design_elements += 1;
        }
    }
}
