#![allow(dead_code)]
//! svverif — verification harness library (oracles, generators, models, properties) for dalance/sv-parser.

pub mod corpus;
pub mod dev;
pub mod engine;
pub mod findings;
pub mod gen;
pub mod keywords_data;
pub mod lexer;
pub mod ppm;
pub mod props;
pub mod sv;
pub mod tape;
