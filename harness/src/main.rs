fn main(){}
