#![allow(dead_code)]
//! svcheck — property-based / fuzz verification driver for dalance/sv-parser.
//!   svcheck <ID> --tier quick|thorough [--seed N] [--root DIR] [--only CAMPAIGN]
//!   svcheck <ID> --replay FILE
//!   svcheck worker <kind> <args…>     (isolated child used by C09/C10)


use svverif::engine::{self, Ctx, Tier};
use svverif::{corpus, dev, findings, props};
use std::path::PathBuf;

fn usage() -> ! {
    eprintln!("usage: svcheck <ID> [--tier quick|thorough] [--seed N] [--root DIR] [--only CAMPAIGN] [--replay FILE]");
    std::process::exit(2);
}

fn main() {
    let args: Vec<String> = std::env::args().skip(1).collect();
    if args.is_empty() {
        usage();
    }
    if args[0] == "dev" {
        std::process::exit(dev::run(&args[1..]));
    }
    if args[0] == "worker" {
        std::process::exit(props::worker(&args[1..]));
    }
    let id = args[0].to_uppercase();
    let mut tier = match std::env::var("VERIF_TIER").ok().as_deref() {
        Some("thorough") => Tier::Thorough,
        _ => Tier::Quick,
    };
    let mut seed: u64 = std::env::var("VERIF_SEED").ok().and_then(|s| s.parse().ok()).unwrap_or(0);
    let mut root = std::env::var("VERIF_ROOT").map(PathBuf::from).unwrap_or_else(|_| std::env::current_dir().unwrap());
    let mut replay: Option<PathBuf> = None;
    let mut only: Option<String> = None;
    let mut i = 1;
    while i < args.len() {
        match args[i].as_str() {
            "--tier" => {
                i += 1;
                tier = match args.get(i).map(|s| s.as_str()) {
                    Some("quick") => Tier::Quick,
                    Some("thorough") => Tier::Thorough,
                    _ => usage(),
                };
            }
            "--seed" => {
                i += 1;
                seed = args.get(i).and_then(|s| s.parse().ok()).unwrap_or_else(|| usage());
            }
            "--root" => {
                i += 1;
                root = PathBuf::from(args.get(i).unwrap_or_else(|| usage()));
            }
            "--replay" => {
                i += 1;
                replay = Some(PathBuf::from(args.get(i).unwrap_or_else(|| usage())));
            }
            "--only" => {
                i += 1;
                only = Some(args.get(i).unwrap_or_else(|| usage()).clone());
            }
            _ => usage(),
        }
        i += 1;
    }
    let threads = std::env::var("VERIF_THREADS").ok().and_then(|s| s.parse().ok()).unwrap_or(16usize);
    let scratch = root.join("out").join(format!("scratch-{}-{}", id, std::process::id()));
    let ctx = Ctx {
        corpus: corpus::Corpus::load(&root),
        findings: findings::Findings::load(&root),
        root,
        tier,
        seed,
        threads,
        scratch: scratch.clone(),
        replay: replay.is_some(),
    };
    engine::install_panic_hook();
    let prop = match props::by_id(&id) {
        Some(p) => p,
        None => {
            eprintln!("unknown property {}", id);
            std::process::exit(2);
        }
    };
    let code = match replay {
        Some(path) => engine::replay(prop.as_ref(), &ctx, &path),
        None => engine::check(prop.as_ref(), &ctx, only.as_deref()),
    };
    let _ = std::fs::remove_dir_all(&scratch);
    std::process::exit(code);
}
