//! Glue: write a generated case to disk, run the real preprocessor and the reference model, compare.

use super::ast::*;
use super::gen::Case;
use super::model::{default_text_as_written, body_text_as_written, Chunk, ExpErr, ExpErrKind, Flags, Label, Model, Table};
use crate::lexer;
use crate::sv::{self, Defs, Error};
use serde_json::{json, Value};
use std::collections::BTreeMap;
use std::path::{Path, PathBuf};

thread_local! {
    static THREAD_SLOT: std::cell::Cell<usize> = std::cell::Cell::new(0);
}
static NEXT_SLOT: std::sync::atomic::AtomicUsize = std::sync::atomic::AtomicUsize::new(1);

/// A directory private to the calling thread under the process scratch directory.
pub fn thread_dir(scratch: &Path) -> String {
    let slot = THREAD_SLOT.with(|s| {
        if s.get() == 0 {
            s.set(NEXT_SLOT.fetch_add(1, std::sync::atomic::Ordering::Relaxed));
        }
        s.get()
    });
    format!("{}/t{}", scratch.display(), slot)
}

pub fn materialize(case: &Case) -> std::io::Result<()> {
    let dir = Path::new(&case.dir);
    if dir.exists() {
        std::fs::remove_dir_all(dir)?;
    }
    std::fs::create_dir_all(dir)?;
    for (f, r) in case.files.iter().zip(case.rendered.iter()) {
        let p = Path::new(&f.path);
        if let Some(parent) = p.parent() {
            std::fs::create_dir_all(parent)?;
        }
        std::fs::write(p, &r.text)?;
    }
    for ip in &case.include_paths {
        std::fs::create_dir_all(ip)?;
    }
    Ok(())
}

/// Convert a model table into the caller's `Defines` (origin None).
pub fn caller_defs(initial: &Table) -> Defs {
    let mut d = Defs::new();
    for (k, v) in initial {
        match v {
            None => {
                d.insert(k.clone(), None);
            }
            Some(m) => {
                let args: Vec<(String, Option<String>)> =
                    (0..m.def.formals.len()).map(|i| (m.def.formals[i].name.clone(), default_text_as_written(&m.def, i))).collect();
                let text = body_text_as_written(&m.def).map(|t| sv::DefineText { text: t, origin: None });
                d.insert(k.clone(), Some(sv::Define { identifier: k.clone(), arguments: args, text }));
            }
        }
    }
    d
}

pub fn include_paths(case: &Case) -> Vec<PathBuf> {
    case.include_paths.iter().map(PathBuf::from).collect()
}

pub fn run_actual(case: &Case, strip: bool, ignore_include: bool) -> Result<(sv::PreprocessedText, Defs), Error> {
    let defs = caller_defs(&case.initial);
    sv::pp(&case.rendered[0].text, Path::new(&case.files[0].path), &defs, &include_paths(case), ignore_include, strip)
}

pub struct ModelRun {
    pub out: String,
    pub chunks: Vec<Chunk>,
    pub usage_marks: Vec<(usize, Label)>,
    pub cond_barriers: Vec<usize>,
    pub table: Table,
    pub err: Option<ExpErr>,
    pub stats: ModelStats,
}

#[derive(Default, Clone, Debug)]
pub struct ModelStats {
    pub expansions: usize,
    pub nested_expansions: usize,
    pub empty_expansions: usize,
    pub bodyless_with_parens: usize,
    pub includes_entered: usize,
    pub cond_chains: usize,
    pub nested_conds: usize,
    pub elsif_after_failed: usize,
    pub dead_items: usize,
    pub files_contributing: usize,
    pub max_include_depth: usize,
    pub generated_defs: usize,
    pub generated_def_expansions: usize,
    pub undefs_via: usize,
}

pub fn run_model(case: &Case, flags: Flags) -> ModelRun {
    let mut m = Model::new(&case.files, &case.resolve, &case.lines, case.initial.clone(), flags);
    let r = m.run_file(0, 0);
    ModelRun {
        stats: ModelStats {
            expansions: m.expansions,
            nested_expansions: m.nested_expansions,
            empty_expansions: m.empty_expansions,
            bodyless_with_parens: m.bodyless_with_parens,
            includes_entered: m.includes_entered,
            cond_chains: m.cond_chains,
            nested_conds: m.nested_conds,
            elsif_after_failed: m.elsif_after_failed,
            dead_items: m.dead_items,
            files_contributing: m.files_contributing.len(),
            max_include_depth: m.max_include_depth,
            generated_defs: m.generated_ids.len(),
            generated_def_expansions: m.generated_def_expansions,
            undefs_via: m.undefs_via,
        },
        out: m.out,
        chunks: m.chunks,
        usage_marks: m.usage_marks,
        cond_barriers: m.cond_barriers,
        table: m.table,
        err: r.err(),
    }
}

/// Token-for-token comparison (white space and comments disregarded).
pub fn compare_tokens(expected: &str, actual: &str) -> Result<usize, String> {
    let e = lexer::code_tokens(expected).map_err(|x| format!("expected text does not lex: {:?}", x))?;
    let a = lexer::code_tokens(actual).map_err(|x| format!("actual text does not lex: {:?}", x))?;
    let n = e.len().min(a.len());
    for i in 0..n {
        if e[i] != a[i] {
            let ctx_e: Vec<&String> = e[i.saturating_sub(3)..(i + 3).min(e.len())].iter().collect();
            let ctx_a: Vec<&String> = a[i.saturating_sub(3)..(i + 3).min(a.len())].iter().collect();
            return Err(format!("token #{} differs: expected {:?}, actual {:?} (context expected {:?} / actual {:?})", i, e[i], a[i], ctx_e, ctx_a));
        }
    }
    if e.len() != a.len() {
        return Err(format!(
            "token count differs: expected {} tokens, actual {}; first extra: {:?}",
            e.len(),
            a.len(),
            if e.len() > n { &e[n] } else { &a[n] }
        ));
    }
    Ok(n)
}

/// Tokens of `text` that straddle one of the `barriers` (positions at which a conditional directive was removed):
/// two tokens of the source that the removal of the directive let run into one another.
pub fn glued_tokens(text: &str, barriers: &[usize]) -> Vec<String> {
    let toks = match lexer::lex(text) {
        Ok(t) => t,
        Err(_) => return Vec::new(),
    };
    let mut out = Vec::new();
    for t in toks {
        if matches!(t.kind, lexer::Kind::LineComment | lexer::Kind::BlockComment | lexer::Kind::Str) {
            continue;
        }
        let (a, b) = (t.start, t.start + t.text.len());
        if barriers.iter().any(|&x| a < x && x < b) {
            out.push(t.text.to_string());
        }
    }
    out
}

/// Peel Include wrappers.
pub fn peel(e: &Error) -> (usize, &Error) {
    let mut n = 0;
    let mut cur = e;
    while let Error::Include { source } = cur {
        n += 1;
        cur = source;
    }
    (n, cur)
}

pub fn error_matches(exp: &ExpErr, act: &Error) -> bool {
    let (n, inner) = peel(act);
    if n != exp.wrappers {
        return false;
    }
    match (&exp.kind, inner) {
        (ExpErrKind::DefineNotFound(a), Error::DefineNotFound(b)) => a == b,
        (ExpErrKind::DefineArgNotFound(a), Error::DefineArgNotFound(b)) => a == b,
        (ExpErrKind::DefineNoArgs(a), Error::DefineNoArgs(b)) => a == b,
        (ExpErrKind::IncludeFileMissing(a), Error::File { path, .. }) => Path::new(a) == path.as_path(),
        (ExpErrKind::ExceedRecursiveLimit, Error::ExceedRecursiveLimit) => true,
        _ => false,
    }
}

/// Compare the returned define table (minus SV_COV_*) with the model's.
pub fn compare_tables(model: &Table, actual: &Defs) -> Result<(), String> {
    let act: BTreeMap<&String, &Option<sv::Define>> = actual.iter().filter(|(k, _)| !k.starts_with("SV_COV_")).collect();
    for k in model.keys() {
        if !act.contains_key(k) {
            return Err(format!("macro {} missing from the returned table", k));
        }
    }
    for k in act.keys() {
        if !model.contains_key(*k) {
            return Err(format!("macro {} in the returned table but not expected", k));
        }
    }
    for (k, v) in model {
        let a = act[k];
        match (v, a) {
            (None, None) => {}
            (Some(m), Some(d)) => {
                if &d.identifier != k {
                    return Err(format!("entry {} has identifier {}", k, d.identifier));
                }
                if d.arguments.len() != m.def.formals.len() {
                    return Err(format!("macro {}: {} formals returned, {} written", k, d.arguments.len(), m.def.formals.len()));
                }
                for (i, (n, dflt)) in d.arguments.iter().enumerate() {
                    if n != &m.def.formals[i].name {
                        return Err(format!("macro {}: formal #{} is {:?}, written {:?}", k, i, n, m.def.formals[i].name));
                    }
                    let want = default_text_as_written(&m.def, i);
                    if dflt.as_ref().map(|s| s.trim().to_string()) != want.as_ref().map(|s| s.trim().to_string()) {
                        return Err(format!("macro {}: default of {} is {:?}, written {:?}", k, n, dflt, want));
                    }
                }
                let want = body_text_as_written(&m.def).map(|s| s.trim().to_string());
                let got = d.text.as_ref().map(|t| t.text.trim().to_string());
                // a body that is only white space is the same as no body for this comparison
                let norm = |x: Option<String>| x.filter(|s| !s.is_empty());
                if norm(got.clone()) != norm(want.clone()) {
                    return Err(format!("macro {}: body text {:?}, written {:?}", k, got, want));
                }
            }
            (m, a) => return Err(format!("macro {}: expected {}, returned {}", k, if m.is_some() { "a definition" } else { "a bare name" }, if a.is_some() { "a definition" } else { "a bare name" })),
        }
    }
    Ok(())
}

pub fn label_at(chunks: &[Chunk], pos: usize) -> Option<&Label> {
    // chunks are sorted and non-overlapping
    let i = chunks.partition_point(|c| c.end <= pos);
    chunks.get(i).filter(|c| c.start <= pos).map(|c| &c.label)
}

pub fn case_json(case: &Case) -> Value {
    let files: Vec<Value> = case.files.iter().zip(case.rendered.iter()).map(|(f, r)| json!({"path": f.path, "text": r.text})).collect();
    let mut defs = Vec::new();
    for (k, v) in &case.initial {
        match v {
            None => defs.push(json!({"name": k, "body": Value::Null})),
            Some(m) => {
                let mut s = String::new();
                render_define(&m.def, &mut s);
                defs.push(json!({"name": k, "as_define": s}));
            }
        }
    }
    json!({"files": files, "include_paths": case.include_paths, "caller_defines": defs, "fault": format!("{:?}", case.fault)})
}
