//! Preprocessor program AST (DESIGN.md 3.3) with all trivia explicit, plus its rendering to text.

#[derive(Clone, Debug)]
pub enum Piece {
    /// identifier-like token, unique across all files of a case unless stated otherwise
    Ident(String),
    Punct(String),
    Num(String),
    /// string literal including its quotes
    Str(String),
    /// escaped identifier including the backslash (without the terminating blank)
    Esc(String),
    BlockComment(String),
    /// includes the terminating newline
    LineComment(String),
}

impl Piece {
    pub fn text(&self) -> &str {
        match self {
            Piece::Ident(s) | Piece::Punct(s) | Piece::Num(s) | Piece::Str(s) | Piece::Esc(s) | Piece::BlockComment(s) | Piece::LineComment(s) => s,
        }
    }
    pub fn is_comment(&self) -> bool {
        matches!(self, Piece::BlockComment(_) | Piece::LineComment(_))
    }
}

/// argument token of a macro usage (also used for default texts)
#[derive(Clone, Debug)]
pub enum ArgTok {
    Tok(String),
    /// string literal with quotes (may contain commas and parentheses, no escaped quote)
    Str(String),
    /// bracketed group: open bracket, items (commas allowed inside), close bracket
    Group(char, Vec<ArgTok>),
    Comma,
    Use(Box<Usage>),
    /// reference to formal i of the enclosing macro (only inside bodies)
    Formal(usize),
}

#[derive(Clone, Debug)]
pub struct Usage {
    pub name: String,
    /// None = no argument list; Some(args), each arg a token list (empty list = empty actual)
    pub args: Option<Vec<Vec<ArgTok>>>,
    /// blanks between the name and '(' (only when args are present)
    pub ws_before_paren: String,
}

#[derive(Clone, Debug)]
pub enum BodyTok {
    Tok(String),
    Formal(usize),
    /// ``
    Paste,
    /// `" … `"  with pieces inside (substitution applies)
    BtString(Vec<BodyTok>),
    /// `\`"
    BtBsQuote,
    /// ordinary string literal (quotes included) — must stay untouched even if it names a formal
    Str(String),
    Use(Usage),
    /// backslash-newline
    LineCont,
    BlockComment(String),
    /// a blank (explicit so that pasting can place tokens directly next to each other)
    Sp,
}

#[derive(Clone, Debug)]
pub struct Formal {
    pub name: String,
    pub default: Option<Vec<ArgTok>>,
}

#[derive(Clone, Debug)]
pub struct MacroDef {
    /// unique id of this definition (0 for caller-supplied ones)
    pub id: usize,
    pub name: String,
    pub formals: Vec<Formal>,
    /// None = no body at all
    pub body: Option<Vec<BodyTok>>,
    /// optional `// comment` at the end of the body line (not part of the substituted text)
    pub trailing_comment: Option<String>,
}

#[derive(Clone, Debug)]
pub enum IncStyle {
    Quote,
    Angle,
    /// `include `NAME  where NAME is a macro whose body is the quoted file name
    Macro(String),
    /// `NAME  where NAME is a macro whose body is the whole directive (`define NAME `include "f")
    ViaBody(String),
}

#[derive(Clone, Debug)]
pub enum Item {
    /// pieces with the white space that follows each
    Text(Vec<(Piece, String)>),
    /// kept directive text (without trailing white space) and the white space after it
    Kept(String, String),
    Define(MacroDef, String),
    Undef(String, String),
    UndefineAll(String),
    Cond(Box<Cond>),
    /// file name as written, style, white space after (must contain / start with a newline unless a negative case)
    Include { id: usize, name: String, style: IncStyle, ws_after: String },
    Use(Usage, String),
    /// usage of the maker macro (`define MK_DEFINE(n, v) `define n v): its expansion is a `define, which takes effect.
    /// `def` is the definition it produces (no formals, plain-token body); rendered exactly like `Use`
    DefineVia(Usage, MacroDef, String),
    /// usage of the remover macro (`define RM_UNDEF(n) `undef n): its expansion is an `undef of the named macro, which takes effect
    UndefVia(Usage, String, String),
    FileMacro(String),
    LineMacro { id: usize, ws_after: String },
    /// `resetall (kept)
    Resetall(String),
}

#[derive(Clone, Debug)]
pub struct Cond {
    pub ifndef: bool,
    pub name: String,
    pub ws_after_name: String,
    pub then: Vec<Item>,
    pub elsifs: Vec<(String, String, Vec<Item>)>,
    pub els: Option<(String, Vec<Item>)>,
    pub ws_after_endif: String,
}

#[derive(Clone, Debug)]
pub struct SrcFile {
    /// path as it exists on disk (absolute) — the top file may be virtual
    pub path: String,
    pub items: Vec<Item>,
}

// ---------------------------------------------------------------------------------------------
// rendering

pub fn render_args(args: &[ArgTok], formals: &[Formal], out: &mut String) {
    let mut first = true;
    for a in args {
        if !first && !matches!(a, ArgTok::Comma) {
            out.push(' ');
        }
        first = false;
        match a {
            ArgTok::Tok(s) | ArgTok::Str(s) => out.push_str(s),
            ArgTok::Comma => out.push(','),
            ArgTok::Group(open, inner) => {
                out.push(*open);
                render_args(inner, formals, out);
                out.push(match open {
                    '(' => ')',
                    '[' => ']',
                    _ => '}',
                });
            }
            ArgTok::Use(u) => render_usage(u, formals, out),
            ArgTok::Formal(i) => out.push_str(&formals[*i].name),
        }
    }
}

pub fn render_usage(u: &Usage, formals: &[Formal], out: &mut String) {
    out.push('`');
    out.push_str(&u.name);
    if let Some(args) = &u.args {
        out.push_str(&u.ws_before_paren);
        out.push('(');
        for (i, a) in args.iter().enumerate() {
            if i > 0 {
                out.push(',');
            }
            render_args(a, formals, out);
        }
        out.push(')');
    }
}

pub fn render_body(body: &[BodyTok], formals: &[Formal], out: &mut String) {
    for b in body {
        match b {
            BodyTok::Tok(s) | BodyTok::Str(s) | BodyTok::BlockComment(s) => out.push_str(s),
            BodyTok::Formal(i) => out.push_str(&formals[*i].name),
            BodyTok::Paste => out.push_str("``"),
            BodyTok::BtString(inner) => {
                out.push_str("`\"");
                render_body(inner, formals, out);
                out.push_str("`\"");
            }
            BodyTok::BtBsQuote => out.push_str("`\\`\""),
            BodyTok::Use(u) => render_usage(u, formals, out),
            BodyTok::LineCont => out.push_str("\\\n"),
            BodyTok::Sp => out.push(' '),
        }
    }
}

/// Appends the directive; returns the offset (in `out`) at which the macro body starts.
pub fn render_define(d: &MacroDef, out: &mut String) -> usize {
    out.push_str("`define ");
    out.push_str(&d.name);
    if !d.formals.is_empty() {
        out.push('(');
        for (i, f) in d.formals.iter().enumerate() {
            if i > 0 {
                out.push_str(", ");
            }
            out.push_str(&f.name);
            if let Some(def) = &f.default {
                out.push('=');
                render_args(def, &d.formals, out);
            }
        }
        out.push(')');
    }
    let body_start = out.len();
    if let Some(b) = &d.body {
        out.push(' ');
        render_body(b, &d.formals, out);
    }
    if let Some(c) = &d.trailing_comment {
        out.push_str(" //");
        out.push_str(c);
    }
    body_start
}

pub struct Rendered {
    pub text: String,
    /// line number (1-based) of each LineMacro by id
    pub line_of: std::collections::HashMap<usize, u32>,
    /// offset of the body of each `define by definition id
    pub body_start: std::collections::HashMap<usize, usize>,
}

#[derive(Default)]
pub struct Side {
    pub lines: std::collections::HashMap<usize, u32>,
    pub body_start: std::collections::HashMap<usize, usize>,
}

fn cur_line(s: &str) -> u32 {
    1 + s.bytes().filter(|b| *b == b'\n').count() as u32
}

pub fn render_items(items: &[Item], out: &mut String, side: &mut Side) {
    for it in items {
        match it {
            Item::Text(ps) => {
                for (p, ws) in ps {
                    out.push_str(p.text());
                    out.push_str(ws);
                }
            }
            Item::Kept(t, ws) => {
                out.push_str(t);
                out.push_str(ws);
            }
            Item::Define(d, ws) => {
                let b = render_define(d, out);
                side.body_start.insert(d.id, b);
                out.push_str(ws);
            }
            Item::Undef(n, ws) => {
                out.push_str("`undef ");
                out.push_str(n);
                out.push_str(ws);
            }
            Item::UndefineAll(ws) => {
                out.push_str("`undefineall");
                out.push_str(ws);
            }
            Item::Resetall(ws) => {
                out.push_str("`resetall");
                out.push_str(ws);
            }
            Item::Cond(c) => {
                out.push_str(if c.ifndef { "`ifndef " } else { "`ifdef " });
                out.push_str(&c.name);
                out.push_str(&c.ws_after_name);
                render_items(&c.then, out, side);
                for (n, ws, body) in &c.elsifs {
                    out.push_str("`elsif ");
                    out.push_str(n);
                    out.push_str(ws);
                    render_items(body, out, side);
                }
                if let Some((ws, body)) = &c.els {
                    out.push_str("`else");
                    out.push_str(ws);
                    render_items(body, out, side);
                }
                out.push_str("`endif");
                out.push_str(&c.ws_after_endif);
            }
            Item::Include { style: IncStyle::ViaBody(m), ws_after, .. } => {
                out.push('`');
                out.push_str(m);
                out.push_str(ws_after);
            }
            Item::Include { name, style, ws_after, .. } => {
                out.push_str("`include ");
                match style {
                    IncStyle::Quote => {
                        out.push('"');
                        out.push_str(name);
                        out.push('"');
                    }
                    IncStyle::Angle => {
                        out.push('<');
                        out.push_str(name);
                        out.push('>');
                    }
                    IncStyle::Macro(m) => {
                        out.push('`');
                        out.push_str(m);
                    }
                    IncStyle::ViaBody(_) => unreachable!(),
                }
                out.push_str(ws_after);
            }
            Item::Use(u, ws) | Item::DefineVia(u, _, ws) | Item::UndefVia(u, _, ws) => {
                render_usage(u, &[], out);
                out.push_str(ws);
            }
            Item::FileMacro(ws) => {
                out.push_str("`__FILE__");
                out.push_str(ws);
            }
            Item::LineMacro { id, ws_after } => {
                side.lines.insert(*id, cur_line(out));
                out.push_str("`__LINE__");
                out.push_str(ws_after);
            }
        }
    }
}

pub fn render_file(f: &SrcFile) -> Rendered {
    let mut text = String::new();
    let mut side = Side::default();
    render_items(&f.items, &mut text, &mut side);
    Rendered { text, line_of: side.lines, body_start: side.body_start }
}
