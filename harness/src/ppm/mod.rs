pub mod ast;
pub mod gen;
pub mod model;
pub mod run;
