//! Reference preprocessor (DESIGN.md 4.4): interprets the pp-AST directly per IEEE 1800-2017 22.4-22.6.
//! It never looks at rendered text except for the verbatim copies of kept directives.

use super::ast::*;
use std::collections::{BTreeMap, HashMap};

#[derive(Clone, Debug, PartialEq, Eq)]
pub enum DefOrigin {
    /// defined by a `define written in file #i
    File(usize),
    /// supplied by the caller (DefineText.origin == None)
    Caller,
}

#[derive(Clone, Debug)]
pub struct MDef {
    pub def: MacroDef,
    pub origin: DefOrigin,
}

/// name -> Some(definition) | None (caller-supplied name without body)
pub type Table = BTreeMap<String, Option<MDef>>;

#[derive(Clone, Debug, PartialEq, Eq)]
pub enum ExpErrKind {
    DefineNotFound(String),
    DefineArgNotFound(String),
    DefineNoArgs(String),
    /// file name as written in the directive
    IncludeFileMissing(String),
    ExceedRecursiveLimit,
}

#[derive(Clone, Debug, PartialEq, Eq)]
pub struct ExpErr {
    pub kind: ExpErrKind,
    /// number of Include wrappers expected around the error
    pub wrappers: usize,
}

#[derive(Clone, Debug, PartialEq, Eq)]
pub enum Label {
    /// copied from file #i
    File(usize),
    /// produced by expanding a macro whose definition has this origin and this definition id
    Macro(DefOrigin, usize),
    /// `__FILE__ / `__LINE__
    Synth,
}

#[derive(Clone, Debug)]
pub struct Chunk {
    pub start: usize,
    pub end: usize,
    pub label: Label,
}

#[derive(Clone, Debug, Default)]
pub struct Flags {
    pub ignore_include: bool,
    /// known deviation K2: in an `elsif the "is predefined" test looks at the chain's opening name
    pub dev_elsif_uses_opening_name: bool,
    /// known deviation K6: "( … )" after an object-like macro that has no body is dropped with the usage
    pub dev_bodyless_drops_parens: bool,
}

#[derive(Clone, Debug)]
pub struct Resolved {
    pub file: usize,
    /// path string under which the implementation opens the file (for `__FILE__)
    pub opened_as: String,
}

pub struct Model<'a> {
    pub files: &'a [SrcFile],
    /// include name as written -> resolution by the stated search rule (None = found nowhere)
    pub resolve: &'a HashMap<String, Option<Resolved>>,
    pub lines: &'a HashMap<usize, u32>,
    pub flags: Flags,
    pub out: String,
    pub chunks: Vec<Chunk>,
    /// (position in `out`, label) of every top-level macro usage
    pub usage_marks: Vec<(usize, Label)>,
    /// positions in `out` at which a conditional directive was removed (start and end of every chain's contribution)
    pub cond_barriers: Vec<usize>,
    /// ids of definitions produced by expanding the maker macro, and how often such a macro was expanded at top level
    pub generated_ids: std::collections::BTreeSet<usize>,
    pub generated_def_expansions: usize,
    pub undefs_via: usize,
    pub table: Table,
    /// statistics for non-triviality rules
    pub expansions: usize,
    pub nested_expansions: usize,
    pub empty_expansions: usize,
    pub bodyless_with_parens: usize,
    pub includes_entered: usize,
    pub cond_chains: usize,
    pub nested_conds: usize,
    pub elsif_after_failed: usize,
    pub dead_items: usize,
    pub files_contributing: std::collections::BTreeSet<usize>,
    pub max_include_depth: usize,
}

pub fn is_predefined(name: &str) -> bool {
    name == "__FILE__" || name == "__LINE__"
}

fn close_of(open: char) -> char {
    match open {
        '(' => ')',
        '[' => ']',
        _ => '}',
    }
}

impl<'a> Model<'a> {
    pub fn new(
        files: &'a [SrcFile],
        resolve: &'a HashMap<String, Option<Resolved>>,
        lines: &'a HashMap<usize, u32>,
        initial: Table,
        flags: Flags,
    ) -> Self {
        Model {
            files,
            resolve,
            lines,
            flags,
            out: String::new(),
            chunks: Vec::new(),
            usage_marks: Vec::new(),
            cond_barriers: Vec::new(),
            generated_ids: Default::default(),
            generated_def_expansions: 0,
            undefs_via: 0,
            table: initial,
            expansions: 0,
            nested_expansions: 0,
            empty_expansions: 0,
            bodyless_with_parens: 0,
            includes_entered: 0,
            cond_chains: 0,
            nested_conds: 0,
            elsif_after_failed: 0,
            dead_items: 0,
            files_contributing: Default::default(),
            max_include_depth: 0,
        }
    }

    fn emit(&mut self, s: &str, label: Label) {
        if s.is_empty() {
            return;
        }
        if let Label::File(i) = &label {
            self.files_contributing.insert(*i);
        }
        let start = self.out.len();
        self.out.push_str(s);
        self.chunks.push(Chunk { start, end: self.out.len(), label });
    }

    pub fn defined(&self, name: &str) -> bool {
        self.table.contains_key(name) || is_predefined(name)
    }

    // ---------------------------------------------------------------- expansion (22.5.1)

    /// Replace references to the enclosing macro's formals by the (closed) actual token lists.
    fn close_args(args: &[ArgTok], bound: &[Vec<ArgTok>]) -> Vec<ArgTok> {
        let mut out = Vec::new();
        for a in args {
            match a {
                ArgTok::Formal(i) => out.extend(bound[*i].iter().cloned()),
                ArgTok::Group(o, inner) => out.push(ArgTok::Group(*o, Self::close_args(inner, bound))),
                ArgTok::Use(u) => out.push(ArgTok::Use(Box::new(Self::close_usage(u, bound)))),
                other => out.push(other.clone()),
            }
        }
        out
    }

    fn close_usage(u: &Usage, bound: &[Vec<ArgTok>]) -> Usage {
        Usage {
            name: u.name.clone(),
            args: u.args.as_ref().map(|a| a.iter().map(|x| Self::close_args(x, bound)).collect()),
            ws_before_paren: u.ws_before_paren.clone(),
        }
    }

    /// Expanded text of a closed argument token list (nested usages are expanded here, i.e. only when
    /// the text is actually substituted and re-scanned).
    fn expand_args(&mut self, args: &[ArgTok], depth: usize, out: &mut String) -> Result<(), ExpErrKind> {
        let mut first = true;
        for a in args {
            if !first && !matches!(a, ArgTok::Comma) {
                out.push(' ');
            }
            first = false;
            match a {
                ArgTok::Tok(s) | ArgTok::Str(s) => out.push_str(s),
                ArgTok::Comma => out.push(','),
                ArgTok::Group(open, inner) => {
                    out.push(*open);
                    self.expand_args(inner, depth, out)?;
                    out.push(close_of(*open));
                }
                ArgTok::Use(u) => {
                    let s = self.expand_usage(u, depth + 1)?;
                    out.push_str(&s);
                }
                ArgTok::Formal(_) => unreachable!("argument list not closed"),
            }
        }
        Ok(())
    }

    /// Expansion of a closed usage with the define table current now (22.5.1).
    pub fn expand_usage(&mut self, u: &Usage, depth: usize) -> Result<String, ExpErrKind> {
        if depth > 64 {
            return Err(ExpErrKind::ExceedRecursiveLimit);
        }
        let entry = match self.table.get(&u.name) {
            None => return Err(ExpErrKind::DefineNotFound(u.name.clone())),
            Some(e) => e.clone(),
        };
        // An object-like macro followed by "( … )": the parenthesised text is not an argument list, it stays
        // (and is re-scanned like any other text).
        let mut trailing_parens = String::new();
        let object_like = match &entry {
            None => true,
            Some(d) => d.def.formals.is_empty(),
        };
        if object_like {
            if let Some(args) = &u.args {
                let mut s = String::from("(");
                for (i, a) in args.iter().enumerate() {
                    if i > 0 {
                        s.push(',');
                    }
                    self.expand_args(a, depth, &mut s)?;
                }
                s.push(')');
                trailing_parens = s;
            }
        }
        let d = match entry {
            None => {
                self.bodyless_with_parens += if trailing_parens.is_empty() { 0 } else { 1 };
                return Ok(if self.flags.dev_bodyless_drops_parens { String::new() } else { trailing_parens });
            }
            Some(d) => d,
        };
        let def = &d.def;
        if !def.formals.is_empty() && u.args.is_none() {
            return Err(ExpErrKind::DefineNoArgs(def.name.clone()));
        }
        if depth > 0 {
            self.nested_expansions += 1;
        }
        self.expansions += 1;
        // bind actuals textually (omitted or empty actual -> default, else nothing; missing without default -> error);
        // their own macro usages are expanded only where the text is substituted
        let mut actuals: Vec<Vec<ArgTok>> = Vec::new();
        for (i, f) in def.formals.iter().enumerate() {
            let given = u.args.as_ref().and_then(|a| a.get(i));
            let toks = match given {
                Some(toks) if !toks.is_empty() => toks.clone(),
                Some(_) => f.default.clone().unwrap_or_default(),
                None => match &f.default {
                    Some(dflt) => dflt.clone(),
                    None => return Err(ExpErrKind::DefineArgNotFound(f.name.clone())),
                },
            };
            actuals.push(toks);
        }
        let body = match &def.body {
            None => {
                self.empty_expansions += 1;
                self.bodyless_with_parens += if trailing_parens.is_empty() { 0 } else { 1 };
                return Ok(if self.flags.dev_bodyless_drops_parens { String::new() } else { trailing_parens });
            }
            Some(b) => b.clone(),
        };
        let mut out = String::new();
        self.expand_body(&body, &actuals, depth, &mut out)?;
        out.push_str(&trailing_parens);
        if out.trim().is_empty() {
            self.empty_expansions += 1;
        }
        Ok(out)
    }

    fn expand_body(&mut self, body: &[BodyTok], actuals: &[Vec<ArgTok>], depth: usize, out: &mut String) -> Result<(), ExpErrKind> {
        for b in body {
            match b {
                BodyTok::Tok(s) | BodyTok::Str(s) | BodyTok::BlockComment(s) => out.push_str(s),
                BodyTok::Formal(i) => self.expand_args(&actuals[*i].clone(), depth, out)?,
                BodyTok::Paste => {}
                BodyTok::BtString(inner) => {
                    out.push('"');
                    self.expand_body(inner, actuals, depth, out)?;
                    out.push('"');
                }
                BodyTok::BtBsQuote => out.push_str("\\\""),
                BodyTok::Use(u) => {
                    let c = Self::close_usage(u, actuals);
                    let s = self.expand_usage(&c, depth + 1)?;
                    out.push_str(&s);
                }
                BodyTok::LineCont => out.push('\n'),
                BodyTok::Sp => out.push(' '),
            }
        }
        Ok(())
    }

    // ---------------------------------------------------------------- items

    pub fn run_file(&mut self, file: usize, depth: usize) -> Result<(), ExpErr> {
        if depth > self.max_include_depth {
            self.max_include_depth = depth;
        }
        let items = &self.files[file].items;
        self.run_items(items, file, depth, 0)
    }

    fn run_items(&mut self, items: &'a [Item], file: usize, depth: usize, cond_depth: usize) -> Result<(), ExpErr> {
        for it in items {
            self.run_item(it, file, depth, cond_depth)?;
        }
        Ok(())
    }

    fn count_dead(&mut self, items: &[Item]) {
        self.dead_items += items.len();
    }

    fn run_item(&mut self, it: &'a Item, file: usize, depth: usize, cond_depth: usize) -> Result<(), ExpErr> {
        let wrap = |kind: ExpErrKind| ExpErr { kind, wrappers: depth };
        match it {
            Item::Text(ps) => {
                for (p, ws) in ps {
                    self.emit(p.text(), Label::File(file));
                    self.emit(ws, Label::File(file));
                }
            }
            Item::Kept(t, ws) => {
                self.emit(t, Label::File(file));
                self.emit(ws, Label::File(file));
            }
            Item::Resetall(ws) => {
                self.emit("`resetall", Label::File(file));
                self.emit(ws, Label::File(file));
            }
            Item::Define(d, ws) => {
                if !is_predefined(&d.name) {
                    self.table.insert(d.name.clone(), Some(MDef { def: d.clone(), origin: DefOrigin::File(file) }));
                }
                let mut s = String::new();
                render_define(d, &mut s);
                self.emit(&s, Label::File(file));
                self.emit(ws, Label::File(file));
            }
            Item::Undef(n, ws) => {
                self.table.remove(n);
                self.emit(&format!("`undef {}", n), Label::File(file));
                self.emit(ws, Label::File(file));
            }
            Item::UndefineAll(ws) => {
                self.table.clear();
                self.emit("`undefineall", Label::File(file));
                self.emit(ws, Label::File(file));
            }
            Item::Cond(c) => {
                self.cond_chains += 1;
                self.cond_barriers.push(self.out.len());
                if cond_depth > 0 {
                    self.nested_conds += 1;
                }
                let first = self.defined(&c.name) != c.ifndef;
                let mut taken = false;
                if first {
                    taken = true;
                    self.run_items(&c.then, file, depth, cond_depth + 1)?;
                } else {
                    self.count_dead(&c.then);
                }
                for (n, _ws, body) in &c.elsifs {
                    if taken {
                        self.count_dead(body);
                        continue;
                    }
                    let cond = if self.flags.dev_elsif_uses_opening_name {
                        self.table.contains_key(n) || is_predefined(&c.name)
                    } else {
                        self.defined(n)
                    };
                    if cond {
                        taken = true;
                        self.elsif_after_failed += 1;
                        self.run_items(body, file, depth, cond_depth + 1)?;
                    } else {
                        self.count_dead(body);
                    }
                }
                if let Some((_ws, body)) = &c.els {
                    if !taken {
                        self.run_items(body, file, depth, cond_depth + 1)?;
                    } else {
                        self.count_dead(body);
                    }
                }
                self.cond_barriers.push(self.out.len());
                // white space after `endif belongs to the file text
                self.emit(&c.ws_after_endif, Label::File(file));
            }
            Item::Include { name, style, ws_after, .. } => {
                if self.flags.ignore_include {
                    self.emit(ws_after, Label::File(file));
                    return Ok(());
                }
                let fname = match style {
                    IncStyle::Quote | IncStyle::Angle | IncStyle::ViaBody(_) => name.clone(),
                    IncStyle::Macro(m) => {
                        let u = Usage { name: m.clone(), args: None, ws_before_paren: String::new() };
                        let s = self.expand_usage(&u, 0).map_err(wrap)?;
                        s.trim().trim_matches('"').to_string()
                    }
                };
                match self.resolve.get(&fname).cloned().flatten() {
                    None => {
                        return Err(ExpErr { kind: ExpErrKind::IncludeFileMissing(fname), wrappers: depth + 1 });
                    }
                    Some(r) => {
                        if depth + 1 > 64 {
                            return Err(ExpErr { kind: ExpErrKind::ExceedRecursiveLimit, wrappers: depth + 1 });
                        }
                        self.includes_entered += 1;
                        self.run_file(r.file, depth + 1)?;
                    }
                }
                self.emit(ws_after, Label::File(file));
            }
            Item::Use(u, ws) => {
                let (origin, def_id) = match self.table.get(&u.name) {
                    Some(Some(d)) => (d.origin.clone(), d.def.id),
                    _ => (DefOrigin::Caller, 0),
                };
                if self.generated_ids.contains(&def_id) {
                    self.generated_def_expansions += 1;
                }
                let s = self.expand_usage(u, 0).map_err(wrap)?;
                // remembered even when the expansion is empty: the implementation's expansion may still hold white space
                self.usage_marks.push((self.out.len(), Label::Macro(origin.clone(), def_id)));
                self.emit(&s, Label::Macro(origin, def_id));
                self.emit(ws, Label::File(file));
            }
            Item::UndefVia(u, name, ws) => {
                let (origin, def_id) = match self.table.get(&u.name) {
                    Some(Some(d)) => (d.origin.clone(), d.def.id),
                    _ => (DefOrigin::Caller, 0),
                };
                let s = self.expand_usage(u, 0).map_err(wrap)?;
                self.usage_marks.push((self.out.len(), Label::Macro(origin.clone(), def_id)));
                self.emit(&s, Label::Macro(origin, def_id));
                self.emit(ws, Label::File(file));
                // the expansion is an `undef: it takes effect
                self.table.remove(name);
                self.undefs_via += 1;
            }
            Item::DefineVia(u, def, ws) => {
                let (origin, def_id) = match self.table.get(&u.name) {
                    Some(Some(d)) => (d.origin.clone(), d.def.id),
                    _ => (DefOrigin::Caller, 0),
                };
                let s = self.expand_usage(u, 0).map_err(wrap)?;
                self.usage_marks.push((self.out.len(), Label::Macro(origin.clone(), def_id)));
                self.emit(&s, Label::Macro(origin, def_id));
                self.emit(ws, Label::File(file));
                // the expansion is a `define: it takes effect, written (as far as origins go) in the file being read
                self.table.insert(def.name.clone(), Some(MDef { def: def.clone(), origin: DefOrigin::File(file) }));
                self.generated_ids.insert(def.id);
            }
            Item::FileMacro(ws) => {
                let p = self.opened_as(file);
                self.emit(&format!("\"{}\"", p), Label::Synth);
                // the white space after the directive is copied from the file
                self.emit(ws, Label::File(file));
            }
            Item::LineMacro { id, ws_after } => {
                let l = self.lines.get(id).copied().unwrap_or(0);
                self.emit(&format!("{}", l), Label::Synth);
                self.emit(ws_after, Label::File(file));
            }
        }
        Ok(())
    }

    fn opened_as(&self, file: usize) -> String {
        for r in self.resolve.values().flatten() {
            if r.file == file {
                return r.opened_as.clone();
            }
        }
        self.files[file].path.clone()
    }
}

/// Body text of a definition as written in the source (for comparing the returned define table).
pub fn body_text_as_written(d: &MacroDef) -> Option<String> {
    let mut s = String::new();
    match &d.body {
        None => return None,
        Some(b) => render_body(b, &d.formals, &mut s),
    }
    if let Some(c) = &d.trailing_comment {
        s.push_str(" //");
        s.push_str(c);
    }
    Some(s)
}

pub fn default_text_as_written(d: &MacroDef, i: usize) -> Option<String> {
    d.formals[i].default.as_ref().map(|a| {
        let mut s = String::new();
        render_args(a, &d.formals, &mut s);
        s
    })
}
