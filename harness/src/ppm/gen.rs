//! Generator of preprocessor programs with ground truth (DESIGN.md 3.3).
//! Generation is interleaved with interpretation: the generator tracks the live define table so that
//! usages in live text are well-formed unless a fault is injected on purpose.

use super::ast::*;
use super::model::{DefOrigin, MDef, Resolved, Table};
use crate::tape::Tape;
use std::collections::HashMap;

#[derive(Clone, Debug)]
pub struct PpCfg {
    pub conds: bool,
    pub macros: bool,
    pub includes: bool,
    pub position: bool,
    pub kept: bool,
    pub comments: bool,
    pub strings: bool,
    /// allow the K1 trigger (string / escaped identifier followed by blank, comment or directive)
    pub k1_trigger: bool,
    /// allow the K2 trigger (predefined names in `elsif chains)
    pub k2_trigger: bool,
    /// inject at most one fault (undefined use, missing actual, missing argument list, missing include)
    pub faults: bool,
    pub caller_defines: bool,
    pub max_items: usize,
    pub max_depth: usize,
    /// include file names that exist in several include directories
    pub multi_dir: bool,
    pub cond_weight: usize,
    /// let plain text stand directly in front of a conditional directive (trigger of listed finding K7: the white
    /// space owned by the directive's operand is dropped, so the text may run into the branch's first token)
    pub glue: bool,
    /// macros defined by the expansion of a maker macro (`define MK_DEFINE(n, v) `define n v)
    pub define_via: bool,
    /// `include directives that stand in a macro body (`define INCB `include "f" / `INCB)
    pub include_via_body: bool,
    /// every fourth included file ends without a final newline (its last token then meets whatever follows the directive)
    pub file_no_final_newline: bool,
    /// macro bodies may start with an escaped identifier
    pub body_escaped_first: bool,
    /// ordinary string literals in bodies may hold an escaped quote or end in a backtick
    pub body_string_corners: bool,
}

impl PpCfg {
    pub fn full() -> Self {
        PpCfg {
            conds: true,
            macros: true,
            includes: true,
            position: true,
            kept: true,
            comments: true,
            strings: true,
            k1_trigger: false,
            k2_trigger: false,
            faults: false,
            caller_defines: true,
            max_items: 10,
            max_depth: 3,
            multi_dir: true,
            cond_weight: 3,
            glue: false,
            define_via: false,
            include_via_body: false,
            file_no_final_newline: false,
            body_escaped_first: false,
            body_string_corners: false,
        }
    }
}

#[derive(Clone, Debug, PartialEq, Eq)]
pub enum Fault {
    UndefinedUse(String),
    MissingActual(String),
    MissingArgList(String),
    MissingInclude(String),
}

pub struct Case {
    /// files[0] is the top file; include files follow (all with absolute on-disk paths)
    pub files: Vec<SrcFile>,
    pub rendered: Vec<Rendered>,
    pub resolve: HashMap<String, Option<Resolved>>,
    pub include_paths: Vec<String>,
    pub initial: Table,
    pub lines: HashMap<usize, u32>,
    pub fault: Option<Fault>,
    pub k1_sites: usize,
    pub k2_sites: usize,
    /// plain tokens standing directly in front of a conditional directive (top file)
    pub glue_sites: usize,
    /// number of files included a second time
    pub reincludes: usize,
    /// directory all files live in
    pub dir: String,
}

// (the last four start like a directive name: `else_x is a macro usage, not `else followed by _x)
/// the maker macro of `PpCfg::define_via` (never in the pool: only `undefineall removes it)
pub const MAKER: &str = "MK_DEFINE";
/// the remover macro of `PpCfg::define_via` (`define RM_UNDEF(n) `undef n; never in the pool)
pub const REMOVER: &str = "RM_UNDEF";
const MACRO_NAMES: &[&str] = &["MA", "MB", "MC", "MD", "ME", "wire", "begin", "M_f", "else_x", "endif_1", "elsif_y", "include_w"];
// formal names: plain ones; names of compiler directives (only *macro* names may not be such); names with a '$'
const FORMAL_SETS: &[&[&str]] = &[&["x", "y", "p_a", "fmt"], &["x", "y", "p_a", "fmt"], &["line", "define", "pragma", "undef"], &["a$b", "x$", "n$1", "_q"]];
const KEPT: &[&str] = &[
    "`timescale 1ns/1ps",
    "`timescale 10 us / 100 ns",
    "`default_nettype none",
    "`default_nettype wire",
    "`celldefine",
    "`endcelldefine",
    "`unconnected_drive pull0",
    "`nounconnected_drive",
    "`line 7 \"orig.v\" 1",
    "`begin_keywords \"1800-2012\"",
    "`begin_keywords \"1364-1995\"",
    "`begin_keywords \"1364-2001-noconfig\"",
    "`end_keywords",
    "`end_keywords",
];
const BLANKS: &[&str] = &[" ", "  ", "\t", " \t", "   ", "\t\t ", " \t  "];

struct G<'a, 'b> {
    t: &'a mut Tape<'b>,
    cfg: PpCfg,
    next_id: usize,
    /// live define table at the point of generation (None value = caller-supplied name without body)
    table: Table,
    files: Vec<SrcFile>,
    resolve: HashMap<String, Option<Resolved>>,
    dir: String,
    include_paths: Vec<String>,
    fault: Option<Fault>,
    k1_sites: usize,
    k2_sites: usize,
    glue_sites: usize,
    /// index of the file being generated
    cur_file: usize,
    include_depth: usize,
    n_inc: usize,
    reincludes: usize,
}

impl<'a, 'b> G<'a, 'b> {
    fn uid(&mut self) -> usize {
        self.next_id += 1;
        self.next_id
    }

    fn blank(&mut self) -> String {
        self.t.pick_str(BLANKS).to_string()
    }

    /// white space between ordinary pieces: blanks, newline or mixtures; never empty
    fn ws(&mut self) -> String {
        match self.t.weighted(&[5, 3, 1, 1]) {
            0 => self.blank(),
            1 => "\n".to_string(),
            2 => format!("\n{}", self.blank()),
            _ => format!("{}\n", self.blank()),
        }
    }

    /// white space that contains a newline first (after directives that end at the line end)
    fn nl(&mut self) -> String {
        match self.t.weighted(&[5, 2, 1]) {
            0 => "\n".to_string(),
            1 => format!("\n{}", self.blank()),
            _ => "\n\n".to_string(),
        }
    }

    fn ident(&mut self) -> String {
        let k = self.uid();
        format!("t{}", k)
    }

    fn text_item(&mut self, live: bool) -> Item {
        let n = 1 + self.t.below(4);
        let mut ps: Vec<(Piece, String)> = Vec::new();
        let mut i = 0;
        while i < n {
            let k = self.t.weighted(&[
                8,
                3,
                1,
                if self.cfg.strings { 2 } else { 0 },
                if self.cfg.strings { 1 } else { 0 },
                if self.cfg.comments { 2 } else { 0 },
            ]);
            match k {
                0 => {
                    let id = self.ident();
                    let w = self.ws();
                    ps.push((Piece::Ident(id), w));
                }
                1 => {
                    let p = self.t.pick_str(&[";", ",", "+", "=", ")", "]", "}", "[", "{", "#", "@", "-", "*", "<=", "'", ":", "."]).to_string();
                    let w = if self.t.flip() { self.ws() } else { String::new() };
                    ps.push((Piece::Punct(p), w));
                }
                2 => {
                    let p = self.t.pick_str(&["42", "8'hFF", "1_000", "3"]).to_string();
                    let w = self.ws();
                    ps.push((Piece::Num(p), w));
                }
                3 | 4 => {
                    // string / escaped identifier; K1 (RC1): what follows must be a plain token, directly or
                    // after a newline-led run, otherwise the implementation emits the trivia twice
                    let k = self.uid();
                    let piece = if k % 2 == 0 || self.t.flip() {
                        let body = self.t.pick_str(&["s{}", "a `MA {}", "// {}", "/* {} */", "é{}", "x\\\"{}", "`define Q{}"]).replace("{}", &k.to_string());
                        Piece::Str(format!("\"{}\"", body))
                    } else {
                        let body = self.t.pick_str(&["e{}", "a+b{}", "`MA{}", "//{}", "\"{}", "é{}"]).replace("{}", &k.to_string());
                        Piece::Esc(format!("\\{}", body))
                    };
                    let is_esc = matches!(piece, Piece::Esc(_));
                    if self.cfg.k1_trigger && live && self.t.chance(1, 2) {
                        self.k1_sites += 1;
                        let w = if self.t.flip() { self.blank() } else { format!("{}\n", self.blank()) };
                        ps.push((piece, w));
                    } else {
                        let w = if is_esc || self.t.flip() { self.t.pick_str(&["\n", "\n ", "\n\t", "\n\n"]).to_string() } else { String::new() };
                        ps.push((piece, w));
                        // mandatory plain follower
                        let id = self.ident();
                        let w2 = self.ws();
                        ps.push((Piece::Ident(id), w2));
                    }
                }
                _ => {
                    let k = self.uid();
                    if self.t.flip() {
                        let body = self.t.pick_str(&[" c{} ", "c{}", " \"c{} ", " `MA c{} ", " é c{} ", "* c{} *", " // c{} "]).replace("{}", &k.to_string());
                        let w = if self.t.flip() { self.ws() } else { String::new() };
                        ps.push((Piece::BlockComment(format!("/*{}*/", body)), w));
                    } else {
                        let body = self.t.pick_str(&[" c{}", "c{}", " \"c{}", " `MA c{}", " /* c{}", " é c{}", " \\"]).replace("{}", &k.to_string());
                        let w = if self.t.flip() { self.blank() } else { String::new() };
                        ps.push((Piece::LineComment(format!("//{}\n", body)), w));
                    }
                }
            }
            i += 1;
        }
        // an item must not end glued to a following directive keyword in a harmful way: end with white space
        if let Some(last) = ps.last_mut() {
            if last.1.is_empty() {
                last.1 = " ".to_string();
                if matches!(last.0, Piece::Str(_) | Piece::Esc(_)) {
                    last.1 = "\n".to_string();
                }
            }
        }
        // K1: a string / escaped identifier must not be the last piece (a directive or comment may follow the item)
        if !self.cfg.k1_trigger || !live {
            if let Some((Piece::Str(_), _)) | Some((Piece::Esc(_), _)) = ps.last() {
                let id = self.ident();
                ps.push((Piece::Ident(id), " ".to_string()));
            }
        }
        Item::Text(ps)
    }

    // ------------------------------------------------------------------------------------ macros

    fn arg_toks(&mut self, depth: usize, allow_use: bool, formals: usize, in_body: bool, below: Option<&str>) -> Vec<ArgTok> {
        let n = 1 + self.t.weighted(&[5, 3, 1]);
        let mut out = Vec::new();
        for _ in 0..n {
            match self.t.weighted(&[6, 2, if depth > 0 { 2 } else { 0 }, if allow_use && depth > 0 { 2 } else { 0 }, if in_body && formals > 0 { 2 } else { 0 }]) {
                0 => {
                    let id = if self.t.chance(1, 5) { self.t.pick_str(&["42", "8'h0F", "+", "-", "=", "*"]).to_string() } else { format!("a{}", self.uid()) };
                    out.push(ArgTok::Tok(id));
                }
                1 => {
                    let k = self.uid();
                    let body = self.t.pick_str(&["s{}", "a,b{}", "(p{}", "q{})", "x y{}", "`MA{}"]).replace("{}", &k.to_string());
                    out.push(ArgTok::Str(format!("\"{}\"", body)));
                    // K1: a string is never the last token of an actual and is followed by a plain token
                    out.push(ArgTok::Tok(format!("a{}", self.uid())));
                }
                2 => {
                    let mut open = *self.t.pick(&['(', '[', '{']);
                    // "`M (" would read the group as M's argument list
                    // also: an actual never starts with "(" — substituted after an object-like usage in a body
                    // it would be read as that macro's argument list on re-scan
                    if (out.is_empty() || matches!(out.last(), Some(ArgTok::Use(u)) if u.args.is_none())) && open == '(' {
                        open = '[';
                    }
                    let mut inner = self.arg_toks(depth - 1, allow_use, formals, in_body, below);
                    if self.t.flip() {
                        inner.push(ArgTok::Comma);
                        inner.extend(self.arg_toks(depth - 1, allow_use, formals, in_body, below));
                    }
                    out.push(ArgTok::Group(open, inner));
                }
                3 => {
                    if let Some(u) = self.usage(depth - 1, below, formals, in_body) {
                        out.push(ArgTok::Use(Box::new(u)));
                    } else {
                        out.push(ArgTok::Tok(format!("a{}", self.uid())));
                    }
                }
                _ => out.push(ArgTok::Formal(self.t.below(formals))),
            }
        }
        out
    }

    /// A well-formed usage of a macro that is live-defined now (index bound: only macros "smaller" than `below`).
    fn usage(&mut self, depth: usize, below: Option<&str>, formals_ctx: usize, in_body: bool) -> Option<Usage> {
        let cands: Vec<String> = self
            .table
            .keys()
            .filter(|k| k.as_str() != MAKER && k.as_str() != REMOVER && k.as_str() != "INCB")
            .filter(|k| match below {
                Some(b) => macro_rank(k) < macro_rank(b),
                None => true,
            })
            .cloned()
            .collect();
        if cands.is_empty() {
            return None;
        }
        let name = cands[self.t.below(cands.len())].clone();
        let def = self.table.get(&name).cloned().flatten();
        let (nformals, formals, has_bt) = match &def {
            Some(d) => (d.def.formals.len(), d.def.formals.clone(), plain_actuals_only(&name)),
            None => (0, vec![], false),
        };
        let args = if nformals == 0 {
            None
        } else {
            let mut args = Vec::new();
            // number of actuals given: all, or fewer when the remaining formals have defaults
            let mut give = nformals;
            while give > 0 && formals[give - 1].default.is_some() && self.t.chance(1, 3) {
                give -= 1;
            }
            if give == 0 {
                give = 1; // "()" is one empty actual
                args.push(Vec::new());
            } else {
                for i in 0..give {
                    if self.t.chance(1, 6) {
                        // empty actual: default or nothing
                        args.push(Vec::new());
                    } else {
                        let allow_use = !has_bt;
                        let mut a = self.arg_toks(depth, allow_use, formals_ctx, in_body, below);
                        if has_bt {
                            // inside `"…`" nested quotes would break the literal: plain tokens only
                            a.retain(|x| matches!(x, ArgTok::Tok(s) if s != "-" && s != "*" && s != "+" && s != "="));
                            if a.is_empty() {
                                a.push(ArgTok::Tok(format!("a{}", self.uid())));
                            }
                        }
                        let _ = i;
                        args.push(a);
                    }
                }
            }
            let _ = give;
            Some(args)
        };
        let ws_before_paren = if args.is_some() && self.t.chance(1, 5) { self.blank() } else { String::new() };
        Some(Usage { name, args, ws_before_paren })
    }

    fn macro_def(&mut self, name: &str, live: bool) -> MacroDef {
        let nf = self.t.weighted(&[4, 3, 2, 1]);
        let formal_names: &[&str] = FORMAL_SETS[self.t.below(FORMAL_SETS.len())];
        let mut formals: Vec<Formal> = Vec::new();
        #[allow(unused_assignments)]
        let mut need_default = false;
        for i in 0..nf {
            let fname = formal_names[i].to_string();
            let with_default = self.t.chance(1, 3);
            let default = if with_default {
                need_default = true;
                Some(self.arg_toks(1, false, 0, false, None))
            } else {
                None
            };
            formals.push(Formal { name: fname, default });
        }
        let body = if self.t.chance(1, 8) {
            None
        } else {
            let n = self.t.below(6);
            let mut b: Vec<BodyTok> = Vec::new();
            let mut used_bt = false;
            if self.cfg.body_escaped_first && self.t.chance(1, 8) {
                // the body starts with an escaped identifier (its backslash is no line continuation); a plain token follows
                b.push(BodyTok::Tok(format!("\\e{}", self.uid())));
                b.push(BodyTok::Sp);
                b.push(BodyTok::Tok(format!("b{}", self.uid())));
            }
            for _ in 0..n {
                let k = self.t.weighted(&[
                    6,
                    if nf > 0 { 5 } else { 0 },
                    if nf > 0 && plain_actuals_only(name) { 3 } else { 0 },
                    if nf > 0 && !used_bt && plain_actuals_only(name) { 2 } else { 0 },
                    2,
                    if live { 3 } else { 1 },
                    1,
                    if self.cfg.comments { 1 } else { 0 },
                ]);
                if !b.is_empty() && !matches!(b.last(), Some(BodyTok::Paste)) {
                    b.push(BodyTok::Sp);
                }
                match k {
                    0 if nf > 0 && self.t.chance(1, 8) => {
                        // an identifier that merely contains a formal's name next to a '$' (w$x, x$): one token, untouched
                        let f = formal_names[self.t.below(nf)];
                        let k = self.uid();
                        let tok = if self.t.flip() { format!("w{}${}", k, f) } else { format!("{}$w{}", f, k) };
                        b.push(BodyTok::Tok(tok));
                    }
                    0 => {
                        let tok = if self.t.chance(1, 5) { self.t.pick_str(&["+", ";", "=", "[", "]", "42", ","]).to_string() } else { format!("b{}", self.uid()) };
                        b.push(BodyTok::Tok(tok));
                    }
                    1 => b.push(BodyTok::Formal(self.t.below(nf))),
                    2 => {
                        // token pasting: ident``formal or formal``ident (no blank around ``)
                        let id = format!("b{}", self.uid());
                        if self.t.flip() {
                            b.push(BodyTok::Tok(id));
                            b.push(BodyTok::Paste);
                            b.push(BodyTok::Formal(self.t.below(nf)));
                        } else {
                            b.push(BodyTok::Formal(self.t.below(nf)));
                            b.push(BodyTok::Paste);
                            b.push(BodyTok::Tok(format!("_{}", id)));
                        }
                    }
                    3 => {
                        used_bt = true;
                        let mut inner = vec![BodyTok::Tok(format!("q{}", self.uid())), BodyTok::Sp, BodyTok::Formal(self.t.below(nf))];
                        if self.t.flip() {
                            inner.push(BodyTok::Sp);
                            inner.push(BodyTok::Tok(format!("q{}", self.uid())));
                        }
                        if self.t.chance(1, 3) {
                            inner.push(BodyTok::BtBsQuote);
                            inner.push(BodyTok::Formal(self.t.below(nf)));
                            inner.push(BodyTok::BtBsQuote);
                        }
                        b.push(BodyTok::BtString(inner));
                        // K1: on re-scan this is a string literal; a plain token must follow it
                        b.push(BodyTok::Sp);
                        b.push(BodyTok::Tok(format!("b{}", self.uid())));
                    }
                    4 => {
                        // ordinary string naming a formal: must stay untouched
                        let f = if nf > 0 { formal_names[self.t.below(nf)] } else { "x" };
                        let k = self.uid();
                        let lit = match if self.cfg.body_string_corners { self.t.below(4) } else { 0 } {
                            // an escaped quote inside the literal, the formal's name behind it
                            1 => format!("\"say \\\"{}\\\" s{} {}\"", f, k, f),
                            // a backtick directly in front of the closing quote
                            2 => format!("\"{} tick{} `\"", f, k),
                            _ => format!("\"{} s{} {}\"", f, k, f),
                        };
                        b.push(BodyTok::Str(lit));
                        b.push(BodyTok::Sp);
                        b.push(BodyTok::Tok(format!("b{}", self.uid())));
                    }
                    5 => {
                        if live {
                            if let Some(u) = self.usage(1, Some(name), nf, true) {
                                b.push(BodyTok::Use(u));
                            } else {
                                b.push(BodyTok::Tok(format!("b{}", self.uid())));
                            }
                        } else {
                            b.push(BodyTok::Tok(format!("b{}", self.uid())));
                        }
                    }
                    6 => b.push(BodyTok::LineCont),
                    _ => {
                        let k = self.uid();
                        b.push(BodyTok::BlockComment(format!("/* bc{} */", k)));
                    }
                }
            }
            // a body must not end with a line continuation (it would swallow the next line)
            while matches!(b.last(), Some(BodyTok::LineCont) | Some(BodyTok::Sp)) {
                b.pop();
            }
            // a body never ends with an argument-less usage: text that follows the expansion (e.g. a parenthesised
            // group after a usage of this macro once it is object-like) would be read as that macro's arguments
            if matches!(b.last(), Some(BodyTok::Use(u)) if u.args.is_none()) {
                b.push(BodyTok::Sp);
                b.push(BodyTok::Tok(format!("b{}", self.uid())));
            }
            Some(b)
        };
        let trailing_comment = if body.as_ref().map(|b| !b.is_empty()).unwrap_or(false) && self.cfg.comments && self.t.chance(1, 6) {
            let k = self.uid();
            Some(format!(" tc{}", k))
        } else {
            None
        };
        let mut d = MacroDef { id: self.uid(), name: name.to_string(), formals, body, trailing_comment };
        if body_has_btstring(&d) {
            // defaults are substituted like actuals: inside `"…`" / next to `` only plain tokens are sound
            for f in d.formals.iter_mut() {
                if let Some(dflt) = &mut f.default {
                    dflt.retain(|x| matches!(x, ArgTok::Tok(_)));
                    if dflt.is_empty() {
                        dflt.push(ArgTok::Tok("dflt".to_string()));
                    }
                }
            }
        }
        d
    }

    // ------------------------------------------------------------------------------------ items

    fn cond_name(&mut self) -> String {
        match self.t.weighted(&[6, 2, if self.cfg.position { 1 } else { 0 }]) {
            0 => {
                // macro names that are SystemVerilog keywords (wire, begin) are legal operands too
                self.t.pick_str(MACRO_NAMES).to_string()
            }
            1 => "UNDEF_Q".to_string(),
            _ => self.t.pick_str(&["__FILE__", "__LINE__"]).to_string(),
        }
    }

    fn cond(&mut self, live: bool, depth: usize) -> Item {
        let ifndef = self.t.flip();
        let mut name = self.cond_name();
        let n_elsif = self.t.weighted(&[5, 3, 1, 1]);
        let predefined = |n: &str| n == "__FILE__" || n == "__LINE__";
        if predefined(&name) && ifndef && n_elsif > 0 {
            // K2 trigger (b): after `ifndef <predefined> every `elsif is taken by the implementation
            if self.cfg.k2_trigger && live {
                self.k2_sites += 1;
            } else {
                name = "MA".to_string();
            }
        }
        let defined_now = |g: &G, n: &str| g.table.contains_key(n) || predefined(n);
        let first = defined_now(self, &name) != ifndef;
        let ws_after_name = self.nl_or_blank();
        let mut taken = false;
        let then = self.items(live && first, depth);
        if first {
            taken = true;
        }
        let mut elsifs = Vec::new();
        for _ in 0..n_elsif {
            let mut n = self.cond_name();
            if predefined(&n) {
                // K2 trigger (a): a predefined name in `elsif position is not recognised
                if self.cfg.k2_trigger && live && !taken {
                    self.k2_sites += 1;
                } else if !(live && !taken) {
                    // dead or already decided: harmless
                } else {
                    n = "MB".to_string();
                }
            }
            let c = defined_now(self, &n);
            let ws = self.nl_or_blank();
            let body_live = live && !taken && c;
            let body = self.items(body_live, depth);
            if !taken && c {
                taken = true;
            }
            elsifs.push((n, ws, body));
        }
        let els = if self.t.flip() {
            let ws = self.nl_or_blank();
            let body = self.items(live && !taken, depth);
            Some((ws, body))
        } else {
            None
        };
        let ws_after_endif = self.ws();
        Item::Cond(Box::new(Cond { ifndef, name, ws_after_name, then, elsifs, els, ws_after_endif }))
    }

    fn nl_or_blank(&mut self) -> String {
        if self.t.chance(1, 4) {
            self.blank()
        } else {
            self.nl()
        }
    }

    fn include_item(&mut self, live: bool, depth: usize) -> Option<Item> {
        if !live {
            // dead: name a file that does not exist anywhere
            let ws = self.nl();
            return Some(Item::Include { id: self.uid(), name: "no_such_file.svh".to_string(), style: IncStyle::Quote, ws_after: ws });
        }
        // include a file a second time: only files made of plain text and `define lines (their effect on the
        // live table is replayed here)
        if self.t.chance(1, 5) {
            let again: Vec<(String, usize)> = self
                .resolve
                .iter()
                .filter_map(|(name, r)| r.as_ref().map(|r| (name.clone(), r.file)))
                .filter(|(_, fi)| *fi != self.cur_file && self.files[*fi].items.iter().all(|it| matches!(it, Item::Text(_) | Item::Define(_, _))) && !self.files[*fi].items.is_empty())
                .collect();
            if !again.is_empty() {
                let mut again = again;
                again.sort();
                let (name, fi) = again[self.t.below(again.len())].clone();
                let defs: Vec<MacroDef> = self.files[fi].items.iter().filter_map(|it| if let Item::Define(d, _) = it { Some(d.clone()) } else { None }).collect();
                for d in defs {
                    if d.name != "__FILE__" && d.name != "__LINE__" {
                        self.table.insert(d.name.clone(), Some(MDef { def: d, origin: DefOrigin::File(fi) }));
                    }
                }
                self.reincludes += 1;
                let ws = self.nl();
                let id = self.uid();
                return Some(Item::Include { id, name, style: IncStyle::Quote, ws_after: ws });
            }
        }
        if self.include_depth >= 3 || self.n_inc >= 6 {
            return None;
        }
        // create a new file
        self.n_inc += 1;
        let k = self.n_inc;
        let name = if self.t.chance(1, 4) { format!("sub/inc{}.svh", k) } else { format!("inc{}.svh", k) };
        // place it in one or two include directories; the first in search order wins
        let ndirs = self.include_paths.len();
        if ndirs == 0 {
            return None;
        }
        let first_dir = self.t.below(ndirs);
        let chosen_path = format!("{}/{}", self.include_paths[first_dir], name);
        let style = match self.t.weighted(&[5, 2, if self.cfg.macros { 2 } else { 0 }]) {
            0 => IncStyle::Quote,
            1 => IncStyle::Angle,
            _ => IncStyle::Macro(String::new()),
        };
        // generate the file content now (defines flow in and out)
        let saved_file = self.cur_file;
        let idx = self.files.len();
        self.files.push(SrcFile { path: chosen_path.clone(), items: Vec::new() });
        self.cur_file = idx;
        self.include_depth += 1;
        let mut items = self.items(true, depth);
        // an included file usually ends with a newline; without one its last token is followed directly by the white
        // space that stands behind the `include directive (which always starts a new line)
        // (not for `include `MACRO: there the white space behind the directive is dropped - listed finding K19 - and the
        // file's last token would run into the includer's next line)
        let last_ws = if self.cfg.file_no_final_newline && !matches!(style, IncStyle::Macro(_)) && self.t.chance(1, 4) { "" } else { "\n" };
        items.push(Item::Text(vec![(Piece::Ident(format!("t{}", self.uid())), last_ws.to_string())]));
        self.include_depth -= 1;
        self.cur_file = saved_file;
        self.files[idx].items = items;
        self.resolve.insert(name.clone(), Some(Resolved { file: idx, opened_as: chosen_path }));
        // decoys: the same name in a later include directory with different content
        if self.cfg.multi_dir {
            for d in (first_dir + 1)..ndirs {
                if self.t.chance(1, 2) {
                    let decoy = format!("{}/{}", self.include_paths[d], name);
                    let id = self.uid();
                    self.files.push(SrcFile {
                        path: decoy,
                        items: vec![Item::Text(vec![(Piece::Ident(format!("decoy{}", id)), "\n".to_string())])],
                    });
                }
            }
        }
        let ws = self.nl();
        let id = self.uid();
        Some(Item::Include { id, name, style, ws_after: ws })
    }

    fn items(&mut self, live: bool, depth: usize) -> Vec<Item> {
        let mut out: Vec<Item> = Vec::new();
        let n = self.t.below(self.cfg.max_items.min(if depth == 0 { 3 } else { self.cfg.max_items }) + 1);
        for _ in 0..n {
            if self.fault.is_some() && live {
                break;
            }
            let w = [
                8,
                if self.cfg.macros { 5 } else { 0 },
                if self.cfg.macros { 5 } else { 0 },
                if self.cfg.macros { 1 } else { 0 },
                if self.cfg.conds && depth > 0 { self.cfg.cond_weight } else { 0 },
                if self.cfg.includes && depth > 0 { 2 } else { 0 },
                if self.cfg.kept { 1 } else { 0 },
                if self.cfg.position { 1 } else { 0 },
                if self.cfg.faults && live && self.fault.is_none() { 1 } else { 0 },
            ];
            match self.t.weighted(&w) {
                0 => {
                    let it = self.text_item(live);
                    out.push(it);
                }
                1 if self.cfg.define_via && live && self.t.chance(1, 5) => {
                    // an `undef produced by expanding the remover macro (seed C11e: the table returned by the nested run
                    // over an expansion must replace, not extend, the current one)
                    if !matches!(self.table.get(REMOVER), Some(Some(_))) {
                        let id = self.uid();
                        let remover = MacroDef {
                            id,
                            name: REMOVER.to_string(),
                            formals: vec![Formal { name: "n".to_string(), default: None }],
                            body: Some(vec![BodyTok::Tok("`undef".to_string()), BodyTok::Sp, BodyTok::Formal(0)]),
                            trailing_comment: None,
                        };
                        self.table.insert(REMOVER.to_string(), Some(MDef { def: remover.clone(), origin: DefOrigin::File(self.cur_file) }));
                        let ws = self.nl();
                        out.push(Item::Define(remover, ws));
                    }
                    let name = self.t.pick_str(MACRO_NAMES).to_string();
                    self.table.remove(&name);
                    let usage = Usage { name: REMOVER.to_string(), args: Some(vec![vec![ArgTok::Tok(name.clone())]]), ws_before_paren: String::new() };
                    let ws = self.nl();
                    out.push(Item::UndefVia(usage, name, ws));
                }
                1 if self.cfg.define_via && live && self.t.chance(1, 3) => {
                    // a `define produced by expanding the maker macro
                    if !matches!(self.table.get(MAKER), Some(Some(_))) {
                        let id = self.uid();
                        let maker = MacroDef {
                            id,
                            name: MAKER.to_string(),
                            formals: vec![Formal { name: "n".to_string(), default: None }, Formal { name: "v".to_string(), default: None }],
                            body: Some(vec![BodyTok::Tok("`define".to_string()), BodyTok::Sp, BodyTok::Formal(0), BodyTok::Sp, BodyTok::Formal(1)]),
                            trailing_comment: None,
                        };
                        self.table.insert(MAKER.to_string(), Some(MDef { def: maker.clone(), origin: DefOrigin::File(self.cur_file) }));
                        let ws = self.nl();
                        out.push(Item::Define(maker, ws));
                    }
                    let name = self.t.pick_str(MACRO_NAMES).to_string();
                    let k = 1 + self.t.below(3);
                    let mut body: Vec<BodyTok> = Vec::new();
                    let mut actual: Vec<ArgTok> = Vec::new();
                    for i in 0..k {
                        let tok = format!("g{}", self.uid());
                        if i > 0 {
                            body.push(BodyTok::Sp);
                        }
                        body.push(BodyTok::Tok(tok.clone()));
                        actual.push(ArgTok::Tok(tok));
                    }
                    let id = self.uid();
                    let def = MacroDef { id, name: name.clone(), formals: vec![], body: Some(body), trailing_comment: None };
                    self.table.insert(name.clone(), Some(MDef { def: def.clone(), origin: DefOrigin::File(self.cur_file) }));
                    let usage = Usage { name: MAKER.to_string(), args: Some(vec![vec![ArgTok::Tok(name)], actual]), ws_before_paren: String::new() };
                    // the produced `define runs to the end of its line
                    let ws = self.nl();
                    out.push(Item::DefineVia(usage, def, ws));
                }
                1 => {
                    // `define
                    let name = self.t.pick_str(MACRO_NAMES).to_string();
                    let d = self.macro_def(&name, live);
                    if live {
                        self.table.insert(name.clone(), Some(MDef { def: d.clone(), origin: DefOrigin::File(self.cur_file) }));
                    }
                    let ws = self.nl();
                    out.push(Item::Define(d, ws));
                }
                2 => {
                    // usage
                    if live {
                        if let Some(u) = self.usage(2, None, 0, false) {
                            let has_args = u.args.is_some();
                            let ws = self.ws();
                            out.push(Item::Use(u, ws));
                            // the token after an object-like usage must not open a parenthesis
                            if !has_args {
                                let id = self.ident();
                                let w = self.ws();
                                out.push(Item::Text(vec![(Piece::Ident(id), w)]));
                            }
                        }
                    } else {
                        // dead: anything lexically well formed, e.g. an undefined macro with arguments
                        let dead_name = self.t.pick_str(&["NOT_DEFINED_ANYWHERE", "NOT_DEFINED_ANYWHERE", "endif_nowhere", "else_nowhere", "elsif_nowhere"]).to_string();
                        let u = Usage { name: dead_name, args: Some(vec![vec![ArgTok::Tok("z".to_string())]]), ws_before_paren: String::new() };
                        let ws = self.ws();
                        out.push(Item::Use(u, ws));
                    }
                }
                3 => {
                    if self.t.chance(1, 4) {
                        if live {
                            self.table.clear();
                        }
                        let ws = self.ws();
                        out.push(Item::UndefineAll(ws));
                    } else {
                        let name = self.t.pick_str(MACRO_NAMES).to_string();
                        if live {
                            self.table.remove(&name);
                        }
                        let ws = self.ws();
                        out.push(Item::Undef(name, ws));
                    }
                }
                4 => {
                    let c = self.cond(live, depth - 1);
                    out.push(c);
                }
                5 => {
                    if let Some(mut it) = self.include_item(live, depth - 1) {
                        // `include `MACRO: define the macro just before (its body is the quoted name)
                        if let Item::Include { name, style: IncStyle::Macro(m), .. } = &mut it {
                            let mname = "INCF".to_string();
                            *m = mname.clone();
                            let d = MacroDef {
                                id: self.uid(),
                                name: mname.clone(),
                                formals: vec![],
                                body: Some(vec![BodyTok::Str(format!("\"{}\"", name))]),
                                trailing_comment: None,
                            };
                            self.table.insert(mname, Some(MDef { def: d.clone(), origin: DefOrigin::File(self.cur_file) }));
                            out.push(Item::Define(d, "\n".to_string()));
                        }
                        // the whole directive as the body of a macro that is used here
                        if self.cfg.include_via_body && live {
                            if let Item::Include { name, style, .. } = &mut it {
                                if matches!(style, IncStyle::Quote) && self.t.chance(1, 3) {
                                    let mname = "INCB".to_string();
                                    *style = IncStyle::ViaBody(mname.clone());
                                    let d = MacroDef {
                                        id: self.uid(),
                                        name: mname.clone(),
                                        formals: vec![],
                                        body: Some(vec![BodyTok::Tok("`include".to_string()), BodyTok::Sp, BodyTok::Str(format!("\"{}\"", name))]),
                                        trailing_comment: None,
                                    };
                                    self.table.insert(mname, Some(MDef { def: d.clone(), origin: DefOrigin::File(self.cur_file) }));
                                    out.push(Item::Define(d, "\n".to_string()));
                                }
                            }
                        }
                        // the directive must stand on its own line: make sure the previous item ends with a newline
                        ensure_trailing_newline(&mut out);
                        out.push(it);
                    }
                }
                6 => {
                    let k = self.t.pick_str(KEPT).to_string();
                    let ws = self.ws();
                    out.push(Item::Kept(k, ws));
                }
                7 => {
                    if self.t.flip() {
                        let ws = self.ws();
                        out.push(Item::FileMacro(ws));
                    } else {
                        let ws = self.ws();
                        let id = self.uid();
                        out.push(Item::LineMacro { id, ws_after: ws });
                    }
                }
                _ => {
                    // inject one fault
                    match self.t.below(4) {
                        0 => {
                            let name = "NEVER_DEF".to_string();
                            self.fault = Some(Fault::UndefinedUse(name.clone()));
                            let ws = self.ws();
                            out.push(Item::Use(Usage { name, args: None, ws_before_paren: String::new() }, ws));
                        }
                        1 | 2 => {
                            // a macro with formals, used without list or with a missing required actual
                            let with: Vec<(String, MDef)> = self
                                .table
                                .iter()
                                .filter_map(|(k, v)| v.clone().map(|d| (k.clone(), d)))
                                .filter(|(_, d)| !d.def.formals.is_empty())
                                .collect();
                            if with.is_empty() {
                                continue;
                            }
                            let (name, d) = with[self.t.below(with.len())].clone();
                            let nf = d.def.formals.len();
                            let first_required_missing = (0..nf).rev().find(|i| d.def.formals[*i].default.is_none());
                            if let (true, Some(last_req)) = (self.t.flip(), first_required_missing) {
                                if last_req == 0 {
                                    // cannot give fewer than one actual ("()" is one empty actual): use the no-list fault
                                    self.fault = Some(Fault::MissingArgList(name.clone()));
                                    let ws = format!(" ;{}", self.ws());
                                    out.push(Item::Use(Usage { name, args: None, ws_before_paren: String::new() }, ws));
                                } else {
                                    // give actuals only for formals before the last required one
                                    let give = last_req;
                                    // the first formal without default at index >= give is reported
                                    let missing = (give..nf).find(|i| d.def.formals[*i].default.is_none()).unwrap();
                                    let mut args = Vec::new();
                                    for _ in 0..give {
                                        args.push(vec![ArgTok::Tok(format!("a{}", self.uid()))]);
                                    }
                                    self.fault = Some(Fault::MissingActual(d.def.formals[missing].name.clone()));
                                    let ws = self.ws();
                                    out.push(Item::Use(Usage { name, args: Some(args), ws_before_paren: String::new() }, ws));
                                }
                            } else {
                                self.fault = Some(Fault::MissingArgList(name.clone()));
                                let ws = format!(" ;{}", self.ws());
                                out.push(Item::Use(Usage { name, args: None, ws_before_paren: String::new() }, ws));
                            }
                        }
                        _ => {
                            if self.cfg.includes {
                                let name = "missing_file.svh".to_string();
                                self.fault = Some(Fault::MissingInclude(name.clone()));
                                self.resolve.insert(name.clone(), None);
                                ensure_trailing_newline(&mut out);
                                let ws = self.nl();
                                let id = self.uid();
                                out.push(Item::Include { id, name, style: IncStyle::Quote, ws_after: ws });
                            }
                        }
                    }
                }
            }
        }
        out
    }
}

pub fn ensure_trailing_newline(out: &mut Vec<Item>) {
    if out.is_empty() {
        // first item of a branch / file: the line may be shared with the `ifdef header, so start a fresh line
        out.push(Item::Text(vec![(Piece::BlockComment("/* nl */".to_string()), "\n".to_string())]));
        return;
    }
    let needs = match out.last() {
        None => false,
        Some(Item::Text(ps)) => !ps.last().map(|p| p.1.ends_with('\n') || p.0.text().ends_with('\n')).unwrap_or(true),
        Some(Item::Kept(_, ws)) | Some(Item::Define(_, ws)) | Some(Item::Undef(_, ws)) | Some(Item::UndefineAll(ws)) | Some(Item::Resetall(ws)) => !ws.ends_with('\n'),
        Some(Item::Cond(c)) => !c.ws_after_endif.ends_with('\n'),
        Some(Item::Include { ws_after, .. }) => !ws_after.ends_with('\n'),
        Some(Item::Use(_, ws)) | Some(Item::DefineVia(_, _, ws)) | Some(Item::UndefVia(_, _, ws)) => !ws.ends_with('\n'),
        Some(Item::FileMacro(ws)) => !ws.ends_with('\n'),
        Some(Item::LineMacro { ws_after, .. }) => !ws_after.ends_with('\n'),
    };
    if needs {
        match out.last_mut() {
            Some(Item::Text(ps)) => {
                if let Some(p) = ps.last_mut() {
                    p.1.push('\n');
                }
            }
            Some(Item::Kept(_, ws)) | Some(Item::Define(_, ws)) | Some(Item::Undef(_, ws)) | Some(Item::UndefineAll(ws)) | Some(Item::Resetall(ws)) => ws.push('\n'),
            Some(Item::Cond(c)) => c.ws_after_endif.push('\n'),
            Some(Item::Include { ws_after, .. }) => ws_after.push('\n'),
            Some(Item::Use(_, ws)) | Some(Item::DefineVia(_, _, ws)) | Some(Item::UndefVia(_, _, ws)) => ws.push('\n'),
            Some(Item::FileMacro(ws)) => ws.push('\n'),
            Some(Item::LineMacro { ws_after, .. }) => ws_after.push('\n'),
            None => {}
        }
    }
}

pub fn macro_rank(name: &str) -> usize {
    MACRO_NAMES.iter().position(|n| *n == name).unwrap_or(usize::MAX)
}

/// Macros of these names may use `"…`" and ``; every usage of them (whatever the definition current at that
/// point) gets plain-token actuals only, because text substituted into a string literal or pasted onto a
/// neighbour must not contain macro usages, quotes or formals of an enclosing macro.
pub fn plain_actuals_only(name: &str) -> bool {
    name == "MD" || name == "ME"
}

pub fn body_has_btstring(d: &MacroDef) -> bool {
    // also true for token pasting: pasting onto a substituted `NAME would create a new macro name
    d.body.as_ref().map(|b| b.iter().any(|x| matches!(x, BodyTok::BtString(_) | BodyTok::Paste))).unwrap_or(false)
}

/// Generate a case whose files live under `dir` (not written yet).
/// Strip the white space between a plain token and a directly following conditional directive (every second such
/// site), recursively through the branches. Returns the number of sites changed.
fn glue_pass(items: &mut Vec<Item>, t: &mut Tape) -> usize {
    let mut n = 0;
    for i in 0..items.len() {
        let next_is_cond = matches!(items.get(i + 1), Some(Item::Cond(_)));
        match &mut items[i] {
            Item::Text(ps) if next_is_cond => {
                if let Some((piece, ws)) = ps.last_mut() {
                    if matches!(piece, Piece::Ident(_) | Piece::Num(_) | Piece::Punct(_)) && t.flip() {
                        ws.clear();
                        n += 1;
                    }
                }
            }
            Item::Cond(c) => {
                n += glue_pass(&mut c.then, t);
                for (_, _, body) in c.elsifs.iter_mut() {
                    n += glue_pass(body, t);
                }
                if let Some((_, body)) = c.els.as_mut() {
                    n += glue_pass(body, t);
                }
            }
            _ => {}
        }
    }
    n
}

pub fn generate(t: &mut Tape, cfg: &PpCfg, dir: &str) -> Case {
    let n_paths = if cfg.includes { 1 + t.below(3) } else { 0 };
    let mut include_paths: Vec<String> = (0..3).map(|i| format!("{}/d{}", dir, i)).collect();
    // random order of the include directories
    for i in (1..include_paths.len()).rev() {
        let j = t.below(i + 1);
        include_paths.swap(i, j);
    }
    include_paths.truncate(n_paths);
    let mut g = G {
        t,
        cfg: cfg.clone(),
        next_id: 0,
        table: Table::new(),
        files: vec![SrcFile { path: format!("{}/top.sv", dir), items: Vec::new() }],
        resolve: HashMap::new(),
        dir: dir.to_string(),
        include_paths,
        fault: None,
        k1_sites: 0,
        k2_sites: 0,
        glue_sites: 0,
        cur_file: 0,
        include_depth: 0,
        n_inc: 0,
        reincludes: 0,
    };
    // caller-supplied defines
    let mut initial = Table::new();
    if cfg.caller_defines {
        let n = g.t.weighted(&[4, 3, 2, 1]);
        for _ in 0..n {
            let name = g.t.pick_str(&["MA", "MB", "MC", "CALLER_X", "M_f"]).to_string();
            if g.t.chance(1, 3) {
                initial.insert(name, None);
            } else {
                let mut d = g.macro_def(&name, false);
                d.trailing_comment = None;
                d.id = 0;
                initial.insert(name.clone(), Some(MDef { def: d, origin: DefOrigin::Caller }));
            }
        }
    }
    g.table = initial.clone();
    let depth = cfg.max_depth;
    let mut items = g.items(true, depth);
    if cfg.glue {
        g.glue_sites = glue_pass(&mut items, g.t);
    }
    if items.is_empty() {
        items.push(Item::Text(vec![(Piece::Ident("t0".to_string()), "\n".to_string())]));
    }
    g.files[0].items = items;
    let files = g.files;
    let mut rendered = Vec::new();
    let mut lines = HashMap::new();
    for f in &files {
        let r = render_file(f);
        for (k, v) in &r.line_of {
            lines.insert(*k, *v);
        }
        rendered.push(r);
    }
    Case {
        files,
        rendered,
        resolve: g.resolve,
        include_paths: g.include_paths,
        initial,
        lines,
        fault: g.fault,
        k1_sites: g.k1_sites,
        k2_sites: g.k2_sites,
        glue_sites: g.glue_sites,
        reincludes: g.reincludes,
        dir: g.dir,
    }
}
