//! Committed list of known findings (<root>/known_findings.json); never written at run time.

use serde_json::Value;
use std::path::Path;

#[derive(Clone, Debug)]
pub struct Finding {
    pub id: String,
    pub property: String,
    pub status: String, // "known" | "fixed"
    pub what: String,
    pub signature: String,
    pub witness: Value,
    /// the whole entry (for finding-specific fields such as a rate profile)
    pub raw: Value,
}

#[derive(Default)]
pub struct Findings {
    pub all: Vec<Finding>,
}

impl Findings {
    pub fn load(root: &Path) -> Findings {
        let mut out = Findings::default();
        let text = match std::fs::read_to_string(root.join("known_findings.json")) {
            Ok(t) => t,
            Err(_) => return out,
        };
        let v: Value = match serde_json::from_str(&text) {
            Ok(v) => v,
            Err(e) => {
                eprintln!("known_findings.json does not parse: {}", e);
                std::process::exit(2);
            }
        };
        if let Some(list) = v["findings"].as_array() {
            for f in list {
                let props: Vec<String> = match &f["property"] {
                    Value::String(s) => vec![s.clone()],
                    Value::Array(a) => a.iter().filter_map(|x| x.as_str().map(|s| s.to_string())).collect(),
                    _ => vec![],
                };
                for p in props {
                    // a finding that shows in several properties may list one witness per property
                    let witness = if f["witness_by_property"][&p].is_object() { f["witness_by_property"][&p].clone() } else { f["witness"].clone() };
                    out.all.push(Finding {
                        id: f["id"].as_str().unwrap_or("").to_string(),
                        property: p,
                        status: f["status"].as_str().unwrap_or("").to_string(),
                        what: f["what"].as_str().unwrap_or("").to_string(),
                        signature: f["signature"].as_str().unwrap_or("").to_string(),
                        witness,
                        raw: f.clone(),
                    });
                }
            }
        }
        out
    }

    pub fn for_property<'a>(&'a self, prop: &'a str) -> impl Iterator<Item = &'a Finding> + 'a {
        self.all.iter().filter(move |f| f.property == prop)
    }

    /// Is finding `id` listed as *known* (i.e. to be classified, not alarmed on) for `prop`?
    pub fn is_known(&self, prop: &str, id: &str) -> bool {
        self.all.iter().any(|f| f.property == prop && f.id == id && f.status == "known")
    }
}
