//! Thin wrappers around the public API of sv-parser plus the shared tree oracles
//! (tiling checker 4.1, skeletons 4.5).

use serde_json::{json, Value};
use std::collections::HashMap;
use std::path::{Path, PathBuf};
pub use sv_parser::{
    parse_lib, parse_lib_pp, parse_lib_str, parse_sv, parse_sv_pp, parse_sv_str, preprocess, preprocess_str, Define, DefineText, Defines,
    Error, Locate, NodeEvent, PreprocessedText, RefNode, SyntaxTree,
};

pub type Defs = HashMap<String, Option<Define>>;

pub fn no_incs() -> Vec<PathBuf> {
    Vec::new()
}

pub fn pp(
    s: &str,
    path: &Path,
    defs: &Defs,
    incs: &[PathBuf],
    ignore_include: bool,
    strip_comments: bool,
) -> Result<(PreprocessedText, Defs), Error> {
    preprocess_str(s, path, defs, incs, ignore_include, strip_comments, 0, 0)
}

pub fn pp_plain(s: &str) -> Result<(PreprocessedText, Defs), Error> {
    pp(s, Path::new("top.sv"), &HashMap::new(), &no_incs(), false, false)
}

#[derive(Clone, Copy, PartialEq, Eq, Debug)]
pub enum Grammar {
    Sv,
    Lib,
}

pub fn parse_pp(
    g: Grammar,
    text: PreprocessedText,
    defs: Defs,
    incomplete: bool,
) -> Result<(SyntaxTree, Defs), Error> {
    match g {
        Grammar::Sv => parse_sv_pp(text, defs, incomplete),
        Grammar::Lib => parse_lib_pp(text, defs, incomplete),
    }
}

/// preprocess (no files involved) then parse; returns the preprocessed text as an owned string
/// obtained *before* parsing, so the caller owns exactly the string the tree indexes.
pub fn parse_text(g: Grammar, src: &str, incomplete: bool) -> Result<(SyntaxTree, String), Error> {
    let (ppt, defs) = pp_plain(src)?;
    let text = ppt.text().to_string();
    let (tree, _) = parse_pp(g, ppt, defs, incomplete)?;
    Ok((tree, text))
}

pub fn err_kind(e: &Error) -> String {
    match e {
        Error::Io(_) => "Io".into(),
        Error::File { path, .. } => format!("File({})", path.display()),
        Error::ReadUtf8(p) => format!("ReadUtf8({})", p.display()),
        Error::Include { source } => format!("Include[{}]", err_kind(source)),
        Error::Parse(x) => format!("Parse({:?})", x),
        Error::Preprocess(x) => format!("Preprocess({:?})", x),
        Error::DefineArgNotFound(x) => format!("DefineArgNotFound({})", x),
        Error::DefineNotFound(x) => format!("DefineNotFound({})", x),
        Error::DefineNoArgs(x) => format!("DefineNoArgs({})", x),
        Error::ExceedRecursiveLimit => "ExceedRecursiveLimit".into(),
        Error::IncludeLine => "IncludeLine".into(),
    }
}

pub fn kind(n: &RefNode) -> String {
    format!("{}", n)
}

/// CamelCase -> snake_case ("JoinAny" -> "join_any", "Unique0" -> "unique0")
pub fn snake(v: &str) -> String {
    let mut out = String::new();
    for (i, c) in v.chars().enumerate() {
        if c.is_ascii_uppercase() {
            if i > 0 {
                out.push('_');
            }
            out.push(c.to_ascii_lowercase());
        } else {
            out.push(c);
        }
    }
    out
}

/// Enum nodes whose whole content is one keyword: (node kind, variant name, keyword text, offset).
/// The variant is read from the node's Debug form ("DataType(Chandle(Keyword {…").
pub fn keyword_variants<'a>(tree: &'a SyntaxTree, text: &'a str) -> Vec<(String, String, &'a str, usize)> {
    let mut out = Vec::new();
    for n in tree {
        if matches!(n, RefNode::Keyword(_) | RefNode::Locate(_) | RefNode::WhiteSpace(_)) {
            continue;
        }
        // pattern: Enter(n) Enter(Keyword) … Leave(Keyword) Leave(n)
        let mut ev = n.clone().into_iter().event();
        let _ = ev.next();
        let kw = match ev.next() {
            Some(NodeEvent::Enter(RefNode::Keyword(k))) => &k.nodes.0,
            Some(NodeEvent::Enter(RefNode::Symbol(k))) => &k.nodes.0,
            _ => continue,
        };
        let mut depth = 1usize;
        let mut only = false;
        while let Some(e) = ev.next() {
            match e {
                NodeEvent::Enter(_) => depth += 1,
                NodeEvent::Leave(_) => {
                    depth -= 1;
                    if depth == 0 {
                        only = matches!(ev.next(), Some(NodeEvent::Leave(_))) && ev.next().is_none();
                        break;
                    }
                }
            }
        }
        if !only {
            continue;
        }
        let dbg = format!("{:?}", n);
        // "Kind(Variant(Keyword" : an enum variant wrapping just the keyword
        let mut parts = dbg.splitn(3, '(');
        let (_kind, variant, rest) = (parts.next().unwrap_or(""), parts.next().unwrap_or(""), parts.next().unwrap_or(""));
        if !(rest.starts_with("Keyword") || rest.starts_with("Symbol")) || variant.is_empty() || !variant.chars().all(|c| c.is_ascii_alphanumeric()) {
            continue;
        }
        let l = kw;
        out.push((kind(&n), variant.to_string(), &text[l.offset..l.offset + l.len], l.offset));
    }
    out
}

pub fn clip(s: &str, n: usize) -> String {
    if s.len() <= n {
        s.to_string()
    } else {
        let mut e = n;
        while !s.is_char_boundary(e) {
            e -= 1;
        }
        format!("{}…[{} bytes]", &s[..e], s.len())
    }
}

// ---------------------------------------------------------------------------------------------
// Tiling checker

#[derive(Default, Debug, Clone)]
pub struct TileReport {
    pub leaves: usize,
    pub nodes: usize,
    pub covered: usize,
    pub ws_leaves: usize,
    pub comment_nodes: usize,
    pub directive_nodes: usize,
    pub node_checks: usize,
}

/// Check property C01 on `tree` whose preprocessed text is `text`.
/// strict = the whole text must be covered; otherwise a prefix.
/// `node_budget`: get_str is compared for all nodes if the tree has at most that many, otherwise
/// for every k-th node with k chosen so that about `node_budget` nodes are checked.
pub fn check_tiling(tree: &SyntaxTree, text: &str, strict: bool, node_budget: usize) -> Result<TileReport, (String, Value)> {
    let mut rep = TileReport::default();
    // pass 1: plain iteration, leaves in order
    let mut leaves: Vec<Locate> = Vec::new();
    let mut prev_end = 0usize;
    let mut line = 1u32;
    let mut concat = String::new();
    for n in tree {
        rep.nodes += 1;
        match &n {
            RefNode::Locate(l) => {
                let l: Locate = **l;
                if l.len == 0 {
                    return Err((format!("empty leaf at offset {}", l.offset), json!({"offset": l.offset})));
                }
                if l.offset != prev_end {
                    return Err((
                        format!(
                            "leaf #{} starts at {} but the previous leaf ended at {} ({})",
                            leaves.len(),
                            l.offset,
                            prev_end,
                            if l.offset > prev_end { "gap" } else { "overlap" }
                        ),
                        json!({"leaf_index": leaves.len(), "offset": l.offset, "prev_end": prev_end}),
                    ));
                }
                let end = l.offset + l.len;
                if end > text.len() {
                    return Err((format!("leaf {}..{} runs past the text ({} bytes)", l.offset, end, text.len()), json!({})));
                }
                if !text.is_char_boundary(l.offset) || !text.is_char_boundary(end) {
                    return Err((format!("leaf {}..{} not on character boundaries", l.offset, end), json!({})));
                }
                if l.line != line {
                    return Err((
                        format!("leaf at {} has line {} but {} newlines precede it", l.offset, l.line, line - 1),
                        json!({"offset": l.offset, "line": l.line, "expected": line}),
                    ));
                }
                let piece = &text[l.offset..end];
                line += piece.bytes().filter(|b| *b == b'\n').count() as u32;
                match tree.get_str(&l) {
                    Some(s) if s == piece => {}
                    other => {
                        return Err((
                            format!("get_str(leaf at {}) = {:?}, text slice = {:?}", l.offset, other, piece),
                            json!({}),
                        ))
                    }
                }
                concat.push_str(piece);
                prev_end = end;
                leaves.push(l);
            }
            RefNode::Comment(_) => rep.comment_nodes += 1,
            RefNode::CompilerDirective(_) => rep.directive_nodes += 1,
            _ => {}
        }
    }
    rep.leaves = leaves.len();
    rep.covered = prev_end;
    if strict && prev_end != text.len() {
        return Err((
            format!("leaves cover {} bytes of a {}-byte text in strict mode", prev_end, text.len()),
            json!({"covered": prev_end, "len": text.len()}),
        ));
    }
    if concat != text[..prev_end] {
        return Err(("concatenated leaves differ from the text prefix".to_string(), json!({})));
    }
    // pass 2: per-node get_str against the span of the node's own leaves (from the event nesting)
    let stride = if rep.nodes <= node_budget { 1 } else { (rep.nodes / node_budget.max(1)).max(1) };
    let mut stack: Vec<(RefNode, usize, usize)> = Vec::new(); // node, leaves seen at enter, node index
    let mut seen = 0usize;
    let mut idx = 0usize;
    for ev in tree.into_iter().event() {
        match ev {
            NodeEvent::Enter(n) => {
                if let RefNode::Locate(_) = n {
                    stack.push((n, seen, idx));
                    seen += 1;
                } else {
                    stack.push((n, seen, idx));
                }
                idx += 1;
            }
            NodeEvent::Leave(n) => {
                let (m, first, i) = match stack.pop() {
                    Some(x) => x,
                    None => return Err(("Leave without Enter".to_string(), json!({}))),
                };
                if m != n {
                    return Err((format!("Leave({}) closes Enter({})", kind(&n), kind(&m)), json!({})));
                }
                if i % stride != 0 {
                    continue;
                }
                rep.node_checks += 1;
                let got = tree.get_str(vec![n.clone()]);
                if first == seen {
                    if got.is_some() {
                        return Err((format!("get_str of leafless {} is {:?}", kind(&n), got), json!({})));
                    }
                } else {
                    if seen > leaves.len() {
                        return Err(("event view visits more leaves than plain iteration".to_string(), json!({})));
                    }
                    let b = leaves[first].offset;
                    let e = leaves[seen - 1].offset + leaves[seen - 1].len;
                    let want = &text[b..e];
                    if got != Some(want) {
                        return Err((
                            format!("get_str({}) = {:?} but its leaves span {}..{} = {:?}", kind(&n), got.map(|s| clip(s, 80)), b, e, clip(want, 80)),
                            json!({"node": kind(&n), "begin": b, "end": e}),
                        ));
                    }
                }
            }
        }
    }
    if !stack.is_empty() {
        return Err(("event stream ended with open nodes".to_string(), json!({})));
    }
    if seen != leaves.len() {
        return Err((format!("event view visited {} leaves, plain iteration {}", seen, leaves.len()), json!({})));
    }
    Ok(rep)
}

// ---------------------------------------------------------------------------------------------
// Skeletons

/// Pre-order list of node kinds and leaf texts with everything under WhiteSpace dropped.
pub fn skeleton(tree: &SyntaxTree, text: &str) -> Vec<String> {
    let mut out = Vec::new();
    let mut skip_depth = 0usize;
    for ev in tree.into_iter().event() {
        match ev {
            NodeEvent::Enter(n) => {
                if skip_depth > 0 {
                    skip_depth += 1;
                    continue;
                }
                match n {
                    RefNode::WhiteSpace(_) => skip_depth = 1,
                    RefNode::Locate(l) => out.push(format!("'{}", &text[l.offset..l.offset + l.len])),
                    n => out.push(kind(&n)),
                }
            }
            NodeEvent::Leave(_) => {
                if skip_depth > 0 {
                    skip_depth -= 1;
                }
            }
        }
    }
    out
}

/// Same with whitespace kept and leaf positions included.
pub fn skeleton_ws(tree: &SyntaxTree, text: &str) -> Vec<String> {
    let mut out = Vec::new();
    for n in tree {
        match n {
            RefNode::Locate(l) => out.push(format!("'{}@{}+{}L{}", &text[l.offset..l.offset + l.len], l.offset, l.len, l.line)),
            n => out.push(kind(&n)),
        }
    }
    out
}

pub fn first_diff(a: &[String], b: &[String]) -> Option<(usize, String, String)> {
    let n = a.len().min(b.len());
    for i in 0..n {
        if a[i] != b[i] {
            return Some((i, a[i].clone(), b[i].clone()));
        }
    }
    if a.len() != b.len() {
        return Some((n, a.get(n).cloned().unwrap_or("<end>".into()), b.get(n).cloned().unwrap_or("<end>".into())));
    }
    None
}

// ---------------------------------------------------------------------------------------------
// Raw parser access with the verification hooks (memo capacity, recursion-aware key)

pub use sv_parser_parser::verif_hooks as hooks;

#[derive(Clone, Debug, PartialEq)]
pub enum RawTree {
    Sv(sv_parser::SourceText),
    Lib(sv_parser::LibraryText),
}

/// Parse `text` (already preprocessed) with the raw parser under the given memo configuration.
/// The configuration of the calling thread is restored to the production defaults afterwards.
pub fn raw_parse(g: Grammar, text: &str, capacity: Option<usize>, rec_key: bool) -> (Option<RawTree>, hooks::Counters) {
    use sv_parser_parser::{lib_parser, sv_parser, Span, SpanInfo};
    hooks::set_capacity(capacity);
    hooks::set_key_includes_recursion_flags(rec_key);
    hooks::reset_counters();
    let span = Span::new_extra(text, SpanInfo::default());
    let r = match g {
        Grammar::Sv => sv_parser(span).ok().map(|(_, x)| RawTree::Sv(x)),
        Grammar::Lib => lib_parser(span).ok().map(|(_, x)| RawTree::Lib(x)),
    };
    let c = hooks::counters();
    hooks::set_capacity(hooks::DEFAULT_CAPACITY);
    hooks::set_key_includes_recursion_flags(false);
    (r, c)
}

#[derive(Clone, Copy, Debug, PartialEq)]
pub enum K3Verdict {
    Explained,
    NotExplained,
    Inconclusive,
}

/// Is the rejection of the (already preprocessed) `text` by the production parser an instance of listed finding K3
/// as it shows outside C17? Signature: the production configuration (capacity 1024, production key) rejects, the
/// unbounded table accepts, and the unbounded table with the recursion flags in the key accepts as well.
pub fn k3_explains_rejection(g: Grammar, text: &str) -> K3Verdict {
    const BUDGET: u64 = 30_000_000;
    match raw_parse_budget(g, text, hooks::DEFAULT_CAPACITY, false, Some(BUDGET)).0 {
        MemoOutcome::Accepted(_) => return K3Verdict::NotExplained,
        MemoOutcome::Budget => return K3Verdict::Inconclusive,
        MemoOutcome::Rejected => {}
    }
    match raw_parse_budget(g, text, None, false, Some(BUDGET)).0 {
        MemoOutcome::Rejected => return K3Verdict::NotExplained,
        MemoOutcome::Budget => return K3Verdict::Inconclusive,
        MemoOutcome::Accepted(_) => {}
    }
    match raw_parse_budget(g, text, None, true, Some(BUDGET)).0 {
        MemoOutcome::Rejected => K3Verdict::NotExplained,
        MemoOutcome::Budget => K3Verdict::Inconclusive,
        MemoOutcome::Accepted(_) => K3Verdict::Explained,
    }
}

/// Raw parse (strict or incomplete mode) of preprocessed text under the thread's current memo configuration:
/// tree and number of bytes consumed.
pub fn raw_mode(g: Grammar, text: &str, incomplete: bool) -> Option<(RawTree, usize)> {
    use sv_parser_parser::{lib_parser, lib_parser_incomplete, sv_parser, sv_parser_incomplete, Span, SpanInfo};
    let span = Span::new_extra(text, SpanInfo::default());
    match (g, incomplete) {
        (Grammar::Sv, false) => sv_parser(span).ok().map(|(r, x)| (RawTree::Sv(x), text.len() - r.fragment().len())),
        (Grammar::Sv, true) => sv_parser_incomplete(span).ok().map(|(r, x)| (RawTree::Sv(x), text.len() - r.fragment().len())),
        (Grammar::Lib, false) => lib_parser(span).ok().map(|(r, x)| (RawTree::Lib(x), text.len() - r.fragment().len())),
        (Grammar::Lib, true) => lib_parser_incomplete(span).ok().map(|(r, x)| (RawTree::Lib(x), text.len() - r.fragment().len())),
    }
}

/// Raw parse under a given memo configuration (the thread's configuration is restored afterwards).
pub fn raw_cfg(g: Grammar, text: &str, incomplete: bool, capacity: Option<usize>, rec_key: bool) -> Option<(RawTree, usize)> {
    hooks::set_capacity(capacity);
    hooks::set_key_includes_recursion_flags(rec_key);
    let r = raw_mode(g, text, incomplete);
    hooks::set_capacity(hooks::DEFAULT_CAPACITY);
    hooks::set_key_includes_recursion_flags(false);
    r
}

/// Does listed finding K3 touch one of the parses this case consists of? True iff for one of them the production
/// configuration (capacity 1024, production key) gives a result that differs from the unbounded table's, while the
/// unbounded table gives the same result under both keys (the signature used by C02 / C12, per parse).
pub fn k3_touches(g: Grammar, parses: &[(&str, bool)]) -> bool {
    for (text, incomplete) in parses {
        let production = raw_cfg(g, text, *incomplete, hooks::DEFAULT_CAPACITY, false);
        let unbounded = raw_cfg(g, text, *incomplete, None, false);
        if production != unbounded {
            let aware = raw_cfg(g, text, *incomplete, None, true);
            if aware == unbounded {
                return true;
            }
        }
    }
    false
}


#[derive(Clone, Debug, PartialEq)]
pub enum MemoOutcome {
    Accepted(RawTree),
    Rejected,
    /// the insert budget ran out (inconclusive)
    Budget,
}

/// Raw parse under a memo configuration with a deterministic work bound (memo inserts).
pub fn raw_parse_budget(g: Grammar, text: &str, capacity: Option<usize>, rec_key: bool, budget: Option<u64>) -> (MemoOutcome, hooks::Counters) {
    hooks::set_insert_budget(budget);
    let r = std::panic::catch_unwind(std::panic::AssertUnwindSafe(|| raw_parse(g, text, capacity, rec_key)));
    hooks::set_insert_budget(None);
    match r {
        Ok((Some(t), c)) => (MemoOutcome::Accepted(t), c),
        Ok((None, c)) => (MemoOutcome::Rejected, c),
        Err(e) => {
            let c = hooks::counters();
            hooks::set_capacity(hooks::DEFAULT_CAPACITY);
            hooks::set_key_includes_recursion_flags(false);
            let is_budget = e.downcast_ref::<&str>().map(|s| *s == hooks::BUDGET_EXCEEDED).unwrap_or(false);
            if is_budget {
                (MemoOutcome::Budget, c)
            } else {
                std::panic::resume_unwind(e)
            }
        }
    }
}
