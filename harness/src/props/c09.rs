//! C09 — recursion is bounded: cycles end in ExceedRecursiveLimit, legal depths work.
//! Every case runs in an isolated child process (a broken bound shows as a stack overflow or fd exhaustion).

use crate::engine::{digest, Campaign, Ctx, Fail, Kind, Prop, Stats};
use crate::lexer;
use crate::ppm::run;
use crate::tape::Tape;
use serde_json::{json, Value};
use std::path::Path;
use std::time::{Duration, Instant};

pub struct C09;

pub enum ChildResult {
    Json(Value),
    Crashed(String),
    TimedOut,
}

/// Run `svcheck worker pp <spec>` with a watchdog.
pub fn run_child(spec: &Value, dir: &Path, budget_s: u64) -> Result<ChildResult, String> {
    run_child_with(spec, dir, budget_s, "")
}

/// `run_child` with an address-space limit for the child (ulimit -v, in KiB): a runaway allocation ends the child
/// instead of the machine's memory.
pub fn run_child_limited(spec: &Value, dir: &Path, budget_s: u64, mem_limit_kb: Option<u64>) -> Result<ChildResult, String> {
    match mem_limit_kb {
        Some(kb) => run_child_with(spec, dir, budget_s, &format!("ulimit -v {}; ", kb)),
        None => run_child_with(spec, dir, budget_s, ""),
    }
}

/// Run `svcheck worker pp <spec>` with a watchdog, behind `limits` (shell commands such as "ulimit -n 256; ").
/// The child always gets the usual 8 MiB stack (./check raises the limit for the harness itself): a bound that multiplies
/// instead of adding shows as a stack overflow of the child, not as a long but successful run.
pub fn run_child_with(spec: &Value, dir: &Path, budget_s: u64, limits: &str) -> Result<ChildResult, String> {
    let exe = std::env::current_exe().map_err(|e| e.to_string())?;
    let spec_path = dir.join("spec.json");
    std::fs::write(&spec_path, serde_json::to_string(spec).unwrap()).map_err(|e| e.to_string())?;
    let out_path = dir.join("child_out.json");
    let out_file = std::fs::File::create(&out_path).map_err(|e| e.to_string())?;
    let mut cmd = std::process::Command::new("sh");
    cmd.arg("-c").arg(format!("ulimit -s 8192; {}exec \"$0\" worker pp \"$1\"", limits)).arg(&exe).arg(&spec_path);
    let mut child = cmd
        .current_dir(dir)
        .stdout(out_file)
        .stderr(std::process::Stdio::null())
        .spawn()
        .map_err(|e| e.to_string())?;
    let t0 = Instant::now();
    loop {
        match child.try_wait().map_err(|e| e.to_string())? {
            Some(status) => {
                if !status.success() {
                    return Ok(ChildResult::Crashed(format!("{:?}", status)));
                }
                let s = std::fs::read_to_string(&out_path).map_err(|e| e.to_string())?;
                return serde_json::from_str(&s).map(ChildResult::Json).map_err(|e| format!("child output: {}", e));
            }
            None => {
                if t0.elapsed() > Duration::from_secs(budget_s) {
                    let _ = child.kill();
                    let _ = child.wait();
                    return Ok(ChildResult::TimedOut);
                }
                std::thread::sleep(Duration::from_millis(2));
            }
        }
    }
}

#[derive(Debug, Clone)]
pub enum Expect {
    /// must end in ExceedRecursiveLimit with at least this many Include wrappers (and nothing else inside)
    Limit { min_wrappers: usize },
    /// must succeed and yield exactly these code tokens (kept `define lines excluded)
    Tokens(Vec<String>),
    /// beyond the limit: full expansion or a well-formed ExceedRecursiveLimit
    Either(Vec<String>),
}

pub struct Shape {
    pub name: String,
    pub files: Vec<(String, String)>, // (relative path, text); files[0] is the top file
    pub expect: Expect,
}

pub fn macro_cycle(n: usize) -> Shape {
    let mut s = String::new();
    for i in 0..n {
        s.push_str(&format!("`define M{} x{} `M{} y{}\n", i, i, (i + 1) % n, i));
    }
    s.push_str("before `M0 after\n");
    Shape { name: format!("macro cycle of length {}", n), files: vec![("top.sv".into(), s)], expect: Expect::Limit { min_wrappers: 0 } }
}

pub fn include_cycle(n: usize) -> Shape {
    let mut files = vec![("top.sv".to_string(), "t_top\n`include \"f0.svh\"\nafter\n".to_string())];
    for i in 0..n {
        files.push((format!("f{}.svh", i), format!("t{}\n`include \"f{}.svh\"\n", i, (i + 1) % n)));
    }
    Shape { name: format!("include cycle of length {}", n), files, expect: Expect::Limit { min_wrappers: 64 } }
}

/// file k defines a macro that expands to an include of the next file and uses it
pub fn mixed_cycle(n: usize) -> Shape {
    let mut files = vec![("top.sv".to_string(), "`include \"g0.svh\"\n".to_string())];
    for i in 0..n {
        files.push((format!("g{}.svh", i), format!("`define INC{} `include \"g{}.svh\"\nu{}\n`INC{}\n", i, (i + 1) % n, i, i)));
    }
    Shape { name: format!("macro->include cycle over {} files", n), files, expect: Expect::Limit { min_wrappers: 1 } }
}

/// `include `A where A's body is again `include `… (cycle made only of include-by-macro hops), plus variants
pub fn include_macro_cycle(n: usize) -> Shape {
    let mut s = String::new();
    for i in 0..n {
        s.push_str(&format!("`define A{} `include `A{}\n", i, (i + 1) % n));
    }
    s.push_str("`include `A0\n");
    Shape { name: format!("`include `MACRO cycle of length {}", n), files: vec![("top.sv".into(), s)], expect: Expect::Limit { min_wrappers: 0 } }
}

pub fn macro_chain(d: usize) -> Shape {
    let mut s = String::new();
    s.push_str("`define L0 leaf\n");
    for i in 1..d {
        s.push_str(&format!("`define L{} `L{}\n", i, i - 1));
    }
    s.push_str(&format!("a `L{} b\n", d - 1));
    let toks = vec!["a".to_string(), "leaf".to_string(), "b".to_string()];
    Shape { name: format!("macro chain of depth {}", d), files: vec![("top.sv".into(), s)], expect: if d <= 64 { Expect::Tokens(toks) } else { Expect::Either(toks) } }
}

pub fn include_chain(d: usize) -> Shape {
    // top includes c0, c0 includes c1, …, c(d-1) holds the leaf: d include levels
    let mut files = vec![("top.sv".to_string(), "a\n`include \"c0.svh\"\nb\n".to_string())];
    let mut toks = vec!["a".to_string()];
    for i in 0..d {
        if i + 1 < d {
            files.push((format!("c{}.svh", i), format!("`include \"c{}.svh\"\n", i + 1)));
        } else {
            files.push((format!("c{}.svh", i), "leaf\n".to_string()));
        }
    }
    toks.push("leaf".to_string());
    toks.push("b".to_string());
    Shape { name: format!("include chain of depth {}", d), files, expect: if d <= 64 { Expect::Tokens(toks) } else { Expect::Either(toks) } }
}

/// include chain of depth b whose innermost file uses a macro chain of depth a
pub fn mixed_chain(a: usize, b: usize) -> Shape {
    let mut top = String::from("`define L0 leaf\n");
    for i in 1..a {
        top.push_str(&format!("`define L{} `L{}\n", i, i - 1));
    }
    top.push_str("a\n`include \"c0.svh\"\nb\n");
    let mut files = vec![("top.sv".to_string(), top)];
    for i in 0..b {
        if i + 1 < b {
            files.push((format!("c{}.svh", i), format!("`include \"c{}.svh\"\n", i + 1)));
        } else {
            files.push((format!("c{}.svh", i), format!("`L{}\n", a - 1)));
        }
    }
    let toks = vec!["a".to_string(), "leaf".to_string(), "b".to_string()];
    Shape {
        name: format!("macro chain {} inside include chain {}", a, b),
        files,
        expect: if a <= 64 && b <= 64 { Expect::Tokens(toks) } else { Expect::Either(toks) },
    }
}

/// macro chain whose every level goes through an include: Lk is defined in file k as `include of file k-1 … (depth d of each kind)
pub fn interleaved_chain(d: usize) -> Shape {
    // file i defines nothing new; it uses macro INC(i+1) which expands to `include "h(i+1).svh"
    let mut top = String::new();
    for i in 0..d {
        top.push_str(&format!("`define INC{} `include \"h{}.svh\"\n", i, i));
    }
    top.push_str("a\n`INC0\nb\n");
    let mut files = vec![("top.sv".to_string(), top)];
    for i in 0..d {
        if i + 1 < d {
            files.push((format!("h{}.svh", i), format!("`INC{}\n", i + 1)));
        } else {
            files.push((format!("h{}.svh", i), "leaf\n".to_string()));
        }
    }
    let toks = vec!["a".to_string(), "leaf".to_string(), "b".to_string()];
    Shape { name: format!("interleaved macro/include chain of depth {}", d), files, expect: if d <= 32 { Expect::Tokens(toks) } else { Expect::Either(toks) } }
}

/// macro chain M0 -> M1 -> … -> Mk whose last macro includes the file itself: a cycle that passes through k macro levels
/// per include level (the two depth counters must not multiply: 64 x 64 nested runs overflow the stack)
pub fn macro_chain_self_include(k: usize) -> Shape {
    let mut s = String::new();
    for i in 0..k {
        s.push_str(&format!("`define M{} `M{}\n", i, i + 1));
    }
    s.push_str(&format!("`define M{} `include \"top.sv\"\n", k));
    s.push_str("`M0\n");
    Shape { name: format!("macro chain of depth {} -> `include of the file itself", k), files: vec![("top.sv".into(), s)], expect: Expect::Limit { min_wrappers: 0 } }
}

/// macro chain whose every callee's name extends its caller's name (W -> Wx -> Wxx -> … -> leaf): legal, but a self-reference
/// test by prefix / substring instead of by identifier takes it for recursion (seed C09e)
pub fn macro_chain_prefix_names(d: usize) -> Shape {
    let name = |i: usize| format!("W{}", "x".repeat(d - 1 - i));
    let mut s = String::new();
    s.push_str(&format!("`define {} leaf\n", name(0)));
    for i in 1..d {
        s.push_str(&format!("`define {} [`{}-1:0] \"`{}\"\n", name(i), name(i - 1), name(i)));
    }
    s.push_str(&format!("a `{} b\n", name(d - 1)));
    let mut toks = vec!["a".to_string()];
    // expected tokens are computed by the same rule the shape is built from: each level wraps the inner text in [ … -1:0] "`name"
    fn expand(i: usize, name: &dyn Fn(usize) -> String, out: &mut Vec<String>) {
        if i == 0 {
            out.push("leaf".to_string());
        } else {
            out.push("[".to_string());
            expand(i - 1, name, out);
            for t in ["-", "1", ":", "0", "]"] {
                out.push(t.to_string());
            }
            out.push(format!("\"`{}\"", name(i)));
        }
    }
    expand(d - 1, &name, &mut toks);
    toks.push("b".to_string());
    Shape { name: format!("macro chain of depth {} with names extending one another", d), files: vec![("top.sv".into(), s)], expect: Expect::Tokens(toks) }
}

fn shapes() -> Vec<Shape> {
    let mut v = Vec::new();
    for k in [1usize, 3, 8, 20, 56] {
        v.push(macro_chain_self_include(k));
    }
    for n in 1..=8 {
        v.push(macro_cycle(n));
    }
    for n in 1..=5 {
        v.push(include_cycle(n));
    }
    for n in 1..=4 {
        v.push(mixed_cycle(n));
    }
    for n in 1..=4 {
        v.push(include_macro_cycle(n));
    }
    for d in 1..=80 {
        v.push(macro_chain(d));
    }
    for d in [1usize, 2, 3, 10, 40, 64] {
        v.push(macro_chain_prefix_names(d));
    }
    for d in 1..=80 {
        v.push(include_chain(d));
    }
    for a in [1usize, 2, 16, 63, 64] {
        for b in [1usize, 2, 15, 16, 63, 64] {
            v.push(mixed_chain(a, b));
        }
    }
    for d in [1usize, 2, 8, 16, 31, 32, 40, 70] {
        v.push(interleaved_chain(d));
    }
    v
}

fn peel_kind(s: &str) -> (usize, String) {
    let mut n = 0;
    let mut cur = s;
    while let Some(rest) = cur.strip_prefix("Include[") {
        n += 1;
        cur = &rest[..rest.len() - 1];
    }
    (n, cur.to_string())
}

fn judge(shape: &Shape, res: &ChildResult) -> Result<(), String> {
    match res {
        ChildResult::Crashed(st) => Err(format!("the process crashed ({}) instead of returning a result", st)),
        ChildResult::TimedOut => Err("TIMEOUT".to_string()),
        ChildResult::Json(v) => {
            let ok = v["ok"].as_bool().unwrap_or(false);
            let tokens = |v: &Value| -> Vec<String> {
                lexer::lex(v["text"].as_str().unwrap_or(""))
                    .map(|ts| {
                        // drop kept `define lines: everything from a `define token to the end of its line is not compared
                        let text = v["text"].as_str().unwrap_or("");
                        let mut out = Vec::new();
                        let mut skip_until = 0usize;
                        for t in ts {
                            if t.start < skip_until {
                                continue;
                            }
                            if t.text == "`define" {
                                skip_until = text[t.start..].find('\n').map(|i| t.start + i).unwrap_or(text.len());
                                continue;
                            }
                            out.push(t.text.to_string());
                        }
                        out
                    })
                    .unwrap_or_default()
            };
            let limit_ok = |min: usize| -> Result<(), String> {
                let e = v["error"].as_str().unwrap_or("");
                let (n, inner) = peel_kind(e);
                if inner != "ExceedRecursiveLimit" {
                    return Err(format!("expected ExceedRecursiveLimit, got {}", if ok { "success".to_string() } else { e.to_string() }));
                }
                if n < min {
                    return Err(format!("ExceedRecursiveLimit wrapped in {} Include levels, expected at least {}", n, min));
                }
                Ok(())
            };
            match &shape.expect {
                Expect::Limit { min_wrappers } => {
                    if ok {
                        return Err("a cycle was accepted".to_string());
                    }
                    limit_ok(*min_wrappers)
                }
                Expect::Tokens(want) => {
                    if !ok {
                        return Err(format!("a legal depth failed with {}", v["error"]));
                    }
                    let got = tokens(v);
                    if &got != want {
                        return Err(format!("expected tokens {:?}, got {:?}", want, got));
                    }
                    Ok(())
                }
                Expect::Either(want) => {
                    if ok {
                        let got = tokens(v);
                        if &got != want {
                            return Err(format!("expected tokens {:?} (or ExceedRecursiveLimit), got {:?}", want, got));
                        }
                        Ok(())
                    } else {
                        limit_ok(0)
                    }
                }
            }
        }
    }
}

fn run_shape(ctx: &Ctx, shape: &Shape, st: &mut Stats) -> Result<(), Fail> {
    let dir = format!("{}/c09", run::thread_dir(&ctx.scratch));
    let _ = std::fs::remove_dir_all(&dir);
    std::fs::create_dir_all(&dir).map_err(|e| Fail::new(format!("harness: {}", e), json!({"infrastructure": true})))?;
    for (name, text) in &shape.files {
        std::fs::write(Path::new(&dir).join(name), text).map_err(|e| Fail::new(format!("harness: {}", e), json!({"infrastructure": true})))?;
    }
    // alternate between the file entry point and the string entry point
    let by_file = shape.files.len() % 2 == 0;
    let spec = if by_file {
        json!({"top_path": format!("{}/top.sv", dir), "include_paths": [dir], "ignore_include": false})
    } else {
        json!({"top_path": format!("{}/top.sv", dir), "top_text": shape.files[0].1, "include_paths": [dir], "ignore_include": false})
    };
    let mut res = run_child(&spec, Path::new(&dir), 20).map_err(|e| Fail::new(format!("harness: child: {}", e), json!({"infrastructure": true})))?;
    if let ChildResult::TimedOut = res {
        // normal cost is milliseconds; give it one more, much longer, run before calling it a hang
        res = run_child(&spec, Path::new(&dir), 150).map_err(|e| Fail::new(format!("harness: child: {}", e), json!({"infrastructure": true})))?;
        st.count("cases re-run after a 20 s timeout", 1);
    }
    match judge(shape, &res) {
        Ok(()) => {
            st.class(match shape.expect {
                Expect::Limit { .. } => "cycle -> ExceedRecursiveLimit",
                Expect::Tokens(_) => "legal depth -> fully expanded",
                Expect::Either(_) => "beyond the limit -> expansion or ExceedRecursiveLimit",
            });
            Ok(())
        }
        Err(m) if m == "TIMEOUT" => Err(Fail::new(
            format!("{}: did not terminate within 20 s and, re-run alone, within 150 s (normal cost: milliseconds) — a hang instead of ExceedRecursiveLimit", shape.name),
            json!({"shape": shape.name, "hang": true, "files": shape.files.iter().map(|(n, t)| json!({"name": n, "text": crate::sv::clip(t, 600)})).collect::<Vec<_>>()}),
        )),
        Err(m) => Err(Fail::new(
            format!("{}: {}", shape.name, m),
            json!({"shape": shape.name, "files": shape.files.iter().map(|(n, t)| json!({"name": n, "text": crate::sv::clip(t, 600)})).collect::<Vec<_>>()}),
        )),
    }
}

impl Prop for C09 {
    fn id(&self) -> &'static str {
        "C09"
    }
    fn rule(&self) -> String {
        "cases (enumerated, each in its own child process): macro cycles of length 1-8, include cycles 1-5, macro->include cycles over 1-4 files, \
         cycles made only of `include `MACRO hops (1-4), acyclic macro chains and include chains of every depth 1-80, macro chains inside include chains at depths \
         {1,2,16,63,64}x{1,2,15,16,63,64}, chains alternating macro and include levels; campaign random adds random mixtures. Oracle: a cycle yields Err whose Include \
         wrappers peel to exactly ExceedRecursiveLimit (>= 64 wrappers for a pure include cycle), never a crash or another error; depth <= 64 yields the fully expanded \
         leaf token; beyond 64 either of the two. Non-trivial: depth >= 16 or a mixed shape; distinct by shape."
            .into()
    }
    fn assumptions(&self) -> Vec<String> {
        vec![
            "a child killed by a signal (stack overflow, abort) counts as a violation".into(),
            "a case that does not finish within 20 s is re-run alone with a 150 s budget; only if it again does not finish is it reported as a hang (these inputs normally cost milliseconds, a margin of 10^4)".into(),
        ]
    }
    fn witness(&self, ctx: &Ctx, f: &crate::findings::Finding) -> Result<bool, Fail> {
        // witness {"kind":"child_no_limit","source":…}: a self-recursive macro whose argument grows; still fails iff the
        // child process (address space limited to 4 GiB, 60 s) dies or hangs instead of returning ExceedRecursiveLimit
        if f.witness["kind"].as_str() != Some("child_no_limit") {
            return Ok(false);
        }
        let src = f.witness["source"].as_str().unwrap_or("");
        let dir = ctx.scratch.join(format!("witness-{}", f.id));
        let _ = std::fs::remove_dir_all(&dir);
        std::fs::create_dir_all(&dir).map_err(|e| Fail::new(format!("harness: {}", e), json!({"infrastructure": true})))?;
        let spec = json!({"top_path": format!("{}/top.sv", dir.display()), "top_text": src, "include_paths": [dir.display().to_string()], "ignore_include": false});
        let res = run_child_limited(&spec, &dir, 60, Some(4_000_000)).map_err(|e| Fail::new(format!("harness: {}", e), json!({"infrastructure": true})))?;
        let _ = std::fs::remove_dir_all(&dir);
        match res {
            ChildResult::Crashed(_) | ChildResult::TimedOut => Ok(true),
            ChildResult::Json(v) => {
                let e = v["error"].as_str().unwrap_or("");
                if peel_kind(e).1 == "ExceedRecursiveLimit" {
                    Ok(false)
                } else {
                    Err(Fail::new(format!("witness of {} neither ends in ExceedRecursiveLimit nor exhausts memory: {}", f.id, v), json!({})))
                }
            }
        }
    }
    fn campaigns(&self, _ctx: &Ctx) -> Vec<Campaign> {
        vec![
            Campaign { name: "shapes", kind: Kind::Enumerated { count: shapes().len() }, tape_len: 1 },
            Campaign { name: "random", kind: Kind::Random { quick: 150, thorough: 3000 }, tape_len: 16 },
        ]
    }
    fn run(&self, ctx: &Ctx, campaign: &str, t: &mut Tape, st: &mut Stats) -> Result<(), Fail> {
        st.eval();
        let shape = if campaign == "shapes" {
            let all = shapes();
            let i = t.raw() as usize % all.len();
            all.into_iter().nth(i).unwrap()
        } else {
            match t.below(7) {
                0 => macro_cycle(1 + t.below(12)),
                1 => include_cycle(1 + t.below(7)),
                2 => mixed_cycle(1 + t.below(6)),
                3 => include_macro_cycle(1 + t.below(6)),
                4 => mixed_chain(1 + t.below(70), 1 + t.below(70)),
                5 => interleaved_chain(1 + t.below(50)),
                _ => {
                    if t.flip() {
                        macro_chain(1 + t.below(100))
                    } else {
                        include_chain(1 + t.below(100))
                    }
                }
            }
        };
        run_shape(ctx, &shape, st)?;
        let deep = shape.files.len() >= 17 || shape.files[0].1.matches("`define").count() >= 16 || shape.name.contains("->") || shape.name.contains("inside") || shape.name.contains("interleaved") || shape.name.contains("MACRO");
        if deep {
            st.nontrivial(digest(shape.name.as_bytes()), || json!({"shape": shape.name, "top": crate::sv::clip(&shape.files[0].1, 300)}));
        }
        Ok(())
    }
}
