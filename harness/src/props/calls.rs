//! Shared call abstraction for C07 (history independence) and C19 (thread isolation).

use crate::sv::{self, Defs};
use std::collections::HashMap;
use std::path::{Path, PathBuf};
use std::sync::{Mutex, OnceLock};
use sv_parser_parser::{lib_parser, lib_parser_incomplete, pp_parser, sv_parser, sv_parser_incomplete, Span, SpanInfo};

#[derive(Clone, Copy, Debug, PartialEq, Eq, Hash)]
pub enum Entry {
    PpStr,
    PpStrStrip,
    PpFile,
    ParseSvStr,
    ParseSvStrInc,
    ParseLibStr,
    ParseLibStrInc,
    ParseSvFile,
    ParseSvFileInc,
    TwoStep,
    TwoStepInc,
    RawPp,
    RawSv,
    RawSvInc,
    RawLib,
    RawLibInc,
}

pub const ENTRIES: &[Entry] = &[
    Entry::PpStr,
    Entry::PpStrStrip,
    Entry::PpFile,
    Entry::ParseSvStr,
    Entry::ParseSvStrInc,
    Entry::ParseLibStr,
    Entry::ParseLibStrInc,
    Entry::ParseSvFile,
    Entry::ParseSvFileInc,
    Entry::TwoStep,
    Entry::TwoStepInc,
    Entry::RawPp,
    Entry::RawSv,
    Entry::RawSvInc,
    Entry::RawLib,
    Entry::RawLibInc,
];

/// (name, text, is_polluting)
pub const INPUTS: &[(&str, &str, bool)] = &[
    ("ok-module", "module m (input logic a, output logic b); assign b = a; endmodule\n", false),
    ("ok-module-comments", "// c\nmodule a; /* c */ wire w; // d\nendmodule /* e */\n", false),
    ("ok-macro", "`define W 8\nmodule mm; wire [`W-1:0] w; `ifdef W wire x; `endif endmodule\n", false),
    ("kw-logic-as-type", "module k1; logic x; bit y; endmodule\n", false),
    ("kw-logic-as-ident", "module k2; reg logic; endmodule\n", false),
    ("kw-region-closed", "`begin_keywords \"1364-2001\"\nmodule k3; reg logic; endmodule\n`end_keywords\nmodule k4; logic z; endmodule\n", false),
    ("kw95-later-words", "`begin_keywords \"1364-1995\"\nmodule k5; reg unsigned; wire signed; reg automatic; wire [3:0] generate; assign signed = unsigned & automatic; endmodule\nmodule k6; reg unsigned; reg logic; wire bit; endmodule\n`end_keywords\nmodule k7; logic u; endmodule\n", false),
    ("kw2001-nested-2005", "`begin_keywords \"1364-2001\"\nmodule k8; reg uwire; reg logic; endmodule\n`begin_keywords \"1800-2005\"\nmodule k9; logic l; reg checker; endmodule\n`end_keywords\nmodule k10; wire bit; reg unique0; endmodule\n`end_keywords\n", false),
    ("incA-width", "`include \"defs.svh\"\nmodule wa; wire [`WIDTH-1:0] x; `ifdef FROM_A wire a_only; `endif endmodule\n", false),
    ("incB-width", "`include \"defs.svh\"\nmodule wb; wire [`WIDTH-1:0] x; `ifdef FROM_A wire a_only; `endif endmodule\n", false),
    ("incA-nested", "`include <outer.svh>\nmodule na; wire [`WIDTH:0] y; endmodule\n", false),
    ("incB-nested", "`include <outer.svh>\nmodule nb; wire [`WIDTH:0] y; endmodule\n", false),
    ("pollute-open-keywords-2001", "`begin_keywords \"1364-2001\"\nmodule p1; reg logic; endmodule\n", true),
    ("pollute-open-keywords-1995", "`begin_keywords \"1364-1995\"\nmodule p2; wire signed_; endmodule\n", true),
    ("pollute-open-twice", "`begin_keywords \"1364-2005\"\n`begin_keywords \"1800-2005\"\nmodule p3; endmodule\n`end_keywords\n", true),
    ("pollute-resetall", "`resetall\nmodule p4; endmodule\n`resetall\n", true),
    ("pollute-bad-macro-name", "`define define 1\nmodule p5; endmodule\n", true),
    ("pollute-backtick-number", "module p6; wire w = `123; endmodule\n", true),
    ("pollute-recursion", "`define A `A\nmodule p7; wire w = `A; endmodule\n", true),
    ("pollute-half-way-error", "module p8; wire a; wire b; assign a = ; endmodule\nmodule p8b; endmodule\n", true),
    ("pollute-truncated-ifdef", "module p9;\n`ifdef X\nwire w;\n", true),
    ("pollute-truncated-define", "module p10; endmodule\n`define", true),
    ("pollute-truncated-timescale", "`timescale 1ns\nmodule p11; endmodule\n", true),
    ("pollute-truncated-include", "`include\nmodule p12; endmodule\n", true),
    ("pollute-unterminated-string", "module p13; initial $display(\"abc); endmodule\n", true),
    ("pollute-directive-in-expr", "module p14; wire w = 1 + `celldefine 2; /* c */ endmodule\n", true),
    ("pollute-end-keywords-alone", "`end_keywords\nmodule p15; logic l; endmodule\n", true),
    ("reject-junk", ") ] } end endmodule\n", false),
    ("reject-module-module", "module module; endmodule\n", false),
    ("incomplete-prefix", "module q1; endmodule\nmodule q2; wire; endmodule\n", false),
    ("lib-ok", "library lib1 a.v , b.v -incdir inc ;\ninclude more.map ;\n;\n", false),
    ("lib-bad", "library ; foo\n", false),
    ("lib-config", "config cfg; design lib1.top; default liblist lib1; endconfig\n", false),
    ("empty", "", false),
    ("ws-only", "  \n\t// c\n", false),
];

pub struct Pool {
    pub dir: PathBuf,
    pub files: Vec<PathBuf>,
}

static POOL: OnceLock<Pool> = OnceLock::new();

/// Write the pool inputs to files once per process.
pub fn pool(scratch: &Path) -> &'static Pool {
    POOL.get_or_init(|| {
        let dir = scratch.join("callpool");
        let _ = std::fs::create_dir_all(&dir);
        let mut files = Vec::new();
        for (i, (name, text, _)) in INPUTS.iter().enumerate() {
            let p = dir.join(format!("in{}_{}.sv", i, name));
            let _ = std::fs::write(&p, text);
            files.push(p);
        }
        let _ = std::fs::write(dir.join("more.map"), "library lib2 c.v;\n");
        // two include directories that hold the same header names with different contents
        for (d, w, extra) in [("incA", "8", "`define FROM_A\n"), ("incB", "16", "")] {
            let _ = std::fs::create_dir_all(dir.join(d));
            let _ = std::fs::write(dir.join(d).join("defs.svh"), format!("`define WIDTH {}\n{}", w, extra));
            let _ = std::fs::write(dir.join(d).join("outer.svh"), "`include \"defs.svh\"\n");
        }
        Pool { dir, files }
    })
}

fn defs_repr(d: &Defs) -> String {
    let mut v: Vec<(String, String)> = d.iter().map(|(k, v)| (k.clone(), format!("{:?}", v))).collect();
    v.sort();
    format!("{:?}", v)
}

fn pp_repr(r: Result<(sv::PreprocessedText, Defs), sv::Error>) -> String {
    match r {
        Ok((t, d)) => {
            let mut s = format!("OK {:?} ", t.text());
            for i in 0..t.text().len() {
                s.push_str(&format!("{:?};", t.origin(i)));
            }
            s.push_str(&defs_repr(&d));
            s
        }
        Err(e) => format!("ERR {:?}", e),
    }
}

fn tree_repr(r: Result<(sv::SyntaxTree, Defs), sv::Error>) -> String {
    match r {
        Ok((t, d)) => format!("OK {:?} {}", t, defs_repr(&d)),
        Err(e) => format!("ERR {:?}", e),
    }
}

/// Execute one call. `buf` is a reused buffer: the input text is copied into it so that successive calls
/// present the same text pointer with different contents to the (pointer-keyed) memo table.
pub fn exec(pool: &Pool, entry: Entry, input: usize, buf: &mut String) -> String {
    let (_, text, _) = INPUTS[input];
    exec_text(pool, entry, input, text, buf)
}

/// String entry points that do not read the pooled file of the input.
pub const STRING_ENTRIES: &[Entry] = &[
    Entry::PpStr,
    Entry::PpStrStrip,
    Entry::ParseSvStr,
    Entry::ParseSvStrInc,
    Entry::ParseLibStr,
    Entry::ParseLibStrInc,
    Entry::TwoStep,
    Entry::TwoStepInc,
    Entry::RawPp,
    Entry::RawSv,
    Entry::RawSvInc,
    Entry::RawLib,
    Entry::RawLibInc,
];

/// Execute one call on an arbitrary text (the path / include directory of pooled input `input` is used).
pub fn exec_text(pool: &Pool, entry: Entry, input: usize, text: &str, buf: &mut String) -> String {
    buf.clear();
    buf.push_str(text);
    let path = &pool.files[input];
    let defs = Defs::new();
    // inputs named incA-… / incB-… are preprocessed with their own include directory
    let name = INPUTS[input].0;
    let incs = if name.starts_with("incA-") {
        vec![pool.dir.join("incA")]
    } else if name.starts_with("incB-") {
        vec![pool.dir.join("incB")]
    } else {
        vec![pool.dir.clone()]
    };
    match entry {
        Entry::PpStr => pp_repr(sv::preprocess_str(buf.as_str(), path, &defs, &incs, false, false, 0, 0)),
        Entry::PpStrStrip => pp_repr(sv::preprocess_str(buf.as_str(), path, &defs, &incs, false, true, 0, 0)),
        Entry::PpFile => pp_repr(sv::preprocess(path, &defs, &incs, false, false)),
        Entry::ParseSvStr => tree_repr(sv::parse_sv_str(buf.as_str(), path, &defs, &incs, false, false)),
        Entry::ParseSvStrInc => tree_repr(sv::parse_sv_str(buf.as_str(), path, &defs, &incs, false, true)),
        Entry::ParseLibStr => tree_repr(sv::parse_lib_str(buf.as_str(), path, &defs, &incs, false, false)),
        Entry::ParseLibStrInc => tree_repr(sv::parse_lib_str(buf.as_str(), path, &defs, &incs, false, true)),
        Entry::ParseSvFile => tree_repr(sv::parse_sv(path, &defs, &incs, false, false)),
        Entry::ParseSvFileInc => tree_repr(sv::parse_sv(path, &defs, &incs, false, true)),
        Entry::TwoStep => tree_repr(sv::preprocess_str(buf.as_str(), path, &defs, &incs, false, false, 0, 0).and_then(|(t, d)| sv::parse_sv_pp(t, d, false))),
        Entry::TwoStepInc => tree_repr(sv::preprocess_str(buf.as_str(), path, &defs, &incs, false, false, 0, 0).and_then(|(t, d)| sv::parse_sv_pp(t, d, true))),
        Entry::RawPp => match pp_parser(Span::new_extra(buf.as_str(), SpanInfo::default())) {
            Ok((r, x)) => format!("OK rest={} {:?}", r.fragment().len(), x),
            Err(_) => "ERR".to_string(),
        },
        Entry::RawSv => match sv_parser(Span::new_extra(buf.as_str(), SpanInfo::default())) {
            Ok((r, x)) => format!("OK rest={} {:?}", r.fragment().len(), x),
            Err(_) => "ERR".to_string(),
        },
        Entry::RawSvInc => match sv_parser_incomplete(Span::new_extra(buf.as_str(), SpanInfo::default())) {
            Ok((r, x)) => format!("OK rest={} {:?}", r.fragment().len(), x),
            Err(_) => "ERR".to_string(),
        },
        Entry::RawLib => match lib_parser(Span::new_extra(buf.as_str(), SpanInfo::default())) {
            Ok((r, x)) => format!("OK rest={} {:?}", r.fragment().len(), x),
            Err(_) => "ERR".to_string(),
        },
        Entry::RawLibInc => match lib_parser_incomplete(Span::new_extra(buf.as_str(), SpanInfo::default())) {
            Ok((r, x)) => format!("OK rest={} {:?}", r.fragment().len(), x),
            Err(_) => "ERR".to_string(),
        },
    }
}

static REFERENCE: OnceLock<Mutex<HashMap<(Entry, usize), String>>> = OnceLock::new();

/// Result of the call on a freshly spawned thread (cached per process).
pub fn reference(pool: &'static Pool, entry: Entry, input: usize) -> String {
    let map = REFERENCE.get_or_init(|| Mutex::new(HashMap::new()));
    if let Some(r) = map.lock().unwrap().get(&(entry, input)) {
        return r.clone();
    }
    let r = std::thread::Builder::new()
        .stack_size(256 << 20)
        .spawn(move || {
            let mut buf = String::with_capacity(4096);
            exec(pool, entry, input, &mut buf)
        })
        .unwrap()
        .join()
        .unwrap_or_else(|_| "PANIC".to_string());
    map.lock().unwrap().insert((entry, input), r.clone());
    r
}

pub fn first_diff(a: &str, b: &str) -> String {
    let n = a.bytes().zip(b.bytes()).position(|(x, y)| x != y).unwrap_or(a.len().min(b.len()));
    let lo = n.saturating_sub(80);
    let cut = |s: &str| {
        let mut l = lo.min(s.len());
        while !s.is_char_boundary(l) {
            l -= 1;
        }
        sv::clip(&s[l..], 200)
    };
    format!("first difference at byte {}: {:?} vs {:?}", n, cut(a), cut(b))
}
