//! C18 — strip_comments removes comments and nothing else.

use super::ppcommon::gen_case;
use crate::engine::{digest, Campaign, Ctx, Fail, Kind as CKind, Prop, Stats};
use crate::gen::textgen;
use crate::lexer::{self, Kind};
use crate::ppm::gen::PpCfg;
use crate::ppm::run;
use crate::sv::{self, clip, Defs, Error};
use crate::tape::Tape;
use serde_json::json;
use std::path::{Path, PathBuf};

pub struct C18;

/// Comments of `text` that lie outside kept `define lines: (start, text)
fn comments_outside_defines(text: &str) -> Vec<(usize, String)> {
    let toks = match lexer::lex(text) {
        Ok(t) => t,
        Err(_) => return vec![],
    };
    let mut out = Vec::new();
    let mut define_until = 0usize;
    let b = text.as_bytes();
    for t in &toks {
        if t.text == "`define" {
            // the directive extends to the first newline not preceded by a backslash
            let mut p = t.start;
            loop {
                match text[p..].find('\n') {
                    None => {
                        p = text.len();
                        break;
                    }
                    Some(i) => {
                        let nl = p + i;
                        let cont = nl > 0 && (b[nl - 1] == b'\\' || (nl > 1 && b[nl - 1] == b'\r' && b[nl - 2] == b'\\'));
                        p = nl + 1;
                        if !cont {
                            break;
                        }
                    }
                }
            }
            define_until = p;
        }
        if (t.kind == Kind::LineComment || t.kind == Kind::BlockComment) && t.start >= define_until {
            out.push((t.start, t.text.to_string()));
        }
    }
    out
}

fn table_digest(d: &Defs) -> Vec<(String, String)> {
    let mut v: Vec<(String, String)> = d.iter().map(|(k, v)| (k.clone(), format!("{:?}", v))).collect();
    v.sort();
    v
}

pub fn compare_strip(
    ctx: &Ctx,
    src: &str,
    path: &Path,
    defs: &Defs,
    incs: &[PathBuf],
    st: &mut Stats,
    detail: &dyn Fn() -> serde_json::Value,
) -> Result<bool, Fail> {
    let a = sv::pp(src, path, defs, incs, false, false);
    let b = sv::pp(src, path, defs, incs, false, true);
    // directive-free text with a K1 site: both outputs must be exactly the predictions of listed finding K1
    if textgen::is_directive_free(src) && textgen::has_k1_site(src) && ctx.findings.is_known("C18", "K1") {
        if let (Ok((ta, _)), Ok((tb, _))) = (&a, &b) {
            if textgen::rc1_predict(src).as_deref() == Some(ta.text()) && textgen::rc1_predict_strip(src).as_deref() == Some(tb.text()) {
                st.known("K1");
                return Ok(true);
            }
        }
    }
    match (a, b) {
        (Ok((ta, da)), Ok((tb, db))) => {
            let ka = lexer::code_tokens(ta.text());
            let kb = lexer::code_tokens(tb.text());
            let k1 = textgen::has_k1_site(src) || textgen::has_k1_site(ta.text());
            if ka != kb {
                return Err(Fail::new(
                    "strip_comments changes the sequence of non-comment tokens",
                    json!({"case": detail(), "without": clip(ta.text(), 3000), "with": clip(tb.text(), 3000)}),
                ));
            }
            if table_digest(&da) != table_digest(&db) {
                return Err(Fail::new("strip_comments changes the returned define table", json!({"case": detail()})));
            }
            let left = comments_outside_defines(tb.text());
            if !left.is_empty() {
                // known finding K1: a comment owned by a string / escaped identifier survives inside the raw span
                if k1 && ctx.findings.is_known("C18", "K1") && left.iter().all(|(pos, _)| comment_follows_string(tb.text(), *pos)) {
                    st.known("K1");
                } else {
                    return Err(Fail::new(
                        format!("stripped output still contains a comment outside kept `define lines: {:?}", left[0]),
                        json!({"case": detail(), "with": clip(tb.text(), 3000)}),
                    ));
                }
            }
            Ok(true)
        }
        (Err(ea), Err(eb)) => {
            if sv::err_kind(&ea) != sv::err_kind(&eb) {
                return Err(Fail::new(format!("error without strip_comments: {}, with: {}", sv::err_kind(&ea), sv::err_kind(&eb)), json!({"case": detail()})));
            }
            let _: Option<Error> = None;
            Ok(false)
        }
        (Ok(_), Err(e)) => Err(Fail::new(format!("only the strip_comments run fails: {}", sv::err_kind(&e)), json!({"case": detail()}))),
        (Err(e), Ok(_)) => Err(Fail::new(format!("only the run without strip_comments fails: {}", sv::err_kind(&e)), json!({"case": detail()}))),
    }
}

/// Is the comment at `pos` part of the trivia that directly follows a string literal / escaped identifier?
fn comment_follows_string(text: &str, pos: usize) -> bool {
    let toks = match lexer::lex(text) {
        Ok(t) => t,
        Err(_) => return false,
    };
    let mut prev_non_comment: Option<Kind> = None;
    for t in &toks {
        if t.start == pos {
            return matches!(prev_non_comment, Some(Kind::Str) | Some(Kind::EscIdent));
        }
        if t.kind != Kind::LineComment && t.kind != Kind::BlockComment {
            prev_non_comment = Some(t.kind);
        }
    }
    false
}

impl Prop for C18 {
    fn id(&self) -> &'static str {
        "C18"
    }
    fn rule(&self) -> String {
        "cases: (text) directive-free texts with comments in every position incl. comments that are the only separator between two tokens (a/**/b, e//z<newline>f), comments \
         holding quotes / backticks / comment openers; (programs) generated preprocessor programs (macros, conditionals, includes, kept directives) with comments before / after \
         directives and usages, inside `define bodies, after strings. Oracle: the non-comment token sequence, the returned define table and the error (as Debug text) are \
         identical with and without strip_comments, and the stripped output holds no comment outside kept `define lines. Non-trivial: the input has a comment that directly \
         touches a token on at least one side, or a comment next to a directive; distinct by digest."
            .into()
    }
    fn assumptions(&self) -> Vec<String> {
        vec!["a comment that survives because it is owned by a string / escaped identifier is classified as listed finding K1, any other surviving comment is a violation".into()]
    }
    fn campaigns(&self, _ctx: &Ctx) -> Vec<Campaign> {
        vec![
            Campaign { name: "text", kind: CKind::Random { quick: 60000, thorough: 800000 }, tape_len: 80 },
            Campaign { name: "glue", kind: CKind::Random { quick: 20000, thorough: 200000 }, tape_len: 30 },
            Campaign { name: "programs", kind: CKind::Random { quick: 25000, thorough: 300000 }, tape_len: 500 },
        ]
    }
    fn run(&self, ctx: &Ctx, campaign: &str, t: &mut Tape, st: &mut Stats) -> Result<(), Fail> {
        st.eval();
        match campaign {
            "text" => {
                let k1 = t.chance(1, 5);
                let (mut text, _) = textgen::well_formed(t, k1);
                // sometimes the text ends without a final newline (a one-line comment closed by the end of the text)
                if t.chance(1, 4) {
                    if t.flip() {
                        text.push_str("// last");
                    }
                    while text.ends_with('\n') || text.ends_with('\r') {
                        text.pop();
                    }
                }
                let d = || json!({"source": text});
                compare_strip(ctx, &text, Path::new("t.sv"), &Defs::new(), &[], st, &d)?;
                if text.contains("/*") || text.contains("//") {
                    st.nontrivial(digest(text.as_bytes()), || json!({"campaign": "text", "source": clip(&text, 300)}));
                }
            }
            "glue" => {
                // comments as the only separator between two tokens
                let n = 2 + t.below(5);
                let mut text = String::new();
                for i in 0..n {
                    text.push_str(t.pick_str(&["a", "b1", "42", "x_y", "module", "$d", "q"]));
                    if i + 1 < n {
                        match t.below(5) {
                            0 => text.push_str("/**/"),
                            1 => text.push_str("/* c */"),
                            2 => text.push_str("// z\n"),
                            3 => text.push_str("/*\n*/"),
                            _ => text.push_str(t.pick_str(&[" ", "\n", " /* c */ ", "\t// z\n"])),
                        }
                    }
                }
                // directives glued to the tokens around them, comments in macro actuals, comment at the end of the text
                match t.below(6) {
                    0 => text = format!("`define ID(x) x\n{}`ifdef ID\n{}`endif\n{}", t.pick_str(&["a", "b1 ", "q/**/"]), t.pick_str(&["c", "d ", "e//z\n"]), t.pick_str(&["f", " g", "\nh"])),
                    1 => text = format!(
                        "`define ID(x) x\n{}`ID({}){}",
                        t.pick_str(&["a", "a ", "a/**/"]),
                        // a one-line comment inside an actual ends with the line; what follows the usage must survive it
                        t.pick_str(&["1 /* one */", "2 /* two */ ", "3", "4 // four\n", "5 // five\n ", "6, 7 // seven\n", "/* c */ 8 // eight\n"]),
                        t.pick_str(&["b", " b", ";", " + 2;\n"])
                    ),
                    3 => text = format!(
                        "`define DF(x{}) x + 5\n`DF({}) y\nz\n",
                        t.pick_str(&["", "=1", "=1 /* d */", "=1 // d"]),
                        t.pick_str(&["", "9", "9 // nine\n", " /* c */ 9"])
                    ),
                    2 => text.push_str(t.pick_str(&["// end", " // end", "/* end */", "//"])),
                    4 => text = format!(
                        // a one-line comment at the end of an actual that is not the last thing of the body: the rest of
                        // the body must not end up inside the comment
                        "`define TW(x,y) x y{}\n{}`TW({}){}",
                        t.pick_str(&[";", " ;", "+1;", " z"]),
                        t.pick_str(&["", "a ", "a/**/"]),
                        t.pick_str(&["wire, w // second\n", "wire, w // second\n ", "wire // first\n, w", "wire // first\n , w // second\n", "p /* one */, q"]),
                        t.pick_str(&["\n", " b\n", ""])
                    ),
                    _ => {}
                }
                let d = || json!({"source": text});
                compare_strip(ctx, &text, Path::new("t.sv"), &Defs::new(), &[], st, &d)?;
                st.class("comment as sole separator");
                st.nontrivial(digest(text.as_bytes()), || json!({"campaign": "glue", "source": text}));
            }
            _ => {
                let mut cfg = PpCfg::full();
                cfg.max_items = 8;
                cfg.faults = t.chance(1, 6);
                let case = gen_case(ctx, t, &cfg)?;
                let defs = run::caller_defs(&case.initial);
                let d = || run::case_json(&case);
                let ok = compare_strip(ctx, &case.rendered[0].text, Path::new(&case.files[0].path), &defs, &run::include_paths(&case), st, &d)?;
                let all: String = case.rendered.iter().map(|r| r.text.as_str()).collect::<Vec<_>>().join("\u{1}");
                if ok {
                    st.class("both runs succeed");
                } else {
                    st.class("both runs fail with the same error");
                }
                if all.contains("/*") || all.contains("//") {
                    st.nontrivial(digest(all.as_bytes()), || json!({"campaign": "programs", "top": clip(&case.rendered[0].text, 300)}));
                }
            }
        }
        Ok(())
    }
    fn witness(&self, _ctx: &Ctx, f: &crate::findings::Finding) -> Result<bool, Fail> {
        if f.witness["kind"].as_str() == Some("rc1") {
            // for this property the K1 witness is: a comment after a string survives strip_comments
            let src = "\"a\" // cmt\nb";
            let r = sv::pp(src, Path::new("top.sv"), &Default::default(), &[], false, true);
            return match r {
                Ok((t, _)) => Ok(t.text().contains("// cmt")),
                Err(e) => Err(Fail::new(format!("witness errors: {}", sv::err_kind(&e)), json!({}))),
            };
        }
        super::ppcommon::pp_witness(f)
    }
}
