//! C05 — macro usages expand per IEEE 22.5.1 and misuse is reported by name.

use super::ppcommon::{compare_with_model, gen_case, sample_json};
use crate::engine::{digest, Campaign, Ctx, Fail, Kind, Prop, Stats};
use crate::ppm::gen::PpCfg;
use crate::tape::Tape;

pub struct C05;

impl Prop for C05 {
    fn id(&self) -> &'static str {
        "C05"
    }
    fn rule(&self) -> String {
        "cases: generated define/usage programs (0-3 formals with/without defaults, actuals with nested brackets, strings, commas, empty and omitted \
         actuals, bodies with continuation lines, ``, `\", `\\`\", plain strings naming formals, block comments, trailing // comment, usages nested in bodies \
         and actuals, redefinition, body-less and caller-supplied defines, keyword-named macros), campaign `faults` injects exactly one misuse. Oracle: \
         reference preprocessor on the AST: token-for-token output, returned define table, or the expected DefineNotFound/DefineArgNotFound/DefineNoArgs with payload. \
         Non-trivial: a function-like usage with >= 2 actuals or a nested expansion (from the model's counters) or an injected fault; distinct by digest of the top file text."
            .into()
    }
    fn assumptions(&self) -> Vec<String> {
        vec![
            "outputs are compared as token sequences (harness lexer), so white-space differences are not judged here".into(),
            "more actuals than formals, usages inside `\"…`\" and strings directly followed by comments/directives (known finding K1) are not generated".into(),
        ]
    }
    fn campaigns(&self, _ctx: &Ctx) -> Vec<Campaign> {
        vec![
            Campaign { name: "expand", kind: Kind::Random { quick: 120000, thorough: 1500000 }, tape_len: 500 },
            Campaign { name: "faults", kind: Kind::Random { quick: 40000, thorough: 400000 }, tape_len: 400 },
        ]
    }
    fn run(&self, ctx: &Ctx, campaign: &str, t: &mut Tape, st: &mut Stats) -> Result<(), Fail> {
        st.eval();
        let mut cfg = PpCfg::full();
        cfg.includes = false;
        cfg.position = false;
        cfg.conds = t.chance(1, 4);
        cfg.faults = campaign == "faults";
        cfg.max_items = 12;
        cfg.define_via = campaign == "expand" && t.chance(1, 4);
        cfg.body_escaped_first = true;
        cfg.body_string_corners = true;
        let case = gen_case(ctx, t, &cfg)?;
        let o = compare_with_model(ctx, "C05", case, st)?;
        let ms = &o.model.stats;
        if ms.expansions > 0 {
            st.class("has expansion");
        }
        if ms.nested_expansions > 0 {
            st.class("has nested expansion");
        }
        if ms.empty_expansions > 0 {
            st.class("has empty expansion");
        }
        if o.model.err.is_some() {
            st.class(&format!("error:{:?}", o.model.err.as_ref().unwrap().kind).split('(').next().unwrap_or("error"));
        }
        let text = &o.case.rendered[0].text;
        for (pat, name) in [("``", "paste"), ("`\"", "bt-string"), ("`\\`\"", "bt-bs-quote"), ("\\\n", "continuation"), ("=", "default")] {
            if text.contains(pat) {
                st.class(&format!("source has {}", name));
            }
        }
        let multi_actual = o.case.rendered[0].text.matches(',').count() > 0 && ms.expansions > 0;
        if ms.nested_expansions > 0 || (ms.expansions > 0 && multi_actual) || o.case.fault.is_some() {
            st.nontrivial(digest(text.as_bytes()), || sample_json(&o));
        }
        Ok(())
    }
    fn witness(&self, _ctx: &Ctx, f: &crate::findings::Finding) -> Result<bool, Fail> {
        super::ppcommon::pp_witness(f)
    }
    fn health(&self, _ctx: &Ctx, st: &Stats) -> Result<(), String> {
        for c in ["has expansion", "has nested expansion", "has empty expansion", "source has paste", "source has bt-string", "source has continuation"] {
            let n = st.classes.get(c).copied().unwrap_or(0);
            if n * 100 < st.evaluations {
                return Err(format!("class '{}' occurs in {} of {} cases (< 1 %)", c, n, st.evaluations));
            }
        }
        Ok(())
    }
}
