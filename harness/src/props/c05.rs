//! C05 — macro usages expand per IEEE 22.5.1 and misuse is reported by name.

use super::ppcommon::{compare_with_model, gen_case, sample_json};
use crate::engine::{digest, Campaign, Ctx, Fail, Kind, Prop, Stats};
use crate::ppm::gen::PpCfg;
use crate::tape::Tape;

pub struct C05;

impl Prop for C05 {
    fn id(&self) -> &'static str {
        "C05"
    }
    fn rule(&self) -> String {
        "cases: generated define/usage programs (0-3 formals with/without defaults, actuals with nested brackets, strings, commas, empty and omitted \
         actuals, bodies with continuation lines, ``, `\", `\\`\", plain strings naming formals, block comments, trailing // comment, usages nested in bodies \
         and actuals, redefinition, body-less and caller-supplied defines, keyword-named macros), campaign `faults` injects exactly one misuse. Oracle: \
         reference preprocessor on the AST: token-for-token output, returned define table, or the expected DefineNotFound/DefineArgNotFound/DefineNoArgs with payload. \
         Non-trivial: a function-like usage with >= 2 actuals or a nested expansion (from the model's counters) or an injected fault; distinct by digest of the top file text."
            .into()
    }
    fn assumptions(&self) -> Vec<String> {
        vec![
            "outputs are compared as token sequences (harness lexer), so white-space differences are not judged here".into(),
            "more actuals than formals, usages inside `\"…`\" and strings directly followed by comments/directives (known finding K1) are not generated".into(),
        ]
    }
    fn campaigns(&self, _ctx: &Ctx) -> Vec<Campaign> {
        vec![
            Campaign { name: "expand", kind: Kind::Random { quick: 120000, thorough: 1500000 }, tape_len: 500 },
            Campaign { name: "faults", kind: Kind::Random { quick: 40000, thorough: 400000 }, tape_len: 400 },
            Campaign { name: "actual-comments", kind: Kind::Random { quick: 3000, thorough: 30000 }, tape_len: 60 },
        ]
    }
    fn run(&self, ctx: &Ctx, campaign: &str, t: &mut Tape, st: &mut Stats) -> Result<(), Fail> {
        st.eval();
        if campaign == "actual-comments" {
            return actual_comments_case(t, st);
        }
        let mut cfg = PpCfg::full();
        cfg.includes = false;
        cfg.position = false;
        cfg.conds = t.chance(1, 4);
        cfg.faults = campaign == "faults";
        cfg.max_items = 12;
        cfg.define_via = campaign == "expand" && t.chance(1, 4);
        cfg.body_escaped_first = true;
        cfg.body_string_corners = true;
        let case = gen_case(ctx, t, &cfg)?;
        let o = compare_with_model(ctx, "C05", case, st)?;
        let ms = &o.model.stats;
        if ms.expansions > 0 {
            st.class("has expansion");
        }
        if ms.nested_expansions > 0 {
            st.class("has nested expansion");
        }
        if ms.empty_expansions > 0 {
            st.class("has empty expansion");
        }
        if o.model.err.is_some() {
            st.class(&format!("error:{:?}", o.model.err.as_ref().unwrap().kind).split('(').next().unwrap_or("error"));
        }
        let text = &o.case.rendered[0].text;
        for (pat, name) in [("``", "paste"), ("`\"", "bt-string"), ("`\\`\"", "bt-bs-quote"), ("\\\n", "continuation"), ("=", "default")] {
            if text.contains(pat) {
                st.class(&format!("source has {}", name));
            }
        }
        let multi_actual = o.case.rendered[0].text.matches(',').count() > 0 && ms.expansions > 0;
        if ms.nested_expansions > 0 || (ms.expansions > 0 && multi_actual) || o.case.fault.is_some() {
            st.nontrivial(digest(text.as_bytes()), || sample_json(&o));
        }
        Ok(())
    }
    fn witness(&self, _ctx: &Ctx, f: &crate::findings::Finding) -> Result<bool, Fail> {
        super::ppcommon::pp_witness(f)
    }
    fn health(&self, _ctx: &Ctx, st: &Stats) -> Result<(), String> {
        for c in ["has expansion", "has nested expansion", "has empty expansion", "source has paste", "source has bt-string", "source has continuation"] {
            let n = st.classes.get(c).copied().unwrap_or(0);
            if n * 100 < st.evaluations {
                return Err(format!("class '{}' occurs in {} of {} cases (< 1 %)", c, n, st.evaluations));
            }
        }
        Ok(())
    }
}

/// Campaign `actual-comments`: a two-formal macro whose body goes on behind the formals, used with actuals that carry
/// comments (block comments anywhere, a one-line comment at the end of an actual, closed by its newline). The comment is
/// white space: the code tokens of the output are the body with the code tokens of the actuals in place of the
/// formals, followed by what stands behind the usage (22.5.1; a comment is never part of the text that follows it).
fn actual_comments_case(t: &mut Tape, st: &mut Stats) -> Result<(), Fail> {
    use serde_json::json;
    let between = *t.pick(&[" ", " + ", " , ", "[0] "]);
    let tail = *t.pick(&[";", " ;", " + 1;", " z", ""]);
    let pre = *t.pick(&["", "a ", "a/**/", "(", "x = "]);
    let post = *t.pick(&["\n", " b\n", "", " ;\n", ")\n"]);
    let first: &[(&str, &str)] = &[("wire", "wire"), ("p /* one */", "p"), ("wire // first\n", "wire"), ("/* c */ q", "q"), ("r // r,s\n", "r"), ("u /* , */", "u")];
    let second: &[(&str, &str)] = &[("w", "w"), ("w // second\n", "w"), ("w // second\n ", "w"), ("w /* two */", "w"), ("w /* two */ // three\n", "w"), ("v[1] // (\n", "v[1]")];
    let (a1, c1) = first[t.below(first.len())];
    let (a2, c2) = second[t.below(second.len())];
    // K12: a comma or parenthesis inside a comment of an actual is read as structure
    let k12 = a1.contains("r,s") || a1.contains("/* , */") || a2.contains("// (");
    let sep = *t.pick(&[",", ", ", " ,"]);
    let src = format!("`define TW(x,y) x{}y{}\n{}`TW({}{}{}){}", between, tail, pre, a1, sep, a2, post);
    let expected = format!("`define TW(x,y) x{}y{}\n{}{}{}{}{}{}", between, tail, pre, c1, between, c2, tail, post);
    let d = || json!({"source": src, "expected_code_tokens_of": expected});
    if k12 {
        st.class("comment holds a comma or parenthesis (K12: not judged)");
        return Ok(());
    }
    match crate::sv::pp_plain(&src) {
        Ok((out, _)) => {
            if let Err(e) = crate::ppm::run::compare_tokens(&expected, out.text()) {
                return Err(Fail::new(format!("actual with a comment: {}", e), json!({"source": src, "output": out.text(), "expected_code_tokens_of": expected})));
            }
        }
        Err(e) => return Err(Fail::new(format!("actual with a comment: usage rejected: {}", crate::sv::err_kind(&e)), d())),
    }
    if a1.contains("//") || a2.contains("//") {
        st.class("one-line comment ends an actual");
    }
    st.nontrivial(digest(src.as_bytes()), || json!({"campaign": "actual-comments", "source": src}));
    Ok(())
}
