//! C16 — tree traversal is a faithful pre-order with balanced events.

use crate::engine::{digest, Campaign, Ctx, Fail, Kind, Prop, Stats};
use crate::gen::layout::{Feats, TriviaCfg};
use crate::gen::{libgen, mutate, svgen};
use crate::sv::{self, clip, kind, Grammar, Locate, NodeEvent, RefNode, SyntaxTree};
use crate::tape::Tape;
use serde_json::json;
use sv_parser::{unwrap_locate, unwrap_node};

pub struct C16;

#[derive(Clone, Debug, PartialEq)]
struct Sig {
    kind: String,
    leaf: Option<(usize, usize)>,
}

fn sig(n: &RefNode) -> Sig {
    Sig {
        kind: kind(n),
        leaf: if let RefNode::Locate(l) = n { Some((l.offset, l.len)) } else { None },
    }
}

struct Info<'a> {
    node: RefNode<'a>,
    sig: Sig,
    size: usize,
    /// first..last+1 index range (into the leaf list) of leaves under this node
    leaves: (usize, usize),
}

pub fn check_traversal(tree: &SyntaxTree, text: &str, budget: usize) -> Result<(usize, usize), (String, serde_json::Value)> {
    // plain iteration
    let plain: Vec<RefNode> = tree.into_iter().collect();
    if plain.is_empty() {
        return Err(("iteration yields nothing".to_string(), json!({})));
    }
    let root_kind = kind(&plain[0]);
    if root_kind != "SourceText" && root_kind != "LibraryText" {
        return Err((format!("the first node of the iteration is {} (not the root)", root_kind), json!({})));
    }
    // event stream
    let mut infos: Vec<Info> = Vec::with_capacity(plain.len());
    let mut stack: Vec<usize> = Vec::new();
    let mut leaf_list: Vec<(Locate, bool)> = Vec::new(); // (leaf, under white space)
    let mut ws_depth = 0usize;
    let mut enters = 0usize;
    for ev in tree.into_iter().event() {
        match ev {
            NodeEvent::Enter(n) => {
                if enters >= plain.len() {
                    return Err(("event view has more Enter events than the plain iteration has nodes".to_string(), json!({})));
                }
                let s = sig(&n);
                if s != sig(&plain[enters]) {
                    return Err((
                        format!("Enter #{} is {:?} but plain iteration yields {:?}", enters, s, sig(&plain[enters])),
                        json!({"index": enters}),
                    ));
                }
                if let RefNode::WhiteSpace(_) = n {
                    ws_depth += 1;
                }
                if let RefNode::Locate(l) = &n {
                    if let Some((prev, _)) = leaf_list.last() {
                        if l.offset <= prev.offset {
                            return Err((format!("leaf offsets do not increase: {} after {}", l.offset, prev.offset), json!({})));
                        }
                    }
                    leaf_list.push((**l, ws_depth > 0));
                }
                let first_leaf = if let RefNode::Locate(_) = &n { leaf_list.len() - 1 } else { leaf_list.len() };
                infos.push(Info { node: n, sig: s, size: 0, leaves: (first_leaf, first_leaf) });
                stack.push(enters);
                enters += 1;
            }
            NodeEvent::Leave(n) => {
                let i = match stack.pop() {
                    Some(i) => i,
                    None => return Err((format!("Leave({}) without an open Enter", kind(&n)), json!({}))),
                };
                if sig(&n) != infos[i].sig {
                    return Err((format!("Leave({:?}) closes Enter({:?})", sig(&n), infos[i].sig), json!({"index": i})));
                }
                if let RefNode::WhiteSpace(_) = n {
                    ws_depth -= 1;
                }
                infos[i].size = enters - i;
                infos[i].leaves.1 = leaf_list.len();
            }
        }
    }
    if !stack.is_empty() {
        return Err((format!("{} nodes were entered but never left", stack.len()), json!({})));
    }
    if enters != plain.len() {
        return Err((format!("plain iteration yields {} nodes, the event view enters {}", plain.len(), enters), json!({})));
    }
    // per-node checks (all nodes, or a stride sample of large trees)
    let stride = if infos.len() <= budget { 1 } else { infos.len() / budget + 1 };
    let sigs: Vec<&Sig> = infos.iter().map(|x| &x.sig).collect();
    let mut checked = 0usize;
    for i in (0..infos.len()).step_by(stride) {
        let inf = &infos[i];
        // sub-iteration == slice of the whole iteration
        let sub: Vec<RefNode> = inf.node.clone().into_iter().collect();
        if sub.len() != inf.size {
            return Err((
                format!("iterating node #{} ({}) yields {} nodes, its event nesting holds {}", i, inf.sig.kind, sub.len(), inf.size),
                json!({"index": i, "kind": inf.sig.kind}),
            ));
        }
        for (k, s) in sub.iter().enumerate() {
            if &sig(s) != sigs[i + k] {
                return Err((
                    format!("iterating node #{} ({}): element {} is {:?}, expected {:?}", i, inf.sig.kind, k, sig(s), sigs[i + k]),
                    json!({"index": i}),
                ));
            }
        }
        // event view of the node: balanced and same Enter sequence
        let mut depth = 0i64;
        let mut k = 0usize;
        for ev in inf.node.clone().into_iter().event() {
            match ev {
                NodeEvent::Enter(n) => {
                    if k >= inf.size || &sig(&n) != sigs[i + k] {
                        return Err((format!("event view of node #{} ({}): Enter {} differs from the iteration", i, inf.sig.kind, k), json!({})));
                    }
                    k += 1;
                    depth += 1;
                }
                NodeEvent::Leave(_) => {
                    depth -= 1;
                    if depth < 0 {
                        return Err((format!("event view of node #{}: Leave without Enter", i), json!({})));
                    }
                }
            }
        }
        if depth != 0 || k != inf.size {
            return Err((format!("event view of node #{} ({}) is not balanced / complete", i, inf.sig.kind), json!({})));
        }
        // unwrap_locate! / unwrap_node!
        let first_leaf_lin = (0..inf.size).find(|k| sigs[i + k].leaf.is_some()).map(|k| sigs[i + k].leaf.unwrap());
        let got = unwrap_locate!(inf.node.clone()).map(|l| (l.offset, l.len));
        if got != first_leaf_lin {
            return Err((format!("unwrap_locate!(node #{} {}) = {:?}, linear search finds {:?}", i, inf.sig.kind, got, first_leaf_lin), json!({})));
        }
        macro_rules! check_unwrap {
            ($($ty:ident),+) => {{
                let names = [$(stringify!($ty)),+];
                let lin = (0..inf.size).find(|k| names.contains(&sigs[i + k].kind.as_str()));
                let got = unwrap_node!(inf.node.clone(), $($ty),+);
                match (lin, got) {
                    (None, None) => {}
                    (Some(k), Some(g)) => {
                        let want = &infos[i + k];
                        let gsub: Vec<RefNode> = g.clone().into_iter().collect();
                        let first_leaf = gsub.iter().find_map(|x| if let RefNode::Locate(l) = x { Some(l.offset) } else { None });
                        let want_first = if want.leaves.0 < want.leaves.1 { Some(leaf_list[want.leaves.0].0.offset) } else { None };
                        if kind(&g) != want.sig.kind || gsub.len() != want.size || first_leaf != want_first {
                            return Err((
                                format!("unwrap_node!(node #{} {}, {:?}) returns {} (size {}, first leaf {:?}) but the first match in order is {} (size {}, first leaf {:?})",
                                        i, inf.sig.kind, names, kind(&g), gsub.len(), first_leaf, want.sig.kind, want.size, want_first),
                                json!({}),
                            ));
                        }
                    }
                    (l, g) => {
                        return Err((format!("unwrap_node!(node #{} {}, {:?}) = {:?}, linear search index {:?}", i, inf.sig.kind, names, g.map(|x| kind(&x)), l), json!({})));
                    }
                }
            }};
        }
        check_unwrap!(ModuleIdentifier);
        check_unwrap!(Identifier);
        check_unwrap!(Keyword, Symbol);
        check_unwrap!(SimpleIdentifier, EscapedIdentifier);
        check_unwrap!(WhiteSpace);
        check_unwrap!(Expression, ConstantExpression);
        check_unwrap!(Statement, ModuleItem);
        check_unwrap!(Comment);
        check_unwrap!(FilePathSpec, LibraryIdentifier);
        // get_str_trim: from the first to the last leaf that is not under a WhiteSpace node of this subtree
        let want: Option<&str> = trim_relative(&infos[i..i + inf.size], text);
        let got = tree.get_str_trim(vec![inf.node.clone()]);
        if got != want {
            return Err((
                format!("get_str_trim(node #{} {}) = {:?}, expected {:?}", i, inf.sig.kind, got.map(|s| clip(s, 60)), want.map(|s| clip(s, 60))),
                json!({"index": i, "kind": inf.sig.kind}),
            ));
        }
        checked += 1;
    }
    Ok((infos.len(), checked))
}

fn has_ws_descendant_or_self(slice: &[Info]) -> bool {
    slice.iter().any(|x| x.sig.kind == "WhiteSpace")
}

/// Is node i a proper descendant of a WhiteSpace node?
fn is_below_ws(infos: &[Info], i: usize) -> bool {
    // walk back: an ancestor j < i with j + size > i and kind WhiteSpace
    let mut j = i;
    while j > 0 {
        j -= 1;
        if j + infos[j].size > i && infos[j].sig.kind == "WhiteSpace" {
            return true;
        }
    }
    false
}

/// get_str_trim semantics relative to the node: leaves not under a WhiteSpace node *of this subtree*.
fn trim_relative<'t>(slice: &[Info], text: &'t str) -> Option<&'t str> {
    let mut first: Option<usize> = None;
    let mut end = 0usize;
    let mut k = 0usize;
    while k < slice.len() {
        if slice[k].sig.kind == "WhiteSpace" {
            k += slice[k].size;
            continue;
        }
        if let Some((o, l)) = slice[k].sig.leaf {
            if first.is_none() {
                first = Some(o);
            }
            end = o + l;
        }
        k += 1;
    }
    first.map(|f| &text[f..end])
}

fn traverse_text(g: Grammar, src: &str, st: &mut Stats, from: &str) -> Result<bool, Fail> {
    let (tree, text) = match sv::parse_text(g, src, false) {
        Ok(x) => x,
        Err(_) => match sv::parse_text(g, src, true) {
            Ok(x) => x,
            Err(_) => return Ok(false),
        },
    };
    match check_traversal(&tree, &text, 1500) {
        Ok((nodes, checked)) => {
            st.count("nodes visited", nodes as u64);
            st.count("nodes with sub-iteration / unwrap / get_str_trim checks", checked as u64);
            if nodes >= 50 {
                st.nontrivial(digest(text.as_bytes()), || json!({"from": from, "nodes": nodes, "text": clip(&text, 300)}));
            }
            Ok(true)
        }
        Err((msg, d)) => Err(Fail::new(format!("traversal: {}", msg), json!({"from": from, "source": src, "detail": d}))),
    }
}

impl Prop for C16 {
    fn id(&self) -> &'static str {
        "C16"
    }
    fn rule(&self) -> String {
        "cases: every corpus file (SystemVerilog and library maps), generated Annex A programs, library maps and accepted token-level mutants (strict trees, else the incomplete-mode tree). \
         Oracle on each tree: the root comes first; the event view's Enter sequence equals the plain iteration and every Leave closes the matching Enter; leaf offsets strictly \
         increase; for every node (all nodes of trees <= 1500 nodes, a fixed-stride sample of larger ones): iterating the node yields exactly its slice of the whole iteration (size from \
         the event nesting), its own event view is balanced with the same Enter sequence, unwrap_locate! and unwrap_node! (nine kind sets) return the first match of a linear search of \
         that slice, and get_str_trim equals the text from its first to its last leaf outside WhiteSpace nodes of the subtree. Non-trivial: trees with >= 50 nodes; distinct by text digest."
            .into()
    }
    fn assumptions(&self) -> Vec<String> {
        vec!["nodes are compared by (kind, leaf offset/length) signatures and subtree sizes, not by deep structural equality".into()]
    }
    fn campaigns(&self, ctx: &Ctx) -> Vec<Campaign> {
        vec![
            Campaign { name: "corpus", kind: Kind::Enumerated { count: ctx.corpus.sv.len() }, tape_len: 1 },
            Campaign { name: "lib", kind: Kind::Enumerated { count: ctx.corpus.lib.len() }, tape_len: 1 },
            Campaign { name: "svgen", kind: Kind::Random { quick: 2500, thorough: 25000 }, tape_len: 900 },
            Campaign { name: "mutants", kind: Kind::Random { quick: 1500, thorough: 15000 }, tape_len: 64 },
            Campaign { name: "libgen", kind: Kind::Random { quick: 800, thorough: 8000 }, tape_len: 200 },
        ]
    }
    fn run(&self, ctx: &Ctx, campaign: &str, t: &mut Tape, st: &mut Stats) -> Result<(), Fail> {
        st.eval();
        let ok = match campaign {
            "corpus" => {
                let f = &ctx.corpus.sv[t.raw() as usize % ctx.corpus.sv.len()];
                traverse_text(Grammar::Sv, &f.text, st, &f.name)?
            }
            "lib" => {
                let f = &ctx.corpus.lib[t.raw() as usize % ctx.corpus.lib.len()];
                traverse_text(Grammar::Lib, &f.text, st, &f.name)?
            }
            "svgen" => {
                let p = svgen::generate_mixed(t, &svgen::Cfg::default());
                let mut f = Feats::default();
                let text = p.render(t, &TriviaCfg::full(), &mut f);
                traverse_text(Grammar::Sv, &text, st, "svgen")?
            }
            "mutants" => {
                let f = t.pick(&ctx.corpus.sv);
                let m = mutate::mutate_text(&f.text, t);
                traverse_text(Grammar::Sv, &m, st, &f.name)?
            }
            _ => {
                let text = libgen::generate(t);
                traverse_text(Grammar::Lib, &text, st, "libgen")?
            }
        };
        st.class(if ok { "tree obtained" } else { "no tree (preprocessor rejected)" });
        Ok(())
    }
}
