//! C08 — every entry point is total: Ok or a structured Error, never a panic.

use crate::engine::{digest, Campaign, Ctx, Fail, Kind, Prop, Stats, LAST_PANIC_LOCATION};
use crate::gen::layout::{Feats, TriviaCfg};
use crate::gen::{libgen, mutate, svgen};
use crate::ppm::gen::{self as ppgen, PpCfg};
use crate::ppm::run;
use crate::sv::{self, clip, Defs, Error, Locate, NodeEvent, RefNode, SyntaxTree};
use crate::tape::Tape;
use serde_json::json;
use std::convert::TryFrom;
use std::panic::{catch_unwind, AssertUnwindSafe};
use std::path::{Path, PathBuf};

pub struct C08;

fn nesting(s: &str) -> usize {
    let mut d: i64 = 0;
    let mut max = 0i64;
    let mut words = 0i64;
    for c in s.chars() {
        match c {
            '(' | '[' | '{' => {
                d += 1;
                max = max.max(d);
            }
            ')' | ']' | '}' => d -= 1,
            _ => {}
        }
    }
    for w in s.split(|c: char| !c.is_alphanumeric() && c != '_') {
        if matches!(w, "begin" | "fork" | "module" | "case" | "generate" | "function" | "task" | "class" | "if" | "ifdef" | "ifndef") {
            words += 1;
        }
    }
    (max.max(0) + words) as usize
}

/// Walk a tree through every public accessor.
fn exercise_tree(tree: &SyntaxTree) -> usize {
    let mut n = 0usize;
    let nodes: Vec<RefNode> = tree.into_iter().collect();
    let stride = if nodes.len() > 600 { nodes.len() / 600 + 1 } else { 1 };
    for ev in tree.into_iter().event() {
        match ev {
            NodeEvent::Enter(_) => n += 1,
            NodeEvent::Leave(_) => {}
        }
    }
    for (i, node) in nodes.iter().enumerate() {
        if i % stride != 0 {
            continue;
        }
        let _ = tree.get_str(vec![node.clone()]);
        let _ = tree.get_str_trim(vec![node.clone()]);
        let _ = format!("{}", node);
        match node {
            RefNode::Locate(l) => {
                let _ = tree.get_origin(l);
            }
            RefNode::Keyword(x) => {
                let _ = Locate::try_from(*x);
            }
            RefNode::Symbol(x) => {
                let _ = Locate::try_from(*x);
            }
            RefNode::SourceText(x) => {
                let _ = Locate::try_from(*x);
            }
            RefNode::LibraryText(x) => {
                let _ = Locate::try_from(*x);
            }
            RefNode::Description(x) => {
                let _ = Locate::try_from(*x);
            }
            RefNode::ModuleDeclaration(x) => {
                let _ = Locate::try_from(*x);
            }
            RefNode::Identifier(x) => {
                let _ = Locate::try_from(*x);
            }
            RefNode::Expression(x) => {
                let _ = Locate::try_from(*x);
            }
            RefNode::Statement(x) => {
                let _ = Locate::try_from(*x);
            }
            RefNode::WhiteSpace(x) => {
                let _ = Locate::try_from(*x);
            }
            RefNode::ModuleItem(x) => {
                let _ = Locate::try_from(*x);
            }
            RefNode::LibraryDescription(x) => {
                let _ = Locate::try_from(*x);
            }
            _ => {}
        }
    }
    let _ = format!("{}", tree);
    let _ = format!("{:?}", tree);
    n
}

fn exercise_pp(r: &Result<(sv::PreprocessedText, Defs), Error>) {
    if let Ok((t, d)) = r {
        let len = t.text().len();
        for i in (0..=len + 1).step_by((len / 200).max(1)) {
            let _ = t.origin(i);
        }
        let _ = format!("{:?}", d.len());
    } else if let Err(e) = r {
        let _ = format!("{} {:?}", e, e);
    }
}

/// All string entry points on one text. Returns (preprocessor accepted, number of trees walked).
pub fn all_string_entry_points(text: &str, path: &Path, defs: &Defs, incs: &[PathBuf]) -> (bool, usize) {
    let mut pp_ok = false;
    let mut trees = 0;
    for (ign, strip) in [(false, false), (true, false), (false, true), (true, true)] {
        let r = sv::preprocess_str(text, path, defs, incs, ign, strip, 0, 0);
        if r.is_ok() {
            pp_ok = true;
        }
        exercise_pp(&r);
    }
    for inc in [false, true] {
        match sv::parse_sv_str(text, path, defs, incs, false, inc) {
            Ok((t, _)) => {
                exercise_tree(&t);
                trees += 1;
            }
            Err(e) => {
                let _ = format!("{} {:?}", e, e);
            }
        }
        match sv::parse_lib_str(text, path, defs, incs, false, inc) {
            Ok((t, _)) => {
                exercise_tree(&t);
                trees += 1;
            }
            Err(e) => {
                let _ = format!("{} {:?}", e, e);
            }
        }
    }
    (pp_ok, trees)
}

fn guarded<F: FnOnce() -> R, R>(f: F, what: &str, detail: &dyn Fn() -> serde_json::Value) -> Result<R, Fail> {
    match catch_unwind(AssertUnwindSafe(f)) {
        Ok(r) => Ok(r),
        Err(e) => {
            let msg = if let Some(s) = e.downcast_ref::<&str>() {
                s.to_string()
            } else if let Some(s) = e.downcast_ref::<String>() {
                s.clone()
            } else {
                "<non-string panic>".to_string()
            };
            let loc = LAST_PANIC_LOCATION.with(|x| x.borrow().clone());
            Err(Fail::new(format!("panic in {} at {}: {}", what, loc, clip(&msg, 300)), detail()))
        }
    }
}

fn random_defs(t: &mut Tape) -> Defs {
    let mut d = Defs::new();
    let n = t.below(4);
    for _ in 0..n {
        let name = t.pick_str(&["X", "A", "W", "M", "define", "é", ""]).to_string();
        if t.chance(1, 4) {
            d.insert(name, None);
        } else {
            let body = t.pick_str(&["1", "", "\"unterminated", "/* open", "\\", "`X", "`Y(", "a b", "`include \"f\"", "`define Z 1", "``", "`\"", "(", "é", "`A `A"]).to_string();
            let args: Vec<(String, Option<String>)> = match t.below(4) {
                0 => vec![("x".to_string(), None)],
                1 => vec![("x".to_string(), Some("\"".to_string())), ("y".to_string(), None)],
                _ => vec![],
            };
            let key = name.clone();
            d.insert(key, Some(sv::Define { identifier: if t.chance(1, 6) { "OTHER".to_string() } else { name }, arguments: args, text: if t.chance(1, 8) { None } else { Some(sv::DefineText { text: body, origin: None }) } }));
        }
    }
    d
}

impl Prop for C08 {
    fn id(&self) -> &'static str {
        "C08"
    }
    fn witness(&self, ctx: &Ctx, f: &crate::findings::Finding) -> Result<bool, Fail> {
        // witness {"kind":"child_stack","unit":…,"repeat":n,"prefix":…,"suffix":…}: a long chain without bracket nesting,
        // parsed on the main thread of a child process with the usual 8 MiB stack; still fails iff that child dies
        if f.witness["kind"].as_str() != Some("child_stack") {
            return Ok(false);
        }
        let w = &f.witness;
        let text = format!(
            "{}{}{}",
            w["prefix"].as_str().unwrap_or(""),
            w["unit"].as_str().unwrap_or("").repeat(w["repeat"].as_u64().unwrap_or(0) as usize),
            w["suffix"].as_str().unwrap_or("")
        );
        let dir = ctx.scratch.join(format!("witness-{}", f.id));
        let _ = std::fs::remove_dir_all(&dir);
        std::fs::create_dir_all(&dir).map_err(|e| Fail::new(format!("harness: {}", e), json!({"infrastructure": true})))?;
        let spec = json!({"parse_text": text});
        let res = super::c09::run_child_limited(&spec, &dir, 120, Some(8_000_000)).map_err(|e| Fail::new(format!("harness: {}", e), json!({"infrastructure": true})))?;
        let _ = std::fs::remove_dir_all(&dir);
        match res {
            super::c09::ChildResult::Crashed(_) => Ok(true),
            super::c09::ChildResult::TimedOut => Err(Fail::new(format!("witness of {} did not finish within 120 s", f.id), json!({"infrastructure": true}))),
            super::c09::ChildResult::Json(_) => Ok(false),
        }
    }
    fn rule(&self) -> String {
        "cases: (soup) token soups over a ~130-word vocabulary of keywords, directives, delimiters and fragments with random caller defines (incl. bodies that do not lex, names that are not \
         identifiers, mismatching identifier fields) and include paths; (mutants) token-level mutants and byte truncations of corpus files, generated Annex A programs, generated preprocessor programs \
         and library maps; (files) arbitrary bytes (invalid UTF-8 included) as the top file or as an included file, include targets that are missing or directories. Each input goes through \
         preprocess_str (all four flag pairs), parse_sv_str and parse_lib_str (strict and incomplete), and for files preprocess / parse_sv / parse_lib; every returned tree is walked: iteration, event \
         view, Display, Debug, get_str, get_str_trim, get_origin and Locate::try_from on nodes of twelve kinds; every PreprocessedText is probed with origin() beyond its end. Oracle: no panic \
         (catch_unwind); a non-UTF-8 file yields ReadUtf8(that file), wrapped in Include when included; a missing file yields File{path tried}. Inputs whose bracket / block-keyword nesting exceeds \
         24 are skipped and counted (the stated stack exclusion, far below the overflow depth of the 1 GiB worker stacks). Non-trivial: the preprocessor accepted the input (so the parsers ran); \
         distinct by digest of the input."
            .into()
    }
    fn assumptions(&self) -> Vec<String> {
        vec!["a panic anywhere below the entry point is caught by catch_unwind in the worker thread; stack exhaustion cannot be caught and is kept out by the nesting bound".into()]
    }
    fn campaigns(&self, _ctx: &Ctx) -> Vec<Campaign> {
        vec![
            Campaign { name: "soup", kind: Kind::Random { quick: 300000, thorough: 3000000 }, tape_len: 60 },
            Campaign { name: "mutants", kind: Kind::Random { quick: 24000, thorough: 300000 }, tape_len: 700 },
            Campaign { name: "files", kind: Kind::Random { quick: 16000, thorough: 200000 }, tape_len: 80 },
        ]
    }
    fn run(&self, ctx: &Ctx, campaign: &str, t: &mut Tape, st: &mut Stats) -> Result<(), Fail> {
        st.eval();
        let dir = format!("{}/c08", run::thread_dir(&ctx.scratch));
        match campaign {
            "soup" | "mutants" => {
                let text = if campaign == "soup" {
                    mutate::soup(t)
                } else {
                    let base = match t.below(4) {
                        0 => t.pick(&ctx.corpus.sv).text.clone(),
                        1 => {
                            let p = svgen::generate(t, &svgen::Cfg::default());
                            let mut f = Feats::default();
                            p.render(t, &TriviaCfg::full(), &mut f)
                        }
                        2 => {
                            let case = ppgen::generate(t, &PpCfg { includes: false, ..PpCfg::full() }, &dir);
                            case.rendered[0].text.clone()
                        }
                        _ => libgen::generate(t),
                    };
                    if t.chance(1, 3) {
                        let mut cut = t.below(base.len() + 1);
                        while !base.is_char_boundary(cut) {
                            cut -= 1;
                        }
                        base[..cut].to_string()
                    } else {
                        mutate::mutate_text(&base, t)
                    }
                };
                if nesting(&text) > 24 {
                    st.skip("nesting deeper than 24 (stack exclusion)");
                    return Ok(());
                }
                let defs = if campaign == "soup" { random_defs(t) } else { Defs::new() };
                let incs: Vec<PathBuf> = if t.chance(1, 4) { vec![PathBuf::from("/nonexistent/dir"), PathBuf::from("")] } else { vec![] };
                let d = || json!({"input": text, "defines": format!("{:?}", defs), "include_paths": format!("{:?}", incs)});
                let (pp_ok, trees) = guarded(|| all_string_entry_points(&text, Path::new("soup.sv"), &defs, &incs), "a string entry point / tree accessor", &d)?;
                if trees > 0 {
                    st.class("a tree was returned and walked");
                }
                if pp_ok {
                    st.class("preprocessor accepted");
                    st.nontrivial(digest(text.as_bytes()), || json!({"campaign": campaign, "input": clip(&text, 200)}));
                }
            }
            _ => {
                let _ = std::fs::create_dir_all(&dir);
                // bytes for a file
                let n = t.below(40);
                let mut bytes: Vec<u8> = Vec::new();
                let valid_utf8 = t.chance(1, 3);
                for _ in 0..n {
                    if valid_utf8 {
                        bytes.extend_from_slice(t.pick_str(&["a", " ", "\n", "`", "\"", "/", "*", "é", "module", "`include \"x\"", ";", "\\"]).as_bytes());
                    } else {
                        bytes.push(*t.pick(&[0x00u8, 0x7f, 0x80, 0xff, 0xc3, 0x28, b'a', b'\n', b'`', b'"', 0xe2, 0x82, 0xfe]));
                    }
                }
                let is_utf8 = std::str::from_utf8(&bytes).is_ok();
                let as_include = t.flip();
                let kind = t.below(4); // 0,1: the byte file; 2: missing; 3: a directory
                let top = PathBuf::from(format!("{}/top.sv", dir));
                let target = PathBuf::from(format!("{}/inc_target.svh", dir));
                let _ = std::fs::remove_file(&target);
                let _ = std::fs::remove_dir_all(&target);
                let d = || json!({"bytes": format!("{:?}", bytes), "as_include": as_include, "target_kind": kind});
                if as_include {
                    match kind {
                        2 => {}
                        3 => {
                            let _ = std::fs::create_dir_all(&target);
                        }
                        _ => {
                            let _ = std::fs::write(&target, &bytes);
                        }
                    }
                    let _ = std::fs::write(&top, "before\n`include \"inc_target.svh\"\nafter\n");
                } else {
                    let _ = std::fs::write(&top, &bytes);
                }
                let incs = vec![PathBuf::from(&dir)];
                let r = guarded(
                    || {
                        let a = sv::preprocess(&top, &Defs::new(), &incs, false, false);
                        exercise_pp(&a);
                        for inc in [false, true] {
                            if let Ok((tr, _)) = sv::parse_sv(&top, &Defs::new(), &incs, false, inc) {
                                exercise_tree(&tr);
                            }
                            if let Ok((tr, _)) = sv::parse_lib(&top, &Defs::new(), &incs, false, inc) {
                                exercise_tree(&tr);
                            }
                        }
                        a.map(|(t, _)| t.text().to_string())
                    },
                    "a file entry point",
                    &d,
                )?;
                // structured errors for unreadable input
                let kindstr = match &r {
                    Ok(_) => "ok".to_string(),
                    Err(e) => sv::err_kind(e),
                };
                if !as_include && !is_utf8 {
                    let want = format!("ReadUtf8({})", top.display());
                    if kindstr != want {
                        return Err(Fail::new(format!("non-UTF-8 top file: expected {}, got {}", want, kindstr), d()));
                    }
                    st.class("non-UTF-8 top file -> ReadUtf8");
                }
                if as_include {
                    let opened = format!("{}/inc_target.svh", dir);
                    match kind {
                        2 => {
                            let want = "Include[File(inc_target.svh)]";
                            if kindstr != want {
                                return Err(Fail::new(format!("missing include target: expected {}, got {}", want, kindstr), d()));
                            }
                            st.class("missing include target -> Include[File]");
                        }
                        3 => {
                            let a = format!("Include[ReadUtf8({})]", opened);
                            let b = format!("Include[File({})]", opened);
                            if kindstr != a && kindstr != b {
                                return Err(Fail::new(format!("directory as include target: expected {} or {}, got {}", a, b, kindstr), d()));
                            }
                            st.class("directory include target -> structured error");
                        }
                        _ => {
                            if !is_utf8 {
                                let want = format!("Include[ReadUtf8({})]", opened);
                                if kindstr != want {
                                    return Err(Fail::new(format!("non-UTF-8 included file: expected {}, got {}", want, kindstr), d()));
                                }
                                st.class("non-UTF-8 included file -> Include[ReadUtf8]");
                            }
                        }
                    }
                }
                st.nontrivial(digest(format!("{:?}{}{}", bytes, as_include, kind).as_bytes()), || json!({"campaign": "files", "bytes": bytes.len(), "utf8": is_utf8, "as_include": as_include, "result": kindstr}));
            }
        }
        Ok(())
    }
}
