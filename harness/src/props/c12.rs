//! C12 — trivia between tokens (blanks, comments, neutral directives) never alters the parse.

use crate::engine::{digest, Campaign, Ctx, Fail, Kind, Prop, Stats};
use crate::gen::layout::{self, Feats, TriviaCfg};
use crate::gen::svgen::{self, Class, Program, Tok};
use crate::sv::{self, clip, first_diff, skeleton, Grammar, NodeEvent, RefNode};
use crate::tape::Tape;
use serde_json::json;

pub struct C12;

/// Skeleton with `resetall descriptions removed.
fn skeleton_no_resetall(tree: &sv::SyntaxTree, text: &str) -> Vec<String> {
    let sk = skeleton(tree, text);
    let pat = ["Description", "ResetallCompilerDirective", "Symbol", "'`", "Keyword", "'resetall"];
    let mut out = Vec::with_capacity(sk.len());
    let mut i = 0;
    while i < sk.len() {
        if i + pat.len() <= sk.len() && (0..pat.len()).all(|k| sk[i + k] == pat[k]) {
            i += pat.len();
        } else {
            out.push(sk[i].clone());
            i += 1;
        }
    }
    out
}

/// A leaf outside WhiteSpace subtrees is a token; apart from string literals no token holds white space (if one did,
/// the trivia behind it would be part of the token and could not be replaced). Returns the offending (owner kind, text).
fn token_with_white_space(tree: &sv::SyntaxTree, text: &str) -> Option<(String, String)> {
    let mut stack: Vec<String> = Vec::new();
    let mut ws = 0usize;
    for e in tree.into_iter().event() {
        match e {
            NodeEvent::Enter(n) => {
                if let RefNode::WhiteSpace(_) = n {
                    ws += 1;
                }
                if let RefNode::Locate(l) = n {
                    if ws == 0 && stack.last().map(|k| k != "StringLiteral").unwrap_or(true) {
                        let t = &text[l.offset..l.offset + l.len];
                        if t.chars().any(|c| c.is_whitespace()) {
                            return Some((stack.last().cloned().unwrap_or_default(), t.to_string()));
                        }
                    }
                }
                stack.push(sv::kind(&n));
            }
            NodeEvent::Leave(n) => {
                stack.pop();
                if let RefNode::WhiteSpace(_) = n {
                    ws -= 1;
                }
            }
        }
    }
    None
}

thread_local! {
    /// set by parse_sk* when an accepted tree holds a token with white space inside (reported by the caller)
    static BAD_TOKEN: std::cell::RefCell<Option<(String, String)>> = std::cell::RefCell::new(None);
}

fn parse_sk_g(g: Grammar, text: &str) -> Option<Vec<String>> {
    sv::parse_text(g, text, false).ok().map(|(t, pp)| {
        if let Some(x) = token_with_white_space(&t, &pp) {
            BAD_TOKEN.with(|b| *b.borrow_mut() = Some(x));
        }
        skeleton_no_resetall(&t, &pp)
    })
}

fn parse_sk(text: &str) -> Option<Vec<String>> {
    parse_sk_g(Grammar::Sv, text)
}

fn parse_sk_lib(text: &str) -> Option<Vec<String>> {
    parse_sk_g(Grammar::Lib, text)
}

fn take_bad_token() -> Option<(String, String)> {
    BAD_TOKEN.with(|b| b.borrow_mut().take())
}

/// Does listed finding K3 touch one of the two layouts (the production memo configuration parses it differently
/// from the unbounded table, which agrees with itself under both keys)? At the production capacity K3 shows as a
/// rejection or as a different (shorter) tree, depending on where the white space stands.
fn k3_layout(a: &str, b: &str) -> bool {
    let pp = |x: &str| sv::pp_plain(x).map(|(t, _)| t.text().to_string()).ok();
    match (pp(a), pp(b)) {
        (Some(x), Some(y)) => sv::k3_touches(Grammar::Sv, &[(&x, false), (&y, false)]),
        _ => false,
    }
}

fn compare(ctx: &Ctx, a_text: &str, b_text: &str, what: &str, st: &mut Stats) -> Result<bool, Fail> {
    let a = parse_sk(a_text);
    let b = parse_sk(b_text);
    let detail = || json!({"layout_a": a_text, "layout_b": b_text, "transformation": what});
    let differ = match (&a, &b) {
        (Some(x), Some(y)) => first_diff(x, y).is_some(),
        (None, None) => false,
        _ => true,
    };
    if differ && ctx.findings.is_known("C12", "K3") && k3_layout(a_text, b_text) {
        st.known("K3");
        st.class("one layout parsed differently at the production memo capacity than with the unbounded table (listed finding K3)");
        return Ok(false);
    }
    match (a, b) {
        (Some(x), Some(y)) => {
            if let Some((i, p, q)) = first_diff(&x, &y) {
                return Err(Fail::new(format!("{}: trees differ at skeleton index {}: {:?} vs {:?}", what, i, p, q), detail()));
            }
            st.class("accepted under both layouts, equal trees");
            Ok(true)
        }
        (None, None) => {
            st.class("rejected under both layouts");
            Ok(false)
        }
        (Some(_), None) => Err(Fail::new(format!("{}: accepted under layout A, rejected under layout B", what), detail())),
        (None, Some(_)) => Err(Fail::new(format!("{}: rejected under layout A, accepted under layout B", what), detail())),
    }
}

fn mutate_tokens(p: &Program, t: &mut Tape) -> Program {
    let mut q = p.clone();
    q.expects.clear();
    let rounds = 1 + t.below(2);
    for _ in 0..rounds {
        if q.toks.len() < 2 {
            break;
        }
        let i = t.below(q.toks.len());
        match t.below(5) {
            0 => {
                q.toks.remove(i);
            }
            1 => {
                let x = q.toks[i].clone();
                q.toks.insert(i, x);
            }
            2 => {
                let j = t.below(q.toks.len());
                q.toks.swap(i, j);
            }
            3 => {
                let w = *t.pick(&["module", "end", "begin", "wire", "endmodule", "(", ")", ";"]);
                let class = if w.chars().next().unwrap().is_alphabetic() { Class::Keyword } else { Class::Symbol };
                q.toks[i] = Tok { text: w.to_string(), class };
            }
            _ => {
                q.toks.truncate(i.max(1));
            }
        }
    }
    // a NumPart must follow a number: after mutation treat stray parts as numbers
    for k in 0..q.toks.len() {
        if q.toks[k].class == Class::NumPart && (k == 0 || !matches!(q.toks[k - 1].class, Class::Number | Class::NumPart)) {
            q.toks[k].class = Class::Number;
        }
    }
    q
}

impl Prop for C12 {
    fn id(&self) -> &'static str {
        "C12"
    }
    fn rule(&self) -> String {
        "cases: (svgen) a generated program rendered twice with white space at the same inter-token positions but independently generated non-empty runs (blanks, tabs, form feeds, \
         CR/LF/CRLF, both comment kinds, `celldefine/`endcelldefine/`default_nettype/`timescale/`unconnected_drive/`nounconnected_drive/`line/`define/`undef/`undefineall) and once \
         plainly; (mutants) the same for token-level mutants of generated programs (mostly rejected); (corpus) accepted corpus files with their existing white-space runs outside \
         compiler directives replaced; (resetall) `resetall placed between the top-level descriptions. Oracle: same acceptance by parse_sv_str; if accepted, equal trees once WhiteSpace \
         subtrees (and the inserted `resetall descriptions) are disregarded. Non-trivial: >= 5 runs replaced and the new runs contain >= 1 comment and >= 1 directive; distinct by digest of both layouts."
            .into()
    }
    fn witness(&self, _ctx: &Ctx, f: &crate::findings::Finding) -> Result<bool, Fail> {
        // witness {"kind":"trivia_pair","plain":…,"with_trivia":…}: a source and the same source with trivia put between
        // two tokens; still fails iff the two differ in acceptance or in the node kinds outside white space
        if f.witness["kind"].as_str() == Some("trivia_pair") {
            let a = f.witness["plain"].as_str().unwrap_or("");
            let b = f.witness["with_trivia"].as_str().unwrap_or("");
            let (ra, rb) = (parse_sk(a), parse_sk(b));
            let _ = take_bad_token();
            if ra.is_none() {
                return Err(Fail::new(format!("witness of {}: the plain source is rejected", f.id), json!({"plain": a})));
            }
            return Ok(ra != rb);
        }
        // witness {"kind":"k3_layout","layout_a":…,"layout_b":…}: still fails iff exactly one layout is rejected, in the listed way
        if f.witness["kind"].as_str() != Some("k3_layout") {
            return Ok(false);
        }
        let a = f.witness["layout_a"].as_str().unwrap_or("");
        let b = f.witness["layout_b"].as_str().unwrap_or("");
        let (ra, rb) = (parse_sk(a), parse_sk(b));
        if ra.is_some() == rb.is_some() {
            return Ok(false);
        }
        if k3_layout(a, b) {
            Ok(true)
        } else {
            Err(Fail::new(format!("witness of {}: the layouts differ in acceptance but not in the listed way", f.id), json!({"layout_a": a, "layout_b": b})))
        }
    }
    fn assumptions(&self) -> Vec<String> {
        vec![
            "`pragma is not used as trivia (its expression list is open-ended); a run after an escaped identifier starts with white space; runs next to '/' or '*' start/end with a blank".into(),
            "known finding K1: no `define in the trivia run that follows a string / escaped identifier (the preprocessor duplicates that run without the terminating newline)".into(),
        ]
    }
    fn campaigns(&self, _ctx: &Ctx) -> Vec<Campaign> {
        vec![
            Campaign { name: "svgen", kind: Kind::Random { quick: 4000, thorough: 60000 }, tape_len: 1600 },
            Campaign { name: "mutants", kind: Kind::Random { quick: 3000, thorough: 40000 }, tape_len: 1200 },
            Campaign { name: "corpus", kind: Kind::Random { quick: 3000, thorough: 40000 }, tape_len: 500 },
            Campaign { name: "resetall", kind: Kind::Random { quick: 1500, thorough: 20000 }, tape_len: 900 },
            Campaign { name: "lib", kind: Kind::Random { quick: 3000, thorough: 40000 }, tape_len: 200 },
        ]
    }
    fn run(&self, ctx: &Ctx, campaign: &str, t: &mut Tape, st: &mut Stats) -> Result<(), Fail> {
        let _ = take_bad_token();
        let r = self.run_case(ctx, campaign, t, st);
        if r.is_ok() {
            if let Some((kind, text)) = take_bad_token() {
                return Err(Fail::new(
                    format!("a token of an accepted tree holds white space: {:?} under {} (the trivia behind it is part of the token)", text, kind),
                    json!({"campaign": campaign, "token": text, "owner": kind}),
                ));
            }
        }
        r
    }
}

impl C12 {
    fn run_case(&self, ctx: &Ctx, campaign: &str, t: &mut Tape, st: &mut Stats) -> Result<(), Fail> {
        st.eval();
        let mut cfg = TriviaCfg::full();
        cfg.formfeed = true;
        match campaign {
            "lib" => {
                // library maps: the same tokens under two white-space layouts (parse_lib_str)
                let toks = crate::gen::libgen::generate_tokens(t);
                let a = crate::gen::libgen::render_tokens(&toks, t);
                let b = crate::gen::libgen::render_tokens(&toks, t);
                let (ra, rb) = (parse_sk_lib(&a), parse_sk_lib(&b));
                let detail = || json!({"layout_a": a, "layout_b": b, "transformation": "white-space runs of a library map replaced"});
                match (ra, rb) {
                    (Some(x), Some(y)) => {
                        if let Some((i, p, q)) = first_diff(&x, &y) {
                            return Err(Fail::new(format!("library map: trees differ at skeleton index {}: {:?} vs {:?}", i, p, q), detail()));
                        }
                        st.class("library map accepted under both layouts, equal trees");
                        if toks.len() >= 6 {
                            st.nontrivial(digest(format!("{}\u{1}{}", a, b).as_bytes()), || json!({"campaign": campaign, "layout_b": clip(&b, 300)}));
                        }
                    }
                    (None, None) => st.class("library map rejected under both layouts"),
                    _ => return Err(Fail::new("library map: accepted under one layout, rejected under the other", detail())),
                }
            }
            "svgen" | "mutants" => {
                let mut p = svgen::generate_mixed(t, &svgen::Cfg::default());
                if campaign == "mutants" {
                    p = mutate_tokens(&p, t);
                }
                let mut fa = Feats::default();
                let mut fb = Feats::default();
                let (a, mask) = p.render_masked(t, &TriviaCfg::plain(), &mut fa, None, 4);
                let (b, _) = p.render_masked(t, &cfg, &mut fb, Some(&mask), 2);
                let ok = compare(ctx, &a, &b, "white-space runs replaced", st)?;
                let (c, _) = p.render_masked(t, &cfg, &mut fb, Some(&mask), 1);
                compare(ctx, &b, &c, "white-space runs replaced (two rich layouts)", st)?;
                if fb.formfeed > 0 {
                    st.class("layout has form feed");
                }
                if fb.runs >= 5 && fb.comments > 0 && fb.directives > 0 {
                    st.nontrivial(digest(format!("{}\u{1}{}", a, b).as_bytes()), || json!({"campaign": campaign, "accepted": ok, "layout_b": clip(&b, 400)}));
                }
            }
            "corpus" => {
                let f = t.pick(&ctx.corpus.sv);
                let (tree, text) = match sv::parse_text(Grammar::Sv, &f.text, false) {
                    Ok(x) => x,
                    Err(_) => {
                        st.skip("corpus file not accepted");
                        return Ok(());
                    }
                };
                if text != f.text {
                    st.skip("corpus file changed by preprocessing (macro usage)");
                    return Ok(());
                }
                let runs = layout::ws_runs(&tree);
                let mut feats = Feats::default();
                cfg.define_directives = !f.text.contains('`');
                let (new, n) = layout::relayout(&text, &runs, t, &cfg, 2, 3, &mut feats);
                compare(ctx, &text, &new, "white-space runs of a corpus file replaced", st)?;
                if n >= 5 && feats.comments > 0 && feats.directives > 0 {
                    st.nontrivial(digest(new.as_bytes()), || json!({"campaign": "corpus", "file": f.name, "layout_b": clip(&new, 400)}));
                }
            }
            _ => {
                let p = svgen::generate_mixed(t, &svgen::Cfg::default());
                let mut fa = Feats::default();
                let (a, spans) = p.render_spans(t, &TriviaCfg::plain(), &mut fa);
                // insert `resetall after chosen top-level boundaries (and possibly at the very beginning / end)
                let mut cuts: Vec<usize> = Vec::new();
                for b in &p.top_boundaries {
                    if t.chance(2, 3) {
                        // position right after token b
                        cuts.push(spans[*b] + p.toks[*b].text.len());
                    }
                }
                // not before a leading timeunits declaration: that one is not a description and must stay first
                if t.chance(1, 3) && !p.toks.first().map(|x| x.text == "timeunit" || x.text == "timeprecision").unwrap_or(false) {
                    cuts.push(0);
                }
                if t.chance(1, 3) {
                    cuts.push(a.len());
                }
                cuts.sort();
                cuts.dedup();
                if cuts.is_empty() {
                    st.skip("no top-level boundary chosen");
                    return Ok(());
                }
                let mut b = String::new();
                let mut pos = 0;
                for c in &cuts {
                    b.push_str(&a[pos..*c]);
                    b.push_str(t.pick_str(&["\n`resetall\n", " `resetall ", "\n`resetall // c\n", "\n`resetall\n`resetall\n"]));
                    pos = *c;
                }
                b.push_str(&a[pos..]);
                let ok = compare(ctx, &a, &b, "`resetall placed between top-level descriptions", st)?;
                st.nontrivial(digest(b.as_bytes()), || json!({"campaign": "resetall", "accepted": ok, "layout_b": clip(&b, 400)}));
            }
        }
        Ok(())
    }
}
