//! Shared driver for the preprocessor properties that compare the implementation with the reference model.

use crate::engine::{Ctx, Fail, Stats};
use crate::ppm::gen::{self, Case, PpCfg};
use crate::ppm::model::Flags;
use crate::ppm::run::{self, ModelRun};
use crate::sv::{self, clip};
use crate::tape::Tape;
use serde_json::json;

pub struct Outcome {
    pub case: Case,
    pub model: ModelRun,
    /// Ok(text) of the implementation, or the error kind string
    pub actual_text: Option<String>,
    pub actual: Option<(sv::PreprocessedText, sv::Defs)>,
}

pub fn gen_case(ctx: &Ctx, t: &mut Tape, cfg: &PpCfg) -> Result<Case, Fail> {
    let dir = format!("{}/case", run::thread_dir(&ctx.scratch));
    let case = gen::generate(t, cfg, &dir);
    run::materialize(&case).map_err(|e| Fail::new(format!("harness: cannot write case files: {}", e), json!({"infrastructure": true})))?;
    Ok(case)
}

/// Run implementation and model on `case` and compare tokens / error / define table.
/// `prop` is the property id used to look up listed findings.
pub fn compare_with_model(ctx: &Ctx, prop: &str, case: Case, st: &mut Stats) -> Result<Outcome, Fail> {
    let actual = run::run_actual(&case, false, false);
    let mut model = run::run_model(&case, Flags::default());
    let detail = |case: &Case, model: &ModelRun, extra: serde_json::Value| {
        json!({"case": run::case_json(case), "expected_text": clip(&model.out, 4000), "expected_error": format!("{:?}", model.err), "info": extra})
    };
    let verdict: Result<(), (String, serde_json::Value)> = (|| {
        match (&actual, &model.err) {
            (Ok((ppt, defs)), None) => {
                run::compare_tokens(&model.out, ppt.text()).map_err(|m| (format!("output tokens: {}", m), json!({"actual_text": clip(ppt.text(), 4000)})))?;
                run::compare_tables(&model.table, defs).map_err(|m| (format!("define table: {}", m), json!({"actual_text": clip(ppt.text(), 4000)})))?;
                Ok(())
            }
            (Err(e), Some(x)) => {
                if run::error_matches(x, e) {
                    Ok(())
                } else {
                    Err((format!("wrong error: expected {:?}, got {}", x, sv::err_kind(e)), json!({})))
                }
            }
            (Ok((ppt, _)), Some(x)) => Err((format!("expected error {:?} but the run succeeded", x), json!({"actual_text": clip(ppt.text(), 4000)}))),
            (Err(e), None) => Err((format!("expected success but got {}", sv::err_kind(e)), json!({}))),
        }
    })();
    if let Err((msg, extra)) = verdict {
        // re-judge with exactly the listed deviations enabled: every non-empty combination of the listed
        // findings whose trigger is present in this case, smallest first
        let k2 = case.k2_sites > 0 && ctx.findings.is_known(prop, "K2");
        let k6 = ctx.findings.is_known(prop, "K6");
        let mut combos: Vec<(bool, bool)> = Vec::new();
        if k2 {
            combos.push((true, false));
        }
        if k6 {
            combos.push((false, true));
        }
        if k2 && k6 {
            combos.push((true, true));
        }
        let mut explained = false;
        for (a, b) in combos {
            let m2 = run::run_model(&case, Flags { dev_elsif_uses_opening_name: a, dev_bodyless_drops_parens: b, ..Flags::default() });
            if b && m2.stats.bodyless_with_parens == 0 {
                continue;
            }
            let ok = match (&actual, &m2.err) {
                (Ok((ppt, defs)), None) => run::compare_tokens(&m2.out, ppt.text()).is_ok() && run::compare_tables(&m2.table, defs).is_ok(),
                (Err(e), Some(x)) => run::error_matches(x, e),
                _ => false,
            };
            if ok {
                if a {
                    st.known("K2");
                }
                if b {
                    st.known("K6");
                }
                model = m2;
                explained = true;
                break;
            }
        }
        if !explained {
            return Err(Fail::new(msg, detail(&case, &model, extra)));
        }
    }
    // C04 "token for token": two tokens of the source must not run into one another where a conditional directive was
    // removed. The model drops the same white space as the implementation (that owned by the operand of `ifdef /
    // `ifndef / `elsif and by `else), so its text shows the same merged token; that is listed finding K7.
    if prop == "C04" {
        if let (Ok((ppt, _)), None) = (&actual, &model.err) {
            // (the token sequences of model text and implementation output are equal at this point)
            let glued = run::glued_tokens(&model.out, &model.cond_barriers);
            if !glued.is_empty() {
                if ctx.findings.is_known(prop, "K7") {
                    st.known("K7");
                } else {
                    return Err(Fail::new(
                        format!("tokens run into one another where a conditional directive was removed: {:?}", glued),
                        detail(&case, &model, json!({"actual_text": clip(ppt.text(), 4000)})),
                    ));
                }
            }
        }
    }
    let (actual_text, actual) = match actual {
        Ok((t, d)) => (Some(t.text().to_string()), Some((t, d))),
        Err(_) => (None, None),
    };
    Ok(Outcome { case, model, actual_text, actual })
}

pub fn sample_json(o: &Outcome) -> serde_json::Value {
    json!({
        "top": clip(&o.case.rendered[0].text, 500),
        "files": o.case.files.len(),
        "output": o.actual_text.as_ref().map(|t| clip(t, 300)),
        "expected_error": format!("{:?}", o.model.err),
        "model_stats": format!("{:?}", o.model.stats),
    })
}

/// Generic witness replay for preprocessor findings (`kind: "pp_tokens"`):
/// Ok(true) = still fails exactly as listed, Ok(false) = now yields the expected tokens, Err = something else.
pub fn pp_witness(f: &crate::findings::Finding) -> Result<bool, Fail> {
    let w = &f.witness;
    if w["kind"].as_str() == Some("strip_diff") {
        return strip_diff_witness(f);
    }
    if w["kind"].as_str() != Some("pp_tokens") {
        return Ok(false);
    }
    let src = w["source"].as_str().unwrap_or("");
    let strip = w["strip"].as_bool().unwrap_or(false);
    let toks = |v: &serde_json::Value| -> Vec<String> { v.as_array().map(|a| a.iter().filter_map(|x| x.as_str().map(|s| s.to_string())).collect()).unwrap_or_default() };
    // token lists may be given directly or as output text ("expected_output" / "listed_output"; "<error KIND>" for an error)
    let from_text = |v: &serde_json::Value| -> Option<Vec<String>> {
        let t = v.as_str()?;
        if t.starts_with("<error") {
            return Some(vec![t.to_string()]);
        }
        match crate::lexer::lex(t) {
            Ok(ts) => Some(ts.iter().map(|t| t.text.to_string()).collect()),
            Err(e) => Some(vec![format!("<lex error {:?}>", e)]),
        }
    };
    let expected = from_text(&w["expected_output"]).unwrap_or_else(|| toks(&w["expected_tokens"]));
    let listed = from_text(&w["listed_output"]).unwrap_or_else(|| toks(&w["listed_actual_tokens"]));
    // optional side files ("files": {name: text}) are written to a fresh directory that also serves as include path
    let mut dir: Option<std::path::PathBuf> = None;
    if let Some(files) = w["files"].as_object() {
        let d = std::env::temp_dir().join(format!("svverif-witness-{}-{}", std::process::id(), f.id));
        let _ = std::fs::remove_dir_all(&d);
        let _ = std::fs::create_dir_all(&d);
        for (name, text) in files {
            let _ = std::fs::write(d.join(name), text.as_str().unwrap_or(""));
        }
        dir = Some(d);
    }
    let incs: Vec<std::path::PathBuf> = dir.iter().cloned().collect();
    let top = dir.as_ref().map(|d| d.join("top.sv")).unwrap_or_else(|| std::path::PathBuf::from("top.sv"));
    let r = sv::pp(src, &top, &Default::default(), &incs, false, strip);
    if let Some(d) = &dir {
        let _ = std::fs::remove_dir_all(d);
    }
    let actual: Vec<String> = match &r {
        Ok((t, _)) => match crate::lexer::lex(t.text()) {
            Ok(ts) => ts.iter().map(|t| t.text.to_string()).collect(),
            Err(e) => vec![format!("<lex error {:?}>", e)],
        },
        // (paths inside an error are machine dependent: only the outermost kinds are compared)
        Err(e) => vec![format!("<error {}>", sv::err_kind(e).split('(').next().unwrap_or(""))],
    };
    let strip_paths = |v: Vec<String>| -> Vec<String> { v.into_iter().map(|t| if t.starts_with("<error ") { format!("{}>", t.trim_end_matches('>').split('(').next().unwrap_or("")) } else { t }).collect() };
    let (listed, expected) = (strip_paths(listed), strip_paths(expected));
    if actual == listed {
        Ok(true)
    } else if actual == expected {
        Ok(false)
    } else {
        Err(Fail::new(
            format!("witness of {} fails differently from what is listed", f.id),
            json!({"source": src, "actual_tokens": actual, "listed": listed, "expected": expected}),
        ))
    }
}

/// witness {"kind":"strip_diff","source":…}: still fails iff the non-comment tokens of the two modes differ
pub fn strip_diff_witness(f: &crate::findings::Finding) -> Result<bool, Fail> {
    let src = f.witness["source"].as_str().unwrap_or("");
    let run = |strip: bool| -> Vec<String> {
        match sv::pp(src, std::path::Path::new("top.sv"), &Default::default(), &[], false, strip) {
            Ok((t, _)) => crate::lexer::code_tokens(t.text()).unwrap_or_else(|e| vec![format!("<lex error {:?}>", e)]),
            Err(e) => vec![format!("<error {}>", sv::err_kind(&e))],
        }
    };
    Ok(run(false) != run(true))
}
