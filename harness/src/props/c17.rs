//! C17 — the packrat memo table is a pure optimisation (uses the verif_hooks feature).

use super::c13;
use crate::engine::{digest, Campaign, Ctx, Fail, Kind, Prop, Stats};
use crate::gen::layout::{Feats, TriviaCfg};
use crate::gen::{libgen, mutate, svgen};
use crate::sv::{self, clip, Grammar, MemoOutcome};
use crate::tape::Tape;
use serde_json::json;

pub struct C17;

const MAIN_CAPS: &[usize] = &[1024, 256, 128];
const MID_CAPS: &[usize] = &[64, 32];
const SMALL_CAPS: &[usize] = &[13, 8, 5, 3, 2, 1];

fn describe(o: &MemoOutcome) -> &'static str {
    match o {
        MemoOutcome::Accepted(_) => "accepted",
        MemoOutcome::Rejected => "rejected",
        MemoOutcome::Budget => "budget exceeded",
    }
}

/// the three shapes of listed finding K22
fn k22_shape(text: &str) -> bool {
    text.matches("inside").count() >= 2 || text.contains("&&&") || (text.contains("binsof") && text.matches("with").count() >= 2)
}

pub fn check_memo(ctx: &Ctx, g: Grammar, src: &str, caps: &[usize], st: &mut Stats, from: &str) -> Result<(), Fail> {
    // the raw parsers take preprocessed text
    let text = match sv::pp_plain(src) {
        Ok((t, _)) => t.text().to_string(),
        Err(_) => {
            st.skip("rejected by the preprocessor");
            return Ok(());
        }
    };
    let (base, c0) = sv::raw_parse_budget(g, &text, None, false, Some(4_000_000));
    if base == MemoOutcome::Budget {
        st.skip("baseline exceeded the work budget");
        return Ok(());
    }
    let budget = (c0.inserts * 300 + 50_000).min(1_500_000);
    let mut evicting = false;
    for &cap in caps {
        let (r, c) = sv::raw_parse_budget(g, &text, Some(cap), false, Some(budget));
        st.count("configurations compared", 1);
        st.count(&format!("inputs run at capacity {:>4}", cap), 1);
        if r == MemoOutcome::Budget {
            st.class("capacity run exceeded the work budget (inconclusive)");
            continue;
        }
        if c.inserts as usize > cap && c.hits > 0 {
            evicting = true;
        }
        if r != base {
            // attribution to listed finding K3: an input that the unbounded table ACCEPTS is rejected (or parsed
            // differently) with a bounded table, and with the recursion flags in the key the two capacities agree.
            // (On the pinned tree every K3 divergence has this direction; an input that only a bounded table accepts
            // is not covered by the listed finding.)
            if ctx.findings.is_known("C17", "K3") && matches!(base, MemoOutcome::Accepted(_)) {
                let (ra, _) = sv::raw_parse_budget(g, &text, Some(cap), true, Some(budget.saturating_mul(4)));
                let (rb, _) = sv::raw_parse_budget(g, &text, None, true, Some(budget.saturating_mul(4)));
                if ra == MemoOutcome::Budget || rb == MemoOutcome::Budget {
                    st.class("divergence, attribution run exceeded the work budget (unattributed, inconclusive)");
                    continue;
                }
                if ra == rb {
                    st.known("K3");
                    st.count(&format!("K3-attributed divergences at capacity {:>4}", cap), 1);
                    st.class(&format!("K3 direction: unbounded {} / capacity {} {}", describe(&base), if cap <= 13 { "<=13" } else if cap <= 64 { "32-64" } else { ">=128" }, describe(&r)));
                    continue;
                }
            }
            // attribution to listed finding K22 (the same mechanism in the other direction): the unbounded table REJECTS a
            // source of one of three shapes the grammar would accept (an inside chain, &&& in front of a conditional / inside
            // operand, a chain of with clauses behind binsof), a bounded table happens to accept it, and with the recursion
            // flags in the key every capacity rejects
            if ctx.findings.is_known("C17", "K22") && base == MemoOutcome::Rejected && matches!(r, MemoOutcome::Accepted(_)) && k22_shape(&text) {
                let (ra, _) = sv::raw_parse_budget(g, &text, Some(cap), true, Some(budget.saturating_mul(4)));
                let (rb, _) = sv::raw_parse_budget(g, &text, None, true, Some(budget.saturating_mul(4)));
                if ra == MemoOutcome::Rejected && rb == MemoOutcome::Rejected {
                    st.known("K22");
                    st.class("K22 direction: unbounded rejected / bounded accepted");
                    continue;
                }
            }
            let what = if describe(&r) != describe(&base) {
                format!("{} with an unbounded memo table, {} at capacity {}", describe(&base), describe(&r), cap)
            } else {
                format!("accepted in both configurations but the trees differ (unbounded vs capacity {})", cap)
            };
            return Err(Fail::new(
                format!("result depends on the memo capacity: {}", what),
                json!({"from": from, "grammar": format!("{:?}", g), "preprocessed": text, "capacity": cap, "counters_unbounded": format!("{:?}", c0), "counters_bounded": format!("{:?}", c)}),
            ));
        }
    }
    st.class(match base {
        MemoOutcome::Accepted(_) => "input accepted",
        _ => "input rejected",
    });
    if evicting {
        st.nontrivial(digest(format!("{:?}{:?}{}", g, caps, text).as_bytes()), || json!({"from": from, "capacities": caps, "inserts_unbounded": c0.inserts, "text": clip(&text, 300)}));
    }
    Ok(())
}

fn region_program(t: &mut Tape) -> String {
    // `begin_keywords regions with kept directives as trivia (C13's generator), optionally mutated
    let parts = c13::gen_regions_text(t);
    if t.chance(1, 4) {
        mutate::mutate_text(&parts, t)
    } else {
        parts
    }
}

impl Prop for C17 {
    fn id(&self) -> &'static str {
        "C17"
    }
    fn rule(&self) -> String {
        "cases: corpus files, generated Annex A programs under full trivia (comments and kept directives between tokens), token-level mutants of both (accepted and rejected), programs with \
         sequential / nested `begin_keywords regions (also in a compact form with one-line modules and compilation-unit items such as a lone timeunit between the directives, every capacity down to 1), library maps. Main band: memo capacities 1024, 256, 128 for every input and 64, 32 for inputs <= 600 bytes; small band: capacities \
         13, 8, 5, 3, 2, 1 for inputs <= 300 bytes. Oracle: the raw sv_parser / lib_parser result (acceptance and the whole tree by ==) is identical to the result with an unbounded table, \
         with the production memo key. Work is bounded deterministically by a memo-insert budget (300 x the unbounded run + 50 000 inserts); a run that exhausts it is tallied as inconclusive. A \
         divergence is attributed to listed finding K3 only if the unbounded table accepts the input and capacity c and unbounded agree once the recursion flags are part of the key; otherwise it is a violation. Non-trivial: inserts > capacity \
         (evictions certainly happened) and hits > 0 (from the hook counters); distinct by digest of (grammar, capacities, text)."
            .into()
    }
    fn assumptions(&self) -> Vec<String> {
        vec![
            "uses the verif_hooks wrapper around the real nom_packrat::PackratStorage; with default settings the wrapper is behaviourally identical to production (same key, capacity 1024)".into(),
            "the insert budget aborts a parse by unwinding out of the hook; such runs are inconclusive, never violations".into(),
        ]
    }
    fn campaigns(&self, ctx: &Ctx) -> Vec<Campaign> {
        vec![
            Campaign { name: "corpus-main", kind: Kind::Enumerated { count: ctx.corpus.sv.len() }, tape_len: 1 },
            Campaign { name: "main", kind: Kind::Random { quick: 2500, thorough: 40000 }, tape_len: 900 },
            Campaign { name: "small", kind: Kind::Random { quick: 2500, thorough: 40000 }, tape_len: 260 },
            Campaign { name: "regions", kind: Kind::Random { quick: 1500, thorough: 20000 }, tape_len: 160 },
            Campaign { name: "regions-small", kind: Kind::Random { quick: 10000, thorough: 100000 }, tape_len: 160 },
            Campaign { name: "k22-shapes", kind: Kind::Random { quick: 800, thorough: 10000 }, tape_len: 60 },
        ]
    }
    fn run(&self, ctx: &Ctx, campaign: &str, t: &mut Tape, st: &mut Stats) -> Result<(), Fail> {
        st.eval();
        match campaign {
            "corpus-main" => {
                let f = &ctx.corpus.sv[t.raw() as usize % ctx.corpus.sv.len()];
                let mut caps: Vec<usize> = MAIN_CAPS.to_vec();
                if f.text.len() <= 600 {
                    caps.extend_from_slice(MID_CAPS);
                }
                if f.text.len() <= 300 {
                    caps.extend_from_slice(SMALL_CAPS);
                }
                check_memo(ctx, Grammar::Sv, &f.text, &caps, st, &f.name)?;
            }
            "main" | "small" => {
                let small = campaign == "small";
                let (g, text, from) = match t.below(5) {
                    0 => {
                        let f = t.pick(&ctx.corpus.sv);
                        (Grammar::Sv, mutate::mutate_text(&f.text, t), "corpus mutant")
                    }
                    1 => (Grammar::Lib, libgen::generate(t), "libgen"),
                    k => {
                        let cfg = if small { svgen::Cfg { max_elements: 1, max_items: 3, adversarial_names: true } } else { svgen::Cfg::default() };
                        // in the small band every second program is centred on one rarely reached family
                        let p = if small && t.flip() { svgen::generate_focus(t) } else { svgen::generate(t, &cfg) };
                        let mut f = Feats::default();
                        let mut text = p.render(t, &TriviaCfg::full(), &mut f);
                        if k == 4 {
                            text = mutate::mutate_text(&text, t);
                        }
                        (Grammar::Sv, text, if k == 4 { "svgen mutant" } else { "svgen" })
                    }
                };
                let limit = if small { 300 } else { 6000 };
                if text.len() > limit {
                    st.skip("input longer than the band's size limit");
                    return Ok(());
                }
                let mut caps: Vec<usize> = if small { SMALL_CAPS.to_vec() } else { MAIN_CAPS.to_vec() };
                if !small && text.len() <= 600 {
                    caps.extend_from_slice(MID_CAPS);
                }
                check_memo(ctx, g, &text, &caps, st, from)?;
            }
            "k22-shapes" => {
                // the three shapes of listed finding K22 with varied operands, every capacity: each divergence must match the
                // signature of K22 (or of K3), anything else is a violation
                let id = |t: &mut Tape| t.pick_str(&["a", "b1", "x_y", "sel", "q"]).to_string();
                let num = |t: &mut Tape| t.pick_str(&["0", "1", "4'b1010", "8'hff", "'1"]).to_string();
                let set = |t: &mut Tape| {
                    let mut v = vec![if t.flip() { id(t) } else { num(t) }];
                    if t.flip() {
                        v.push(format!("[{}:{}]", num(t), num(t)));
                    }
                    if t.chance(1, 3) {
                        v.push(id(t));
                    }
                    v.join(", ")
                };
                let text = match t.below(3) {
                    0 => {
                        let mut e = format!("{} inside {{{}}}", id(t), set(t));
                        for _ in 0..1 + t.below(2) {
                            e = format!("{} inside {{{}}}", e, set(t));
                        }
                        format!("module m; initial x = {}; endmodule\n", e)
                    }
                    1 => format!("module m; initial x = {} &&& {} ? {} inside {{{}}} : {}; endmodule\n", id(t), id(t), id(t), set(t), num(t)),
                    _ => {
                        let mut w = String::new();
                        for _ in 0..2 + t.below(2) {
                            w.push_str(&format!(" with ({})", id(t)));
                        }
                        format!("module m; covergroup cg; cross a, b {{ bins c = binsof({}){}; }} endgroup endmodule\n", id(t), w)
                    }
                };
                let mut caps: Vec<usize> = MAIN_CAPS.to_vec();
                caps.extend_from_slice(MID_CAPS);
                caps.extend_from_slice(SMALL_CAPS);
                caps.extend_from_slice(&[4, 44, 48, 512]);
                check_memo(ctx, Grammar::Sv, &text, &caps, st, "K22 shapes")?;
            }
            "regions-small" => {
                // one-line modules and compilation-unit items between `begin_keywords / `end_keywords: small enough for
                // every capacity down to 1, where a directive's white space is certainly evaluated more than once
                let mut text = c13::gen_regions_compact_text(t);
                if t.chance(1, 5) {
                    text = mutate::mutate_text(&text, t);
                }
                if text.len() > 600 {
                    st.skip("input longer than the band's size limit");
                    return Ok(());
                }
                let mut caps: Vec<usize> = SMALL_CAPS.to_vec();
                caps.extend_from_slice(MID_CAPS);
                check_memo(ctx, Grammar::Sv, &text, &caps, st, "compact keyword regions")?;
            }
            _ => {
                let text = region_program(t);
                let mut caps: Vec<usize> = MAIN_CAPS.to_vec();
                caps.extend_from_slice(MID_CAPS);
                if text.len() <= 400 {
                    caps.extend_from_slice(SMALL_CAPS);
                }
                check_memo(ctx, Grammar::Sv, &text, &caps, st, "keyword regions")?;
            }
        }
        Ok(())
    }
    fn witness(&self, _ctx: &Ctx, f: &crate::findings::Finding) -> Result<bool, Fail> {
        memo_witness(f)
    }
    fn final_check(&self, ctx: &Ctx, st: &Stats) -> Result<(), Fail> {
        // The listed finding K3 is identified by its signature *and* by how often it shows at each capacity on the
        // pinned tree (known_findings.json K3.capacity_profile_ceiling_percent: measured rates with a wide margin).
        // A change that lets the same mechanism bite far more often - every binary expression at capacity 5, say -
        // is not the listed finding.
        let k3 = match ctx.findings.for_property("C17").find(|f| f.id == "K3" && f.status == "known") {
            Some(f) => f,
            None => return Ok(()),
        };
        let profile = &k3.raw["capacity_profile_ceiling_percent"];
        if !profile.is_object() {
            return Ok(());
        }
        for (k, run) in st.counters.iter().filter(|(k, _)| k.starts_with("inputs run at capacity")) {
            let cap = k.split_whitespace().last().unwrap_or("").to_string();
            if *run < 2000 {
                continue;
            }
            let hits = st.counters.get(&format!("K3-attributed divergences at capacity {:>4}", cap)).copied().unwrap_or(0);
            let ceiling = profile[&cap].as_f64().or_else(|| profile["other"].as_f64()).unwrap_or(100.0);
            let rate = 100.0 * hits as f64 / *run as f64;
            if rate > ceiling {
                return Err(Fail::new(
                    format!(
                        "at memo capacity {} the divergences that match K3's signature make up {:.2} % of the inputs ({} of {}); the listed finding shows in at most {} % there",
                        cap, rate, hits, run, ceiling
                    ),
                    json!({"capacity": cap, "divergences": hits, "inputs": run, "ceiling_percent": ceiling}),
                ));
            }
        }
        Ok(())
    }
}

/// witness {"kind":"memo","source":…, "capacity": n}: still fails iff the result at that capacity differs from the
/// unbounded table's and the two agree once the recursion flags are part of the key
pub fn memo_witness(f: &crate::findings::Finding) -> Result<bool, Fail> {
    if f.witness["kind"].as_str() == Some("memo_reverse") {
        // {"kind":"memo_reverse","source":…,"capacity":n}: the unbounded table rejects, capacity n accepts, the
        // recursion-aware key rejects under both
        let src = f.witness["source"].as_str().unwrap_or("");
        let cap = f.witness["capacity"].as_u64().unwrap_or(8) as usize;
        let (a, _) = sv::raw_parse_budget(Grammar::Sv, src, None, false, Some(2_000_000));
        let (b, _) = sv::raw_parse_budget(Grammar::Sv, src, Some(cap), false, Some(2_000_000));
        if a == b {
            return Ok(false);
        }
        let (ra, _) = sv::raw_parse_budget(Grammar::Sv, src, Some(cap), true, Some(8_000_000));
        let (rb, _) = sv::raw_parse_budget(Grammar::Sv, src, None, true, Some(8_000_000));
        return if a == MemoOutcome::Rejected && matches!(b, MemoOutcome::Accepted(_)) && ra == MemoOutcome::Rejected && rb == MemoOutcome::Rejected {
            Ok(true)
        } else {
            Err(Fail::new(format!("witness of {} diverges but not in the listed way", f.id), json!({"source": src, "capacity": cap})))
        };
    }
    {
        if f.witness["kind"].as_str() != Some("memo") {
            return Ok(false);
        }
        let src = f.witness["source"].as_str().unwrap_or("");
        let cap = f.witness["capacity"].as_u64().unwrap_or(8) as usize;
        let (a, _) = sv::raw_parse_budget(Grammar::Sv, src, None, false, Some(2_000_000));
        let (b, _) = sv::raw_parse_budget(Grammar::Sv, src, Some(cap), false, Some(2_000_000));
        if a == b {
            return Ok(false);
        }
        let (ra, _) = sv::raw_parse_budget(Grammar::Sv, src, Some(cap), true, Some(8_000_000));
        let (rb, _) = sv::raw_parse_budget(Grammar::Sv, src, None, true, Some(8_000_000));
        if ra == rb && ra != MemoOutcome::Budget {
            Ok(true)
        } else {
            Err(Fail::new(format!("witness of {} diverges but is not explained by the recursion-aware key", f.id), json!({"source": src, "capacity": cap})))
        }
    }
}
