//! C02 — Annex A sentences are accepted and classified under their production.

use crate::engine::{digest, Campaign, Ctx, Fail, Kind, Prop, Stats};
use crate::gen::layout::{Feats, TriviaCfg, NEUTRAL_DIRECTIVES};
use crate::gen::svgen::{self, Class, Program};
use crate::sv::{self, clip, kind, Grammar, NodeEvent, RefNode};
use crate::tape::Tape;
use serde_json::json;
use std::collections::HashMap;

pub struct C02;

/// Skip white space, comments and the trivia directives of the generator's alphabet in preprocessed text.
pub fn skip_trivia(text: &str, mut pos: usize) -> usize {
    let b = text.as_bytes();
    loop {
        if pos >= b.len() {
            return pos;
        }
        let c = b[pos];
        if c == b' ' || c == b'\t' || c == b'\n' || c == b'\r' || c == 0x0c {
            pos += 1;
        } else if c == b'/' && pos + 1 < b.len() && b[pos + 1] == b'/' {
            while pos < b.len() && b[pos] != b'\n' {
                pos += 1;
            }
        } else if c == b'/' && pos + 1 < b.len() && b[pos + 1] == b'*' {
            match text[pos + 2..].find("*/") {
                Some(i) => pos = pos + 2 + i + 2,
                None => return pos,
            }
        } else if c == b'`' {
            let rest = &text[pos..];
            if rest.starts_with("`define") {
                match rest.find('\n') {
                    Some(i) => pos += i,
                    None => return text.len(),
                }
            } else if rest.starts_with("`undefineall") {
                pos += "`undefineall".len();
            } else if rest.starts_with("`undef") {
                // `undef NAME
                let mut p = pos + "`undef".len();
                while p < b.len() && (b[p] == b' ' || b[p] == b'\t') {
                    p += 1;
                }
                while p < b.len() && (b[p].is_ascii_alphanumeric() || b[p] == b'_') {
                    p += 1;
                }
                pos = p;
            } else if rest.starts_with("`resetall") {
                pos += "`resetall".len();
            } else {
                // longest known neutral directive
                let mut best = 0;
                for d in NEUTRAL_DIRECTIVES {
                    if rest.starts_with(d) && d.len() > best {
                        best = d.len();
                    }
                }
                if best == 0 {
                    return pos;
                }
                pos += best;
            }
        } else {
            return pos;
        }
    }
}

/// Locate every generator token in the preprocessed text (tokens appear in order, separated by trivia only).
pub fn locate_tokens(p: &Program, text: &str) -> Result<Vec<usize>, String> {
    let mut pos = 0usize;
    let mut out = Vec::with_capacity(p.toks.len());
    for (i, tok) in p.toks.iter().enumerate() {
        pos = skip_trivia(text, pos);
        if !text[pos..].starts_with(tok.text.as_str()) {
            return Err(format!(
                "token #{} {:?} not found at offset {} of the preprocessed text (found {:?})",
                i,
                tok.text,
                pos,
                clip(&text[pos..], 40)
            ));
        }
        out.push(pos);
        pos += tok.text.len();
    }
    pos = skip_trivia(text, pos);
    if pos != text.len() {
        return Err(format!("text continues after the last token at offset {}: {:?}", pos, clip(&text[pos..], 40)));
    }
    Ok(out)
}

fn matches_any(k: &str, set: &[&str]) -> bool {
    set.iter().any(|p| k.starts_with(p))
}

/// operators of several characters that the grammar takes as one terminal
const OPERATOR_TOKENS: &[&str] = &[
    "&&&", "&&", "||", "**", "==", "!=", "===", "!==", "==?", "!=?", ">=", "<<", ">>", "<<<", ">>>", "->", "<->", "+=", "-=", "*=", "/=", "%=", "&=", "|=",
    "^=", "<<=", ">>=", "<<<=", ">>>=", "++", "--", "~&", "~|", "~^", "^~", "|->", "|=>", "::", ":=", ":/", "->>", "#-#", "#=#",
];

/// Oracles (2) and (3) of DESIGN.md C02 on an accepted tree.
pub fn check_classification(p: &Program, tree: &sv::SyntaxTree, text: &str) -> Result<(usize, usize), (String, serde_json::Value)> {
    let offs = locate_tokens(p, text).map_err(|e| (e, json!({})))?;
    let mut by_off: HashMap<usize, usize> = HashMap::new();
    for (i, o) in offs.iter().enumerate() {
        by_off.insert(*o, i);
    }
    let mut expects_by_tok: HashMap<usize, Vec<usize>> = HashMap::new();
    for (i, e) in p.expects.iter().enumerate() {
        expects_by_tok.entry(e.tok).or_default().push(i);
    }
    let mut seen_tok = vec![false; p.toks.len()];
    let mut stack: Vec<String> = Vec::new();
    let mut ws_depth = 0usize;
    let mut checked_expects = 0usize;
    for ev in tree.into_iter().event() {
        match ev {
            NodeEvent::Enter(n) => {
                if let RefNode::WhiteSpace(_) = n {
                    ws_depth += 1;
                }
                if let RefNode::Locate(l) = n {
                    if ws_depth == 0 {
                        if let Some(&ti) = by_off.get(&l.offset) {
                            let tok = &p.toks[ti];
                            let leaf_checked = matches!(tok.class, Class::Keyword | Class::Ident | Class::EscIdent | Class::SysIdent);
                            if leaf_checked {
                                if l.len != tok.text.len() {
                                    return Err((
                                        format!("token {:?} at {} is a leaf of length {} (expected {})", tok.text, l.offset, l.len, tok.text.len()),
                                        json!({"token": tok.text, "offset": l.offset}),
                                    ));
                                }
                                seen_tok[ti] = true;
                                let parent = stack.last().map(|s| s.as_str()).unwrap_or("");
                                let ok = match tok.class {
                                    // c_identifier (DPI) is the one other Annex A production made of a plain identifier token
                                    Class::Ident => parent == "SimpleIdentifier" || parent == "CIdentifier",
                                    Class::EscIdent => parent == "EscapedIdentifier",
                                    Class::SysIdent => parent == "SystemTfIdentifier",
                                    _ => true,
                                };
                                if !ok {
                                    return Err((
                                        format!("identifier token {:?} at {} sits under {} node", tok.text, l.offset, parent),
                                        json!({"token": tok.text, "offset": l.offset, "parent": parent}),
                                    ));
                                }
                            } else if l.len == tok.text.len() {
                                seen_tok[ti] = true;
                            } else if tok.class == Class::Symbol && OPERATOR_TOKENS.contains(&tok.text.as_str()) {
                                // an operator of several characters is one token of the language, hence one leaf
                                return Err((
                                    format!("operator token {:?} at {} starts a leaf of length {}", tok.text, l.offset, l.len),
                                    json!({"token": tok.text, "offset": l.offset, "leaf_len": l.len}),
                                ));
                            }
                            if let Some(es) = expects_by_tok.get(&ti) {
                                for &ei in es {
                                    let e = &p.expects[ei];
                                    // the name node: within the three nearest ancestors above Simple/EscapedIdentifier
                                    let n = stack.len();
                                    let near = &stack[n.saturating_sub(4)..];
                                    if !near.iter().any(|k| e.name_kind.split('|').any(|a| a == k)) {
                                        return Err((
                                            format!("declared name {:?} is not wrapped by a {} node (ancestors: {:?})", tok.text, e.name_kind, near),
                                            json!({"name": tok.text, "expected_name_kind": e.name_kind, "ancestors": near}),
                                        ));
                                    }
                                    let nearest = stack.iter().rev().find(|k| matches_any(k, e.family));
                                    match nearest {
                                        Some(k) if matches_any(k, &e.expected) => {}
                                        other => {
                                            return Err((
                                                format!(
                                                    "declared name {:?}: nearest enclosing construct is {:?}, expected one of {:?}",
                                                    tok.text, other, e.expected
                                                ),
                                                json!({"name": tok.text, "found": other, "expected": e.expected}),
                                            ));
                                        }
                                    }
                                    checked_expects += 1;
                                }
                            }
                        }
                    }
                }
                stack.push(kind(&n));
            }
            NodeEvent::Leave(n) => {
                stack.pop();
                if let RefNode::WhiteSpace(_) = n {
                    ws_depth -= 1;
                }
            }
        }
    }
    let mut leaf_tokens = 0;
    for (i, tok) in p.toks.iter().enumerate() {
        if matches!(tok.class, Class::Keyword | Class::Ident | Class::EscIdent | Class::SysIdent) {
            if !seen_tok[i] {
                return Err((
                    format!("token #{} {:?} at offset {} is not the start of any leaf", i, tok.text, offs[i]),
                    json!({"token": tok.text, "offset": offs[i]}),
                ));
            }
            leaf_tokens += 1;
        }
    }
    if checked_expects != p.expects.len() {
        return Err((format!("{} of {} expectations were reached", checked_expects, p.expects.len()), json!({})));
    }
    Ok((checked_expects, leaf_tokens))
}


/// Oracle (4): an enum node that consists of nothing but one keyword is the variant named after that keyword
/// (`chandle` -> DataType::Chandle, `join_any` -> JoinKeyword::JoinAny, `ns` -> TimeUnit::NS): compared without
/// case and underscores; of the terminals that are not words only "+", "-", "$" and ";" (Plus, Minus, Dollar, Empty or Null)
/// are checked, the others ("1step", "\"DPI-C\"", ".*", "#0") have spelled-out variant names and are left aside.
pub fn check_keyword_variants(tree: &sv::SyntaxTree, text: &str) -> Result<usize, (String, serde_json::Value)> {
    let norm = |s: &str| s.chars().filter(|c| *c != '_').map(|c| c.to_ascii_lowercase()).collect::<String>();
    let mut n = 0;
    for (kind, variant, word, offset) in sv::keyword_variants(tree, text) {
        let wordlike = word.chars().next().map(|c| c.is_ascii_alphabetic() || c == '_').unwrap_or(false) && word.chars().all(|c| c.is_ascii_alphanumeric() || c == '_');
        if !wordlike {
            // a few symbol-only variants have conventional names (Sign::Plus, NextState::Minus, Primary::Dollar)
            let names: &[&str] = match word {
                "+" => &["plus"],
                "-" => &["minus"],
                "$" => &["dollar"],
                ";" => &["empty", "null"],
                _ => continue,
            };
            n += 1;
            if !names.contains(&norm(&variant).as_str()) {
                return Err((
                    format!("symbol {:?} at {} is classified as {}::{}", word, offset, kind, variant),
                    json!({"symbol": word, "offset": offset, "kind": kind, "variant": variant}),
                ));
            }
            continue;
        }
        n += 1;
        if norm(&variant) != norm(word) {
            return Err((
                format!("keyword {:?} at {} is classified as {}::{}", word, offset, kind, variant),
                json!({"keyword": word, "offset": offset, "kind": kind, "variant": variant}),
            ));
        }
    }
    Ok(n)
}

pub fn run_program(ctx: &Ctx, p: &Program, text: &str, st: &mut Stats) -> Result<bool, Fail> {
    let detail = |extra: serde_json::Value| json!({"source": text, "plain": p.render_plain(), "info": extra});
    let (ppt, defs) = match sv::pp_plain(text) {
        Ok(x) => x,
        Err(e) => {
            return Err(Fail::new(format!("generated sentence rejected by the preprocessor: {}", sv::err_kind(&e)), detail(json!({}))));
        }
    };
    let pptext = ppt.text().to_string();
    let tree = match sv::parse_pp(Grammar::Sv, ppt, defs, false) {
        Ok((t, _)) => t,
        Err(e) => {
            if ctx.findings.is_known("C02", "K3") {
                match sv::k3_explains_rejection(Grammar::Sv, &pptext) {
                    sv::K3Verdict::Explained => {
                        st.known("K3");
                        st.class("rejected at the production memo capacity only (listed finding K3)");
                        return Ok(false);
                    }
                    sv::K3Verdict::Inconclusive => {
                        st.skip("rejection could not be attributed within the work budget");
                        return Ok(false);
                    }
                    sv::K3Verdict::NotExplained => {}
                }
            }
            return Err(Fail::new(
                format!("Annex A sentence rejected in strict mode: {}", sv::err_kind(&e)),
                detail(json!({"preprocessed": pptext})),
            ));
        }
    };
    match check_classification(p, &tree, &pptext) {
        Ok((ne, nl)) => {
            st.count("expectations checked", ne as u64);
            st.count("identifier/keyword tokens matched to leaves", nl as u64);
        }
        Err((msg, d)) => {
            // at the production memo capacity K3 can also yield a different tree for an accepted source
            if ctx.findings.is_known("C02", "K3") && sv::k3_touches(Grammar::Sv, &[(&pptext, false)]) {
                st.known("K3");
                st.class("parsed differently at the production memo capacity than with the unbounded table (listed finding K3)");
                return Ok(false);
            }
            return Err(Fail::new(format!("classification: {}", msg), detail(d)));
        }
    }
    match check_keyword_variants(&tree, &pptext) {
        Ok(n) => st.count("keyword-only nodes matched to their variant", n as u64),
        Err((msg, d)) => return Err(Fail::new(format!("classification: {}", msg), detail(d))),
    }
    for (k, v) in &p.tags {
        st.count(&format!("family:{}", k), *v as u64);
    }
    for k in p.tags.keys() {
        st.class(&format!("has:{}", k));
    }
    if p.design_elements >= 3 || p.expects.len() >= 15 {
        let joined: String = p.toks.iter().map(|t| t.text.as_str()).collect::<Vec<_>>().join("\u{1}");
        st.nontrivial(digest(joined.as_bytes()), || {
            json!({"elements": p.design_elements, "expectations": p.expects.len(), "tokens": p.toks.len(), "text": clip(text, 600)})
        });
    }
    Ok(true)
}

impl Prop for C02 {
    fn id(&self) -> &'static str {
        "C02"
    }
    fn rule(&self) -> String {
        "cases: programs of the Annex A reference generator (typed emission of design elements, ports, parameters, declarations, statements, \
         expressions, literals, instantiations, generate constructs, subroutines) with adversarial identifiers and random layout (campaign svgen), \
         and the same in a plain one-blank layout (campaign plain). Oracle: strict acceptance; for every declared name the leaf at the name token's \
         position is wrapped by the expected *Identifier kind and its nearest enclosing construct of the competing family is (one of) the expected Annex A \
         kind(s); every keyword / identifier token is exactly one leaf, identifiers under SimpleIdentifier / EscapedIdentifier / SystemTfIdentifier; every enum node \
         that consists of one keyword only is the variant named after that keyword (also over every accepted corpus file, campaign corpus-variants). \
         Non-trivial: >= 3 design elements or >= 15 expectations; distinct by digest of the token list."
            .into()
    }
    fn assumptions(&self) -> Vec<String> {
        vec![
            "the generator derives only sentences of IEEE 1800-2017 Annex A; forms that Annex A itself leaves ambiguous carry a set of admissible kinds (DESIGN.md 3.1)".into(),
            "token positions in the preprocessed text are found by skipping the generator's own trivia alphabet".into(),
        ]
    }
    fn campaigns(&self, ctx: &Ctx) -> Vec<Campaign> {
        vec![
            Campaign { name: "svgen", kind: Kind::Random { quick: 20000, thorough: 300000 }, tape_len: 1200 },
            Campaign { name: "plain", kind: Kind::Random { quick: 6000, thorough: 60000 }, tape_len: 500 },
            Campaign { name: "corpus-variants", kind: Kind::Enumerated { count: ctx.corpus.sv.len() }, tape_len: 1 },
        ]
    }
    fn run(&self, ctx: &Ctx, campaign: &str, t: &mut Tape, st: &mut Stats) -> Result<(), Fail> {
        st.eval();
        if campaign == "corpus-variants" {
            // the keyword-variant oracle over every accepted corpus file (breadth of Annex A beyond the generator)
            let f = &ctx.corpus.sv[t.raw() as usize % ctx.corpus.sv.len()];
            match sv::parse_text(Grammar::Sv, &f.text, false) {
                Ok((tree, pp)) => match check_keyword_variants(&tree, &pp) {
                    Ok(n) => {
                        st.count("keyword-only nodes matched to their variant", n as u64);
                        if n >= 3 {
                            st.nontrivial(digest(f.text.as_bytes()), || json!({"campaign": campaign, "file": f.name, "keyword_nodes": n}));
                        }
                    }
                    Err((msg, d)) => return Err(Fail::new(format!("classification: {}", msg), json!({"file": f.name, "source": f.text, "info": d}))),
                },
                Err(_) => st.skip("corpus file not accepted"),
            }
            return Ok(());
        }
        let p = svgen::generate_mixed(t, &svgen::Cfg::default());
        let text = if campaign == "plain" {
            p.render_plain()
        } else {
            let mut f = Feats::default();
            p.render(t, &TriviaCfg::full(), &mut f)
        };
        run_program(ctx, &p, &text, st)?;
        Ok(())
    }
    fn witness(&self, _ctx: &Ctx, f: &crate::findings::Finding) -> Result<bool, Fail> {
        // witness {"kind":"k3_reject","source":…}: still fails iff the production parser rejects it in the way the signature describes
        if f.witness["kind"].as_str() == Some("parse_reject") {
            // still fails iff every listed source is rejected in strict mode (whatever the memo capacity)
            let srcs: Vec<String> = f.witness["sources"].as_array().map(|a| a.iter().filter_map(|x| x.as_str().map(|s| s.to_string())).collect()).unwrap_or_default();
            let rejected = srcs.iter().filter(|s| sv::raw_cfg(Grammar::Sv, s, false, None, false).is_none()).count();
            return if rejected == srcs.len() && !srcs.is_empty() {
                Ok(true)
            } else if rejected == 0 {
                Ok(false)
            } else {
                Err(Fail::new(format!("witness of {}: {} of {} listed sources are rejected", f.id, rejected, srcs.len()), json!({})))
            };
        }
        if f.witness["kind"].as_str() != Some("k3_reject") {
            return Ok(false);
        }
        let src = f.witness["source"].as_str().unwrap_or("");
        if sv::parse_text(Grammar::Sv, src, false).is_ok() {
            return Ok(false);
        }
        match sv::k3_explains_rejection(Grammar::Sv, src) {
            sv::K3Verdict::Explained => Ok(true),
            _ => Err(Fail::new(format!("witness of {} is rejected but not in the listed way", f.id), json!({"source": src}))),
        }
    }
    fn health(&self, _ctx: &Ctx, st: &Stats) -> Result<(), String> {
        // every production family of DESIGN.md 3.1 must occur in at least 1 % of the programs
        let must = [
            "module", "interface", "program", "package", "class", "ansi-ports", "nonansi-ports", "parameter-port-list", "net-declaration",
            "var-declaration", "typedef", "param-declaration", "continuous-assign", "always", "initial-final", "instantiation", "gate",
            "generate-loop", "generate-if", "generate-case", "function", "task", "stmt-if", "stmt-case", "stmt-loop", "expr-binary", "literal", "string",
        ];
        for m in must {
            let c = st.classes.get(&format!("has:{}", m)).copied().unwrap_or(0);
            if c * 100 < st.evaluations {
                return Err(format!("production family {} occurs in {} of {} programs (< 1 %)", m, c, st.evaluations));
            }
        }
        Ok(())
    }
}
