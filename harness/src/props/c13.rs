//! C13 — reserved words of the keyword set in force are never identifiers.

use crate::engine::{digest, Campaign, Ctx, Fail, Kind, Prop, Stats};
use crate::gen::layout::{Feats, TriviaCfg};
use crate::gen::svgen;
use crate::keywords_data::*;
use crate::sv::{self, clip, kind, Error, Grammar, NodeEvent, RefNode, SyntaxTree};
use crate::tape::Tape;
use serde_json::json;

pub struct C13;

pub const VERSIONS: &[(&str, &[&str])] = &[
    ("1364-1995", KEYWORDS_1364_1995),
    ("1364-2001-noconfig", KEYWORDS_1364_2001_NOCONFIG),
    ("1364-2001", KEYWORDS_1364_2001),
    ("1364-2005", KEYWORDS_1364_2005),
    ("1800-2005", KEYWORDS_1800_2005),
    ("1800-2009", KEYWORDS_1800_2009),
    ("1800-2012", KEYWORDS_1800_2012),
    ("1800-2017", KEYWORDS_1800_2017),
];

fn set_of(version: &str) -> &'static [&'static str] {
    VERSIONS.iter().find(|(v, _)| *v == version).map(|(_, s)| *s).unwrap_or(KEYWORDS_1800_2017)
}

/// Oracle 1: walk an accepted tree; no SimpleIdentifier may spell a word reserved where it stands.
pub fn check_tree(tree: &SyntaxTree, text: &str) -> Result<(usize, usize), (String, serde_json::Value)> {
    let mut stack: Vec<&'static [&'static str]> = Vec::new();
    let mut kinds: Vec<String> = Vec::new();
    let mut checked = 0usize;
    let mut regions = 0usize;
    // depth (index in `kinds`) of an enclosing compiler directive, and of a `define name
    for ev in tree.into_iter().event() {
        match ev {
            NodeEvent::Enter(n) => {
                match &n {
                    RefNode::KeywordsDirective(_) => {
                        // version specifier: the first leaf under VersionSpecifier
                        let mut ver: Option<String> = None;
                        let mut in_spec = false;
                        for x in n.clone().into_iter() {
                            match x {
                                RefNode::VersionSpecifier(_) => in_spec = true,
                                RefNode::Locate(l) if in_spec && ver.is_none() => ver = Some(text[l.offset..l.offset + l.len].to_string()),
                                _ => {}
                            }
                        }
                        stack.push(set_of(ver.as_deref().unwrap_or("")));
                        regions += 1;
                    }
                    RefNode::EndkeywordsDirective(_) => {
                        stack.pop();
                    }
                    RefNode::SimpleIdentifier(_) => {
                        let in_directive = kinds.iter().any(|k| k == "CompilerDirective");
                        let macro_name = kinds.iter().any(|k| k == "TextMacroIdentifier");
                        let word = n.clone().into_iter().find_map(|x| if let RefNode::Locate(l) = x { Some(&text[l.offset..l.offset + l.len]) } else { None }).unwrap_or("");
                        if macro_name {
                            checked += 1;
                            if KEYWORDS_DIRECTIVE.contains(&word) {
                                return Err((format!("macro name {:?} is a compiler-directive name", word), json!({"word": word})));
                            }
                        } else if !in_directive {
                            checked += 1;
                            let set = stack.last().copied().unwrap_or(KEYWORDS_1800_2017);
                            if set.contains(&word) {
                                return Err((
                                    format!("simple identifier {:?} is a reserved word of the keyword set in force ({} open `begin_keywords regions)", word, stack.len()),
                                    json!({"word": word, "open_regions": stack.len()}),
                                ));
                            }
                        }
                    }
                    _ => {}
                }
                kinds.push(kind(&n));
            }
            NodeEvent::Leave(_) => {
                kinds.pop();
            }
        }
    }
    Ok((checked, regions))
}

// ------------------------------------------------------------------------------------------------
// Verilog-95-safe module generator with keyword regions

#[derive(Clone, Debug)]
enum Part {
    /// version index, and what stands between the closing quote and the next word ("" = glued)
    Begin(usize, &'static str),
    End,
    Kept(&'static str),
    /// a compilation-unit item written in SystemVerilog syntax (only generated where an 1800-* set is in force)
    Item(String),
    Module { names: Vec<String> }, // [module, port_a, port_b, wire, reg, inst]
}

const V95_TEMPLATE_NAMES: usize = 6;

fn render_module(names: &[String]) -> String {
    format!(
        "module {m} ({a}, {b});\n  input {a};\n  output {b};\n  wire {w};\n  reg {r};\n  assign {w} = {a} & {r};\n  assign {b} = {w};\n  always @({a}) begin {r} = {a}; end\n  sub_cell {i} (.p({w}));\nendmodule\n",
        m = names[0],
        a = names[1],
        b = names[2],
        w = names[3],
        r = names[4],
        i = names[5]
    )
}

fn render(parts: &[Part]) -> String {
    let mut s = String::new();
    for p in parts {
        match p {
            Part::Begin(v, sep) => s.push_str(&format!("`begin_keywords \"{}\"{}", VERSIONS[*v].0, sep)),
            Part::End => s.push_str("`end_keywords\n"),
            Part::Kept(k) => {
                s.push_str(k);
                s.push('\n');
            }
            Part::Item(k) => {
                s.push_str(k);
                s.push('\n');
            }
            Part::Module { names } => s.push_str(&render_module(names)),
        }
    }
    s
}

/// words reserved in 1800-2017 but not in version `v` (candidates for "later-only" identifiers)
fn later_only(v: usize) -> Vec<&'static str> {
    KEYWORDS_1800_2017.iter().copied().filter(|w| !VERSIONS[v].1.contains(w)).collect()
}

struct Gen13 {
    parts: Vec<Part>,
    /// version index in force for each Module part (by part index)
    in_force: Vec<(usize, usize)>,
    counter: usize,
    later_used: usize,
}

fn gen_regions(t: &mut Tape) -> Gen13 {
    let mut g = Gen13 { parts: Vec::new(), in_force: Vec::new(), counter: 0, later_used: 0 };
    let mut stack: Vec<usize> = Vec::new();
    let n = 2 + t.below(7);
    for _ in 0..n {
        match t.weighted(&[5, 3, 2, 2, 2]) {
            0 => {
                // module under the version in force
                let v = stack.last().copied().unwrap_or(7);
                let cands = later_only(v);
                let mut names = Vec::new();
                for _ in 0..V95_TEMPLATE_NAMES {
                    g.counter += 1;
                    if !cands.is_empty() && t.chance(1, 3) {
                        let w = *t.pick(&cands);
                        if !names.contains(&w.to_string()) {
                            names.push(w.to_string());
                            g.later_used += 1;
                            continue;
                        }
                    }
                    names.push(format!("{}{}", t.pick_str(&["n", "sig_", "wire", "module_", "end", "logic"]), g.counter));
                }
                g.in_force.push((g.parts.len(), v));
                g.parts.push(Part::Module { names });
            }
            1 => {
                if stack.len() < 3 {
                    let v = t.below(8);
                    stack.push(v);
                    // the next word may stand directly behind the closing quote
                    let sep = *t.pick(&["\n", "\n", "\n", "", " ", "/* c */", "\t// c\n"]);
                    g.parts.push(Part::Begin(v, sep));
                }
            }
            2 => {
                if !stack.is_empty() {
                    stack.pop();
                    g.parts.push(Part::End);
                }
            }
            4 => {
                // compilation-unit items between design elements; their words are reserved from 1800-2005 on.
                // A lone timeunit / timeprecision is tried as the two-declaration form first, so the white space
                // behind it (which may hold the next `begin_keywords / `end_keywords) is parsed more than once.
                let v = stack.last().copied().unwrap_or(7);
                let later = later_only(v);
                if !later.is_empty() && t.chance(1, 2) {
                    // a word that only a later standard reserves, used as the name of a user-defined type:
                    // the first word of an item, so it may stand directly behind a `begin_keywords directive
                    g.counter += 1;
                    let w = *t.pick(&later);
                    g.later_used += 1;
                    g.parts.push(Part::Item(format!("{} cu_v{};", w, g.counter)));
                } else if v >= 4 {
                    g.counter += 1;
                    let k = g.counter;
                    let item = match t.below(8) {
                        0 | 1 => "timeunit 1ns;".to_string(),
                        2 => "timeprecision 1ps;".to_string(),
                        3 => "timeunit 1ns;\ntimeprecision 1ps;".to_string(),
                        4 => format!("parameter int cu_p{} = {};", k, k),
                        5 => format!("typedef logic [3:0] cu_t{};", k),
                        6 => format!("function automatic int cu_f{}(input int a); return a; endfunction", k),
                        _ => format!("import cu_pkg{}::*;", k),
                    };
                    g.parts.push(Part::Item(item));
                }
            }
            _ => {
                let k = *t.pick(&["`timescale 1ns/1ps", "`celldefine", "`endcelldefine", "`default_nettype wire", "`resetall", "`nounconnected_drive", "`line 5 \"x.v\" 0", "// comment", "`define KW_M 1", "`undef KW_M"]);
                g.parts.push(Part::Kept(k));
            }
        }
    }
    while stack.pop().is_some() {
        g.parts.push(Part::End);
    }
    g
}

/// Dense mix of `begin_keywords / `end_keywords (balanced or not), compilation-unit items and one-line modules, small
/// enough for the smallest memo capacities of C17. Validity is not aimed at: half of the net names are words that some
/// older set does not reserve, whatever set is in force, so acceptance hinges on the regions - and must not hinge on how
/// often the white space holding a directive was evaluated.
pub fn gen_regions_compact_text(t: &mut Tape) -> String {
    let mut s = String::new();
    let mut opened: Vec<usize> = Vec::new();
    let n = 3 + t.below(5);
    let mut after_item = false;
    for k in 0..n {
        // the white space behind a lone timeunit / a non-ANSI header is where directives get evaluated twice
        let w: [usize; 5] = if after_item { [6, 5, 1, 2, 1] } else { [4, 3, 4, 5, 1] };
        let choice = t.weighted(&w);
        after_item = choice == 2;
        match choice {
            0 => {
                let v = t.below(8);
                opened.push(v);
                s.push_str(&format!("`begin_keywords \"{}\"\n", VERSIONS[v].0))
            }
            1 => s.push_str("`end_keywords\n"),
            2 => {
                let item = match t.below(6) {
                    0 | 1 | 2 | 3 => "timeunit 1ns;".to_string(),
                    4 => "timeprecision 1ps;".to_string(),
                    _ => format!("parameter cu_p{} = {};", k, k),
                };
                s.push_str(&item);
                s.push('\n');
            }
            3 => {
                // two nets in three are named by a word that a set opened earlier does not reserve (any older set if none was)
                let net = if t.chance(2, 3) {
                    let v = if opened.is_empty() { t.below(6) } else { opened[t.below(opened.len())] };
                    let c = later_only(v.min(5));
                    t.pick(&c).to_string()
                } else {
                    format!("w{}", k)
                };
                if t.chance(1, 4) {
                    // non-ANSI header: the ANSI form is tried first and re-parsed
                    s.push_str(&format!("module m{} (a);\ninput a; wire {};\nendmodule\n", k, net));
                } else {
                    s.push_str(&format!("module m{}; wire {}; endmodule\n", k, net));
                }
            }
            _ => {
                let kept = *t.pick(&["`celldefine", "`resetall", "// c", "`default_nettype wire"]);
                s.push_str(kept);
                s.push('\n');
            }
        }
    }
    s
}

/// Text of a generated keyword-region program (also used by C17).
pub fn gen_regions_text(t: &mut Tape) -> String {
    let g = gen_regions(t);
    render(&g.parts)
}

impl Prop for C13 {
    fn id(&self) -> &'static str {
        "C13"
    }
    fn rule(&self) -> String {
        "cases: (regions) sequences of Verilog-95-safe modules inside sequential and nested `begin_keywords regions of all eight version specifiers, preceded and separated by kept \
         directives (`timescale, `celldefine, `resetall, `define …); a third of the declared names (module, ports, net, variable, instance) are words reserved only in later standards than \
         the one in force: the source must be accepted and the walk oracle must hold; (reserved) the same with one declared name replaced by a word reserved in the set in force: the \
         source must be rejected with Error::Parse; (walk) the walk oracle on every accepted corpus file and generated Annex A program. Walk oracle: going through the tree in order with a \
         version stack driven by the `begin_keywords / `end_keywords nodes, no SimpleIdentifier outside compiler directives spells a word of the set in force (tables of IEEE 1800-2017 \
         22.14 kept in the harness), no macro name spells a directive name. Non-trivial: >= 2 regions with different versions or a region plus a preceding directive; distinct by text digest."
            .into()
    }
    fn assumptions(&self) -> Vec<String> {
        vec!["the reserved-word tables are a snapshot kept in the harness (harness/src/keywords_data.rs), cross-checked against the standard's increments".into()]
    }
    fn campaigns(&self, ctx: &Ctx) -> Vec<Campaign> {
        vec![
            Campaign { name: "regions", kind: Kind::Random { quick: 6000, thorough: 80000 }, tape_len: 120 },
            Campaign { name: "reserved", kind: Kind::Random { quick: 6000, thorough: 80000 }, tape_len: 120 },
            Campaign { name: "walk-corpus", kind: Kind::Enumerated { count: ctx.corpus.sv.len() }, tape_len: 1 },
            Campaign { name: "walk-svgen", kind: Kind::Random { quick: 2000, thorough: 30000 }, tape_len: 900 },
        ]
    }
    fn run(&self, ctx: &Ctx, campaign: &str, t: &mut Tape, st: &mut Stats) -> Result<(), Fail> {
        st.eval();
        match campaign {
            "regions" | "reserved" => {
                let mut g = gen_regions(t);
                if g.in_force.is_empty() {
                    st.skip("no module generated");
                    return Ok(());
                }
                let mut replaced: Option<(String, &'static str)> = None;
                if campaign == "reserved" {
                    let (pi, v) = g.in_force[t.below(g.in_force.len())];
                    let word = *t.pick(VERSIONS[v].1);
                    if let Part::Module { names } = &mut g.parts[pi] {
                        let k = t.below(names.len());
                        names[k] = word.to_string();
                        replaced = Some((["module name", "port a", "port b", "net", "variable", "instance"][k].to_string(), word));
                    }
                }
                let text = render(&g.parts);
                let r = sv::parse_text(Grammar::Sv, &text, false);
                let distinct_versions: std::collections::BTreeSet<usize> = g.parts.iter().filter_map(|p| if let Part::Begin(v, _) = p { Some(*v) } else { None }).collect();
                let has_kept_before_region = g.parts.iter().position(|p| matches!(p, Part::Kept(_))).map(|i| g.parts[i..].iter().any(|p| matches!(p, Part::Begin(_, _)))).unwrap_or(false);
                let nontrivial = distinct_versions.len() >= 2 || has_kept_before_region;
                match (&replaced, r) {
                    (None, Ok((tree, pp))) => {
                        match check_tree(&tree, &pp) {
                            Ok((n, _)) => st.count("identifiers checked against the set in force", n as u64),
                            Err((m, d)) => return Err(Fail::new(m, json!({"source": text, "detail": d}))),
                        }
                        if g.later_used > 0 {
                            st.class("later-only words used as identifiers: accepted");
                        }
                        if nontrivial {
                            st.nontrivial(digest(text.as_bytes()), || json!({"campaign": campaign, "text": clip(&text, 500)}));
                        }
                    }
                    (None, Err(e)) => {
                        return Err(Fail::new(
                            format!("a source whose identifiers are not reserved in the set in force was rejected: {}", sv::err_kind(&e)),
                            json!({"source": text}),
                        ))
                    }
                    (Some((pos, w)), Ok(_)) => {
                        return Err(Fail::new(format!("reserved word {:?} of the set in force accepted as {}", w, pos), json!({"source": text, "word": w, "position": pos})))
                    }
                    (Some(_), Err(Error::Parse(_))) => {
                        st.class("reserved word at a declared-name position: rejected");
                        if nontrivial {
                            st.nontrivial(digest(text.as_bytes()), || json!({"campaign": campaign, "replaced": format!("{:?}", replaced), "text": clip(&text, 500)}));
                        }
                    }
                    (Some((pos, w)), Err(e)) => {
                        return Err(Fail::new(format!("reserved word {:?} as {} gave {} instead of Error::Parse", w, pos, sv::err_kind(&e)), json!({"source": text})))
                    }
                }
            }
            "walk-corpus" | "walk-svgen" => {
                let text = if campaign == "walk-corpus" {
                    ctx.corpus.sv[t.raw() as usize % ctx.corpus.sv.len()].text.clone()
                } else {
                    let p = svgen::generate_mixed(t, &svgen::Cfg::default());
                    let mut f = Feats::default();
                    p.render(t, &TriviaCfg::full(), &mut f)
                };
                if let Ok((tree, pp)) = sv::parse_text(Grammar::Sv, &text, false) {
                    match check_tree(&tree, &pp) {
                        Ok((n, regions)) => {
                            st.count("identifiers checked against the set in force", n as u64);
                            if regions > 0 {
                                st.class("tree with `begin_keywords regions");
                            }
                            if n >= 20 {
                                st.nontrivial(digest(pp.as_bytes()), || json!({"campaign": campaign, "identifiers": n, "text": clip(&pp, 300)}));
                            }
                        }
                        Err((m, d)) => return Err(Fail::new(m, json!({"source": text, "detail": d}))),
                    }
                }
            }
            _ => {}
        }
        Ok(())
    }
}
