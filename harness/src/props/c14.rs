//! C14 — invalid sources are rejected; the error location is at or before the fault.

use crate::engine::{digest, Campaign, Ctx, Fail, Kind, Prop, Stats};
use crate::gen::layout::{Feats, TriviaCfg};
use crate::gen::svgen;
use crate::ppm::run;
use crate::sv::{self, clip, kind, Defs, Error, Grammar, NodeEvent, RefNode};
use crate::tape::Tape;
use serde_json::json;
use std::path::{Path, PathBuf};

pub struct C14;

const BAD: &[&str] = &["\u{1}", "\u{7f}", "é", "§"];
const CLOSERS: &[&str] = &[
    ")", "]", "}", "end", "endmodule", "endcase", "endfunction", "endtask", "endgenerate", "join", "join_any", "join_none", "endclass", "endpackage", "endinterface",
    "endprogram",
];

/// (offset, len, text) of every token leaf outside white space / compiler directives, in order.
fn token_leaves(tree: &sv::SyntaxTree, text: &str) -> Vec<(usize, usize, String)> {
    let mut out = Vec::new();
    let mut ws = 0usize;
    for ev in tree.into_iter().event() {
        match ev {
            NodeEvent::Enter(n) => {
                if matches!(n, RefNode::WhiteSpace(_)) {
                    ws += 1;
                }
                if let RefNode::Locate(l) = n {
                    if ws == 0 {
                        out.push((l.offset, l.len, text[l.offset..l.offset + l.len].to_string()));
                    }
                }
            }
            NodeEvent::Leave(n) => {
                if matches!(n, RefNode::WhiteSpace(_)) {
                    ws -= 1;
                }
            }
        }
    }
    let _ = kind;
    out
}

struct Source {
    /// file that holds the program text the faults go into
    fault_path: PathBuf,
    fault_text: String,
    /// top file (differs from fault_path when the program sits in an include)
    top_path: PathBuf,
    top_text: String,
    incs: Vec<PathBuf>,
    included: bool,
}

fn parse_source(src: &Source, fault_text: &str) -> Result<(sv::SyntaxTree, Defs), Error> {
    if src.included {
        std::fs::write(&src.fault_path, fault_text).ok();
        sv::parse_sv_str(&src.top_text, &src.top_path, &Defs::new(), &src.incs, false, false)
    } else {
        sv::parse_sv_str(fault_text, &src.top_path, &Defs::new(), &src.incs, false, false)
    }
}

/// All insertion and deletion sites of one accepted program.
fn all_sites(src: &Source, st: &mut Stats, from: &str, max_sites: usize, t: &mut Tape) -> Result<usize, Fail> {
    // token positions of the program text itself (single-file parse; the text holds no macro usages)
    let (tree, pp) = match sv::parse_text(Grammar::Sv, &src.fault_text, false) {
        Ok(x) => x,
        Err(_) => {
            st.skip("program not accepted (C02's business)");
            return Ok(0);
        }
    };
    if pp != src.fault_text {
        st.skip("program changed by preprocessing (known finding K1 duplicates white space after strings / escaped identifiers)");
        return Ok(0);
    }
    if src.included {
        // the two-file arrangement must be accepted as a whole
        if parse_source(src, &src.fault_text).is_err() {
            st.skip("two-file arrangement not accepted");
            return Ok(0);
        }
    }
    let toks = token_leaves(&tree, &pp);
    let mut sites: Vec<(usize, Option<usize>)> = Vec::new(); // (offset, Some(len) = deletion)
    for (o, l, tx) in &toks {
        sites.push((*o, None));
        if CLOSERS.contains(&tx.as_str()) {
            sites.push((*o, Some(*l)));
        }
    }
    sites.push((pp.len(), None));
    // bound the work per program: a random window of sites
    let start = if sites.len() > max_sites { t.below(sites.len() - max_sites + 1) } else { 0 };
    let end = (start + max_sites).min(sites.len());
    let mut n = 0;
    for (k, (off, del)) in sites[start..end].iter().enumerate() {
        let detail = |mutated: &str, extra: serde_json::Value| json!({"from": from, "included": src.included, "original": src.fault_text, "mutated": mutated, "site_offset": off, "info": extra});
        match del {
            None => {
                let bad = BAD[(k + *off) % BAD.len()];
                let mutated = format!("{}{}{}", &pp[..*off], bad, &pp[*off..]);
                match parse_source(src, &mutated) {
                    Ok(_) => return Err(Fail::new(format!("a byte that cannot start a token ({:?}) inserted at offset {} was accepted", bad, off), detail(&mutated, json!({})))),
                    Err(Error::Parse(Some((p, o)))) => {
                        if p != src.fault_path {
                            return Err(Fail::new(
                                format!("error names file {:?}, the inserted byte is in {:?}", p, src.fault_path),
                                detail(&mutated, json!({"reported": format!("{:?}", (p, o))})),
                            ));
                        }
                        if o > *off {
                            return Err(Fail::new(format!("error offset {} lies after the inserted byte at {}", o, off), detail(&mutated, json!({"reported_offset": o}))));
                        }
                        st.count("insertion sites: rejected, file and offset checked", 1);
                    }
                    Err(Error::Parse(None)) => return Err(Fail::new(format!("inserted byte at offset {}: Error::Parse without a location", off), detail(&mutated, json!({})))),
                    Err(e) => {
                        let mut inner = &e;
                        let mut wraps = 0;
                        while let Error::Include { source } = inner {
                            inner = source;
                            wraps += 1;
                        }
                        return Err(Fail::new(format!("inserted byte at offset {}: expected Error::Parse, got {} ({} Include wrappers)", off, sv::err_kind(&e), wraps), detail(&mutated, json!({}))));
                    }
                }
            }
            Some(len) => {
                let mutated = format!("{} {}", &pp[..*off], &pp[*off + *len..]);
                match parse_source(src, &mutated) {
                    Ok(_) => {
                        return Err(Fail::new(
                            format!("deleting the closing delimiter {:?} at offset {} left an accepted source", &pp[*off..*off + *len], off),
                            detail(&mutated, json!({})),
                        ))
                    }
                    Err(Error::Parse(_)) => st.count("deletion sites: rejected with Error::Parse", 1),
                    Err(e) => return Err(Fail::new(format!("deleted delimiter at {}: expected Error::Parse, got {}", off, sv::err_kind(&e)), detail(&mutated, json!({})))),
                }
            }
        }
        n += 1;
    }
    if src.included {
        std::fs::write(&src.fault_path, &src.fault_text).ok();
    }
    Ok(n)
}

fn pp_fault_case(ctx: &Ctx, t: &mut Tape, st: &mut Stats) -> Result<(), Fail> {
    let dir = format!("{}/c14pp", run::thread_dir(&ctx.scratch));
    let _ = std::fs::create_dir_all(&dir);
    let prefix = *t.pick(&["", "module m;\n", "a b c\n\"ok\" x\n", "/* c */ wire w; // d\n", "`define A 1\n`A\n"]);
    let (fault, fault_rel): (&str, usize) = *t.pick(&[
        ("\"never closed", usize::MAX),
        ("/* never closed", usize::MAX),
        ("x = \"a\\", usize::MAX),
        ("\\ rest", 1),
        ("y \\\n z", 3),
        ("\\", 1),
        ("/* a */ /* b", usize::MAX),
    ]);
    let suffix = if fault_rel == usize::MAX { "" } else { *t.pick(&["", "\nendmodule\n"]) };
    let text = format!("{}{}{}", prefix, fault, suffix);
    // position not after which the error must be reported
    let limit = if fault_rel == usize::MAX { text.len() } else { prefix.len() + fault_rel };
    let included = t.flip();
    let top_path = PathBuf::from(format!("{}/top.sv", dir));
    let inc_path = PathBuf::from(format!("{}/bad.svh", dir));
    let (r, want_path, wraps) = if included {
        std::fs::write(&inc_path, &text).map_err(|e| Fail::new(format!("harness: {}", e), json!({"infrastructure": true})))?;
        let top = "before\n`include \"bad.svh\"\nafter\n";
        (sv::pp(top, &top_path, &Defs::new(), &[PathBuf::from(&dir)], false, false), inc_path.clone(), 1)
    } else {
        (sv::pp(&text, &top_path, &Defs::new(), &[], false, false), top_path.clone(), 0)
    };
    let detail = json!({"text": text, "included": included, "limit": limit});
    match r {
        Ok(_) => return Err(Fail::new("a preprocessor-level lexical fault was accepted", detail)),
        Err(e) => {
            let (n, inner) = run::peel(&e);
            if n != wraps {
                return Err(Fail::new(format!("{} Include wrappers, expected {}", n, wraps), detail));
            }
            match inner {
                Error::Preprocess(Some((p, o))) => {
                    if p != &want_path {
                        return Err(Fail::new(format!("Preprocess error names {:?}, the fault is in {:?}", p, want_path), detail));
                    }
                    if *o > limit {
                        return Err(Fail::new(format!("Preprocess error offset {} lies after the fault (limit {})", o, limit), detail));
                    }
                }
                other => return Err(Fail::new(format!("expected Error::Preprocess with a location, got {}", sv::err_kind(other)), detail)),
            }
        }
    }
    st.class(if included { "pp fault in an included file" } else { "pp fault in the top file" });
    st.nontrivial(digest(format!("{}{}", included, text).as_bytes()), || json!({"campaign": "ppfault", "text": text, "included": included}));
    Ok(())
}

impl Prop for C14 {
    fn id(&self) -> &'static str {
        "C14"
    }
    fn witness(&self, ctx: &Ctx, f: &crate::findings::Finding) -> Result<bool, Fail> {
        // witness {"kind":"parse_loc","files":{name: text},"top":name,"holds_byte":name,"listed_file":name}: the source is
        // rejected with Error::Parse; still fails iff the location names `listed_file` instead of the file holding the byte
        if f.witness["kind"].as_str() != Some("parse_loc") {
            return Ok(false);
        }
        let w = &f.witness;
        let dir = ctx.scratch.join(format!("witness-{}", f.id));
        let _ = std::fs::remove_dir_all(&dir);
        std::fs::create_dir_all(&dir).map_err(|e| Fail::new(format!("harness: {}", e), json!({"infrastructure": true})))?;
        if let Some(files) = w["files"].as_object() {
            for (name, text) in files {
                std::fs::write(dir.join(name), text.as_str().unwrap_or("")).map_err(|e| Fail::new(format!("harness: {}", e), json!({"infrastructure": true})))?;
            }
        }
        let top = dir.join(w["top"].as_str().unwrap_or("main.sv"));
        let r = sv_parser::parse_sv(&top, &Defs::new(), &[dir.clone()], false, false);
        let _ = std::fs::remove_dir_all(&dir);
        let named = match r {
            Err(Error::Parse(Some((p, _)))) => p.file_name().map(|x| x.to_string_lossy().to_string()).unwrap_or_default(),
            Err(Error::Parse(None)) => "<none>".to_string(),
            Err(e) => return Err(Fail::new(format!("witness of {}: {} instead of Error::Parse", f.id, sv::err_kind(&e)), json!({}))),
            Ok(_) => return Err(Fail::new(format!("witness of {}: the source with the inserted byte is accepted", f.id), json!({}))),
        };
        if named == w["listed_file"].as_str().unwrap_or("") {
            Ok(true)
        } else if named == w["holds_byte"].as_str().unwrap_or("") {
            Ok(false)
        } else {
            Err(Fail::new(format!("witness of {}: location names {}", f.id, named), json!({})))
        }
    }
    fn rule(&self) -> String {
        "cases: accepted programs (generated Annex A programs and corpus files that preprocessing leaves unchanged); sites: every token start outside compiler directives and the end \
         of the text for inserting a byte that cannot start a token (0x01, 0x7f, é, §), every closing bracket and block-closing keyword for deletion (a window of <= 60 consecutive sites \
         per program); the same with the program placed in an included file; plus preprocessor-level lexical faults (unterminated string / block comment, lone backslash) in the top or an \
         included file. Oracle: insertion -> Err(Error::Parse(Some((path, off)))) with path = the file holding the byte and off <= the byte's offset; deletion -> Err(Error::Parse(_)); \
         pp fault -> Error::Preprocess(Some((path, off))) with the right path, off not after the fault, inside one Include wrapper when included. Non-trivial: every (program, site) pair; \
         distinct by digest of (program, site window)."
            .into()
    }
    fn assumptions(&self) -> Vec<String> {
        vec![
            "for an unterminated string / block comment the fault is taken to be the end of the text (where the terminator is missing); for a lone backslash the byte after it".into(),
            "programs whose preprocessed text differs from the source (known finding K1) are skipped, since token offsets are taken from the accepted tree".into(),
        ]
    }
    fn campaigns(&self, _ctx: &Ctx) -> Vec<Campaign> {
        vec![
            Campaign { name: "svgen", kind: Kind::Random { quick: 1000, thorough: 6000 }, tape_len: 500 },
            Campaign { name: "corpus", kind: Kind::Random { quick: 150, thorough: 2000 }, tape_len: 8 },
            Campaign { name: "included", kind: Kind::Random { quick: 800, thorough: 5000 }, tape_len: 400 },
            Campaign { name: "ppfault", kind: Kind::Random { quick: 1500, thorough: 15000 }, tape_len: 8 },
        ]
    }
    fn run(&self, ctx: &Ctx, campaign: &str, t: &mut Tape, st: &mut Stats) -> Result<(), Fail> {
        st.eval();
        if campaign == "ppfault" {
            return pp_fault_case(ctx, t, st);
        }
        let dir = format!("{}/c14", run::thread_dir(&ctx.scratch));
        let _ = std::fs::create_dir_all(&dir);
        let (text, from) = if campaign == "corpus" {
            let f = t.pick(&ctx.corpus.sv);
            (f.text.clone(), f.name.clone())
        } else {
            // no escaped identifiers / strings followed by blanks: plain layout keeps the preprocessed text equal to the source
            let p = svgen::generate(t, &svgen::Cfg { max_elements: 2, max_items: 5, adversarial_names: false });
            let mut f = Feats::default();
            let mut cfg = TriviaCfg::plain();
            cfg.comments = t.flip();
            // kept directives between tokens: the first token after a directive is a site too
            cfg.directives = t.flip();
            (p.render(t, &cfg, &mut f), "svgen".to_string())
        };
        let src = if campaign == "included" {
            let inc = PathBuf::from(format!("{}/body.svh", dir));
            std::fs::write(&inc, &text).map_err(|e| Fail::new(format!("harness: {}", e), json!({"infrastructure": true})))?;
            Source {
                fault_path: inc,
                fault_text: text.clone(),
                top_path: PathBuf::from(format!("{}/top.sv", dir)),
                top_text: "// top\nmodule zz_first; endmodule\n`include \"body.svh\"\nmodule zz_last; endmodule\n".to_string(),
                incs: vec![PathBuf::from(&dir)],
                included: true,
            }
        } else {
            let p = PathBuf::from(format!("{}/top.sv", dir));
            Source { fault_path: p.clone(), fault_text: text.clone(), top_path: p, top_text: String::new(), incs: vec![], included: false }
        };
        let n = all_sites(&src, st, &from, 60, t)?;
        if n > 0 {
            st.count("sites", n as u64);
            st.nontrivial(digest(format!("{}{}{}", campaign, n, text).as_bytes()), || json!({"campaign": campaign, "sites": n, "program": clip(&text, 300)}));
        }
        let _ = Path::new("");
        Ok(())
    }
}
