//! C07 — results depend only on the arguments, not on what the thread did before.

use super::calls::{self, Entry, ENTRIES, INPUTS};
use crate::engine::{digest, Campaign, Ctx, Fail, Kind, Prop, Stats};
use crate::tape::Tape;
use serde_json::json;

pub struct C07;

/// Histories of generated texts (Annex A programs, preprocessor programs, token soups, their mutants) through the
/// string entry points; the probe's reference is computed on a fresh thread for this very text.
fn generated_case(ctx: &Ctx, t: &mut Tape, st: &mut Stats) -> Result<(), Fail> {
    use crate::gen::layout::{Feats, TriviaCfg};
    use crate::gen::{mutate, svgen};
    use crate::ppm::gen::{self as ppgen, PpCfg};
    let pool = calls::pool(&ctx.scratch);
    let mut gen_text = |t: &mut Tape| -> String {
        match t.below(5) {
            0 => mutate::soup(t),
            1 => {
                let case = ppgen::generate(t, &PpCfg { includes: false, max_items: 5, ..PpCfg::full() }, "/nonexistent");
                case.rendered[0].text.clone()
            }
            k => {
                let p = svgen::generate(t, &svgen::Cfg { max_elements: 2, max_items: 4, adversarial_names: true });
                let mut f = Feats::default();
                let text = p.render(t, &TriviaCfg::full(), &mut f);
                if k == 4 {
                    mutate::mutate_text(&text, t)
                } else {
                    text
                }
            }
        }
    };
    let n = 1 + t.below(4);
    let mut hist: Vec<(Entry, String)> = Vec::new();
    for _ in 0..n {
        let e = *t.pick(calls::STRING_ENTRIES);
        let tx = gen_text(t);
        hist.push((e, tx));
    }
    let pe = *t.pick(calls::STRING_ENTRIES);
    let ptext = gen_text(t);
    let run = |with_history: bool| -> String {
        let hist = &hist;
        let ptext = &ptext;
        std::thread::scope(|sc| {
            std::thread::Builder::new()
                .stack_size(512 << 20)
                .spawn_scoped(sc, move || {
                    let mut buf = String::with_capacity(1 << 16);
                    if with_history {
                        for (e, tx) in hist {
                            let _ = calls::exec_text(pool, *e, 0, tx, &mut buf);
                        }
                    } else {
                        // same buffer address discipline: fill the buffer once so its allocation exists
                        buf.push_str("x");
                    }
                    calls::exec_text(pool, pe, 0, ptext, &mut buf)
                })
                .unwrap()
                .join()
                .unwrap_or_else(|_| "PANIC".to_string())
        })
    };
    let got = run(true);
    let want = run(false);
    if got != want {
        return Err(Fail::new(
            format!("{:?} on a generated text after {} generated calls differs from the same call on a fresh thread: {}", pe, hist.len(), calls::first_diff(&got, &want)),
            json!({"history": hist.iter().map(|(e, tx)| json!({"entry": format!("{:?}", e), "text": tx})).collect::<Vec<_>>(), "probe_entry": format!("{:?}", pe), "probe_text": ptext}),
        ));
    }
    st.class("generated history");
    if hist.len() >= 2 {
        let key = format!("{:?}{:?}{}", hist, pe, ptext);
        st.nontrivial(digest(key.as_bytes()), || json!({"campaign": "generated", "calls": hist.len(), "probe": format!("{:?}", pe), "probe_text": crate::sv::clip(&ptext, 200)}));
    }
    Ok(())
}

impl Prop for C07 {
    fn id(&self) -> &'static str {
        "C07"
    }
    fn rule(&self) -> String {
        format!(
            "cases: histories of 0-12 calls followed by a probe call on one thread (campaign histories: a new thread per case, so cases replay exactly; campaign accumulate: the shard's long-lived thread, so residue also adds up across cases; campaign pairs: every (first input, probe input) pair; campaign generated: 1-4 generated texts (Annex A programs, preprocessor programs, soups, mutants) then a generated probe text through the string entry points); a call = one of \
             {} entry points (preprocess_str with/without strip_comments, preprocess, parse_sv_str / parse_lib_str strict and incomplete, parse_sv strict and incomplete, preprocess_str + parse_sv_pp, \
             raw pp_parser / sv_parser / lib_parser and their incomplete variants) x one of {} pooled inputs (accepted, rejected, keyword-sensitive probes, and state-polluting inputs: unclosed \
             `begin_keywords, lone `end_keywords, `resetall, failing macro names, recursion-limit programs, errors half-way through a file, truncated directives). Every input is copied into ONE reused \
             buffer so successive calls present the same text pointer with different contents. Oracle: the probe's result (text, every origin, sorted define table, Debug of tree / error) equals the \
             result of the same call on a freshly spawned thread. Non-trivial: the history has >= 1 failing call and >= 1 polluting input; distinct by digest of (history, probe).",
            ENTRIES.len(),
            INPUTS.len()
        )
    }
    fn assumptions(&self) -> Vec<String> {
        vec!["results are compared through Debug renderings; the fresh-thread reference is computed once per (entry point, input) and cached".into()]
    }
    fn campaigns(&self, _ctx: &Ctx) -> Vec<Campaign> {
        vec![
            Campaign { name: "histories", kind: Kind::Random { quick: 6000, thorough: 80000 }, tape_len: 40 },
            Campaign { name: "accumulate", kind: Kind::Random { quick: 6000, thorough: 80000 }, tape_len: 40 },
            Campaign { name: "generated", kind: Kind::Random { quick: 3000, thorough: 40000 }, tape_len: 700 },
            Campaign { name: "pairs", kind: Kind::Enumerated { count: INPUTS.len() * INPUTS.len() }, tape_len: 1 },
        ]
    }
    fn run(&self, ctx: &Ctx, campaign: &str, t: &mut Tape, st: &mut Stats) -> Result<(), Fail> {
        st.eval();
        let pool = calls::pool(&ctx.scratch);
        thread_local! {
            static BUF: std::cell::RefCell<String> = std::cell::RefCell::new(String::with_capacity(1 << 16));
        }
        if campaign == "generated" {
            return generated_case(ctx, t, st);
        }
        let mut history: Vec<(Entry, usize)> = Vec::new();
        let probe: (Entry, usize);
        if campaign == "pairs" {
            // every (polluter, probe) input pair through the most state-sensitive entry points
            let k = t.raw() as usize % (INPUTS.len() * INPUTS.len());
            let (a, b) = (k / INPUTS.len(), k % INPUTS.len());
            let e1 = ENTRIES[k % ENTRIES.len()];
            history.push((e1, a));
            probe = ([Entry::ParseSvStrInc, Entry::ParseSvStr, Entry::RawPp, Entry::RawSvInc, Entry::PpStr, Entry::RawLibInc][(k / 7) % 6], b);
        } else {
            let n = t.below(13);
            for _ in 0..n {
                history.push((*t.pick(ENTRIES), t.below(INPUTS.len())));
            }
            probe = (*t.pick(ENTRIES), t.below(INPUTS.len()));
        }
        let mut failing = 0;
        let mut polluting = 0;
        let run_on = |buf: &mut String, failing: &mut usize, polluting: &mut usize| -> String {
            for (e, i) in &history {
                let r = calls::exec(pool, *e, *i, buf);
                if r.starts_with("ERR") {
                    *failing += 1;
                }
                if INPUTS[*i].2 {
                    *polluting += 1;
                }
            }
            calls::exec(pool, probe.0, probe.1, buf)
        };
        let got = if campaign == "accumulate" {
            // on the shard's long-lived thread: residue of earlier cases adds up (a failure here may not replay in isolation)
            BUF.with(|b| run_on(&mut b.borrow_mut(), &mut failing, &mut polluting))
        } else {
            // self-contained: a new thread per case, so the case replays and shrinks exactly
            std::thread::scope(|sc| {
                std::thread::Builder::new()
                    .stack_size(256 << 20)
                    .spawn_scoped(sc, || {
                        let mut buf = String::with_capacity(1 << 16);
                        let mut f = 0;
                        let mut p = 0;
                        let r = run_on(&mut buf, &mut f, &mut p);
                        (r, f, p)
                    })
                    .unwrap()
                    .join()
            })
            .map(|(r, f, p)| {
                failing = f;
                polluting = p;
                r
            })
            .unwrap_or_else(|_| "PANIC".to_string())
        };
        let want = calls::reference(pool, probe.0, probe.1);
        if got != want {
            let h: Vec<String> = history.iter().map(|(e, i)| format!("{:?}({})", e, INPUTS[*i].0)).collect();
            return Err(Fail::new(
                format!("{:?}({}) after a history of {} calls differs from the same call on a fresh thread: {}", probe.0, INPUTS[probe.1].0, history.len(), calls::first_diff(&got, &want)),
                json!({"history": h, "probe": format!("{:?}({})", probe.0, INPUTS[probe.1].0), "probe_input": INPUTS[probe.1].1,
                       "note": "the worker thread is reused across cases of a shard, so residue may stem from earlier cases; the replay runs this history on a new worker thread"}),
            ));
        }
        if failing > 0 {
            st.class("history has a failing call");
        }
        if polluting > 0 {
            st.class("history has a polluting input");
        }
        if failing > 0 && polluting > 0 {
            let key = format!("{:?}{:?}", history, probe);
            st.nontrivial(digest(key.as_bytes()), || {
                json!({"history": history.iter().map(|(e, i)| format!("{:?}({})", e, INPUTS[*i].0)).collect::<Vec<_>>(), "probe": format!("{:?}({})", probe.0, INPUTS[probe.1].0)})
            });
        }
        Ok(())
    }
}
