//! C03 — the origin map sends every output byte back to the file and offset it came from.

use super::ppcommon::{compare_with_model, gen_case, sample_json, Outcome};
use crate::engine::{digest, Campaign, Ctx, Fail, Kind, Prop, Stats};
use crate::gen::layout::{Feats, TriviaCfg};
use crate::gen::svgen;
use crate::lexer;
use crate::ppm::gen::PpCfg;
use crate::ppm::model::{DefOrigin, Label};
use crate::ppm::run;
use crate::sv::{self, clip, Grammar, RefNode};
use crate::tape::Tape;
use serde_json::json;
use std::collections::HashMap;
use std::path::Path;

pub struct C03;

fn occurrences(hay: &str, needle: &str) -> Vec<usize> {
    let mut v = Vec::new();
    let mut start = 0;
    while let Some(i) = hay[start..].find(needle) {
        v.push(start + i);
        start += i + 1;
        if v.len() > 2 {
            break;
        }
    }
    v
}

/// Per-position origin oracle (DESIGN.md 4.3) on a run whose tokens agree with the model.
pub fn check_origins(o: &Outcome, st: &mut Stats) -> Result<(), (String, serde_json::Value)> {
    let (ppt, _) = match &o.actual {
        Some(x) => x,
        None => return Ok(()),
    };
    let out = ppt.text();
    let case = &o.case;
    // file index -> path under which the implementation opens it
    let mut opened: HashMap<usize, String> = HashMap::new();
    opened.insert(0, case.files[0].path.clone());
    for r in case.resolve.values().flatten() {
        opened.insert(r.file, r.opened_as.clone());
    }
    let file_of_path: HashMap<&str, usize> = opened.iter().map(|(k, v)| (v.as_str(), *k)).collect();
    // tokens (comments included) of expected and actual text must align 1:1
    let etoks = lexer::lex(&o.model.out).map_err(|e| (format!("expected text does not lex: {:?}", e), json!({})))?;
    let atoks = lexer::lex(out).map_err(|e| (format!("actual text does not lex: {:?}", e), json!({})))?;
    if etoks.len() != atoks.len() || etoks.iter().zip(atoks.iter()).any(|(a, b)| a.text != b.text) {
        st.skip("tokens (with comments) do not align 1:1 with the model; origin check not applicable");
        return Ok(());
    }
    let origin = |p: usize| -> Option<(String, usize)> { ppt.origin(p).map(|(a, b)| (a.to_string_lossy().to_string(), b)) };
    let fail = |p: usize, why: String| -> (String, serde_json::Value) {
        (
            format!("origin of output byte {} ({:?}): {}", p, clip(&out[p..], 12), why),
            json!({"position": p, "origin": format!("{:?}", origin(p)), "output": clip(out, 3000)}),
        )
    };
    let file_ws_rule = |p: usize| -> Result<(), String> {
        match origin(p) {
            None => Err("white space copied from a file has no origin".to_string()),
            Some((path, off)) => match file_of_path.get(path.as_str()) {
                None => Err(format!("names {:?}, which is not a file of this case", path)),
                Some(fi) => {
                    let src = case.rendered[*fi].text.as_bytes();
                    if off < src.len() && src[off] == out.as_bytes()[p] {
                        Ok(())
                    } else {
                        Err(format!("points at byte {} of {} which holds {:?}", off, path, src.get(off).map(|b| *b as char)))
                    }
                }
            },
        }
    };
    let mut labels: Vec<Label> = Vec::with_capacity(atoks.len());
    // source position of unique file tokens: (file, offset)
    let mut srcpos: Vec<Option<(usize, usize)>> = Vec::with_capacity(atoks.len());
    let mut positions = 0u64;
    for (et, at) in etoks.iter().zip(atoks.iter()) {
        let label = match run::label_at(&o.model.chunks, et.start) {
            Some(l) => l.clone(),
            None => return Err(("harness: model token without label".to_string(), json!({}))),
        };
        let mut sp = None;
        match &label {
            Label::File(fi) => {
                let path = &opened[fi];
                let src = &case.rendered[*fi].text;
                let occ = occurrences(src, at.text);
                let unique = occ.len() == 1 && at.text.len() >= 2;
                if unique {
                    sp = Some((*fi, occ[0]));
                    st.count("unique file tokens checked exactly", 1);
                }
                for k in 0..at.text.len() {
                    let p = at.start + k;
                    positions += 1;
                    match origin(p) {
                        None => return Err(fail(p, format!("none, expected file {}", path))),
                        Some((pa, off)) => {
                            if &pa != path {
                                return Err(fail(p, format!("file {:?}, expected {:?}", pa, path)));
                            }
                            if unique {
                                if off != occ[0] + k {
                                    return Err(fail(p, format!("offset {}, expected {}", off, occ[0] + k)));
                                }
                            } else {
                                let sb = src.as_bytes();
                                if off >= sb.len() || sb[off] != out.as_bytes()[p] {
                                    return Err(fail(p, format!("offset {} of {} does not hold this byte", off, path)));
                                }
                            }
                        }
                    }
                }
            }
            Label::Macro(DefOrigin::File(fi), def_id) => {
                let path = &opened[fi];
                let body_start = case.rendered[*fi].body_start.get(def_id).copied();
                st.count("macro-expansion tokens checked", 1);
                for k in 0..at.text.len() {
                    let p = at.start + k;
                    positions += 1;
                    match origin(p) {
                        None => return Err(fail(p, format!("none, expected the defining file {}", path))),
                        Some((pa, off)) => {
                            if &pa != path {
                                return Err(fail(p, format!("file {:?}, expected the defining file {:?}", pa, path)));
                            }
                            if let Some(b) = body_start {
                                if off < b {
                                    return Err(fail(p, format!("offset {} lies before the macro body (starts at {})", off, b)));
                                }
                            }
                        }
                    }
                }
            }
            Label::Macro(DefOrigin::Caller, _) | Label::Synth => {
                st.count("synthesised / caller-macro tokens checked", 1);
                for k in 0..at.text.len() {
                    let p = at.start + k;
                    positions += 1;
                    if let Some(x) = origin(p) {
                        return Err(fail(p, format!("{:?}, expected none (synthesised text / caller-supplied define)", x)));
                    }
                }
            }
        }
        labels.push(label);
        srcpos.push(sp);
    }
    // white space between tokens
    let mut prev_end = 0usize;
    for i in 0..=atoks.len() {
        let gap_end = if i < atoks.len() { atoks[i].start } else { out.len() };
        if gap_end > prev_end {
            // exact expectation when both neighbours are unique tokens adjacent in the same file
            let mut exact: Option<(usize, usize)> = None;
            if i > 0 && i < atoks.len() {
                if let (Some((f1, o1)), Some((f2, o2))) = (srcpos[i - 1], srcpos[i]) {
                    let e1 = o1 + atoks[i - 1].text.len();
                    if f1 == f2 && o2 >= e1 && case.rendered[f1].text[e1..o2] == out[prev_end..gap_end] {
                        exact = Some((f1, e1));
                    }
                }
            }
            // labels of the model's chunks that overlap the corresponding gap of the expected text
            let e_gap_start = if i > 0 { etoks[i - 1].start + etoks[i - 1].text.len() } else { 0 };
            let e_gap_end = if i < etoks.len() { etoks[i].start } else { o.model.out.len() };
            let gap_labels: Vec<Label> = o
                .model
                .chunks
                .iter()
                .filter(|c| c.start < e_gap_end && c.end > e_gap_start)
                .map(|c| c.label.clone())
                .collect();
            // white space at the edge of an expansion may be part of the expansion text (e.g. the blank
            // before a trailing // comment of the body): the neighbouring tokens' labels count too
            let mut gap_labels = gap_labels;
            for (pos, l) in &o.model.usage_marks {
                if *pos >= e_gap_start && *pos <= e_gap_end {
                    gap_labels.push(l.clone());
                }
            }
            // (not for `__FILE__ / `__LINE__: the synthesised text is the literal alone, the white space around it is the file's)
            if i > 0 && !matches!(labels[i - 1], Label::Synth) {
                gap_labels.push(labels[i - 1].clone());
            }
            if i < atoks.len() && !matches!(labels[i], Label::Synth) {
                gap_labels.push(labels[i].clone());
            }
            for p in prev_end..gap_end {
                positions += 1;
                if let Some((fi, base)) = exact {
                    let want = (opened[&fi].clone(), base + (p - prev_end));
                    if origin(p).as_ref() != Some(&want) {
                        return Err(fail(p, format!("white space between two adjacent tokens of {}: expected offset {}", want.0, want.1)));
                    }
                    st.count("white-space bytes checked exactly", 1);
                    continue;
                }
                let file_rule = file_ws_rule(p);
                if file_rule.is_ok() {
                    continue;
                }
                // white space that the model attributes (also) to a macro expansion / synthesised text in this gap
                let mut ok = false;
                for l in &gap_labels {
                    match l {
                        Label::Macro(DefOrigin::File(fi), def_id) => {
                            if let Some((pa, off)) = origin(p) {
                                let b = case.rendered[*fi].body_start.get(def_id).copied().unwrap_or(0);
                                if pa == opened[fi] && off >= b {
                                    ok = true;
                                }
                            }
                        }
                        Label::Macro(DefOrigin::Caller, _) | Label::Synth => {
                            if origin(p).is_none() {
                                ok = true;
                            }
                        }
                        Label::File(_) => {}
                    }
                }
                if !ok {
                    return Err(fail(p, format!("white space: {} (labels of the model for this gap: {:?})", file_rule.unwrap_err(), gap_labels)));
                }
            }
        }
        if i < atoks.len() {
            prev_end = atoks[i].start + atoks[i].text.len();
        }
    }
    st.count("output positions checked", positions);
    Ok(())
}

impl Prop for C03 {
    fn id(&self) -> &'static str {
        "C03"
    }
    fn rule(&self) -> String {
        "cases (campaign origins): generated file trees (plain text with globally unique tokens, kept directives, comments, conditionals, nested includes, \
         object-/function-like macros incl. empty expansions and expansions directly followed by text, `__FILE__/`__LINE__, caller-supplied defines); \
         oracle at EVERY output position: bytes of a unique file token map to exactly the file and offset where that token is written (found by search in the \
         sources), non-unique file tokens to the right file and a byte that equals the output byte, macro-expansion bytes to the defining file at/after the \
         body, synthesised / caller-macro bytes to none, white space to the exact offset when it lies between two adjacent unique tokens of one file and \
         otherwise to a file byte that equals it. Campaign tree: SyntaxTree::get_origin(leaf) == origin(leaf.offset) for every leaf of parsed svgen programs \
         split over an include file. Non-trivial: >= 2 files contribute and >= 1 expansion or conditional (model counters); distinct by digest of all file texts."
            .into()
    }
    fn witness(&self, _ctx: &Ctx, f: &crate::findings::Finding) -> Result<bool, Fail> {
        // witness {"kind":"pp_origin","source":…,"needle":…,"expected_offset":n,"listed_offset":m}: the origin of the first
        // occurrence of `needle` in the output, a byte copied from the (single) source file
        if f.witness["kind"].as_str() != Some("pp_origin") {
            return Ok(false);
        }
        let w = &f.witness;
        let src = w["source"].as_str().unwrap_or("");
        let needle = w["needle"].as_str().unwrap_or("");
        let (ppt, _) = sv::pp(src, std::path::Path::new("top.sv"), &Default::default(), &[], false, false)
            .map_err(|e| Fail::new(format!("witness of {} is rejected: {}", f.id, sv::err_kind(&e)), json!({})))?;
        let pos = ppt.text().find(needle).ok_or_else(|| Fail::new(format!("witness of {}: {:?} not in the output", f.id, needle), json!({})))?;
        let got = ppt.origin(pos).map(|(_, o)| o as u64);
        if got == w["listed_offset"].as_u64() {
            Ok(true)
        } else if got == w["expected_offset"].as_u64() {
            Ok(false)
        } else {
            Err(Fail::new(format!("witness of {}: origin offset {:?}", f.id, got), json!({})))
        }
    }
    fn assumptions(&self) -> Vec<String> {
        vec![
            "token-to-label alignment borrows the reference model's token sequence (cases whose tokens do not align, e.g. listed finding K6, are counted as skipped)".into(),
            "strings / escaped identifiers are always followed by a plain token (known finding K1 duplicates trivia after them); the K1 trigger is exercised by C06".into(),
        ]
    }
    fn campaigns(&self, _ctx: &Ctx) -> Vec<Campaign> {
        vec![
            Campaign { name: "origins", kind: Kind::Random { quick: 30000, thorough: 400000 }, tape_len: 600 },
            Campaign { name: "tree", kind: Kind::Random { quick: 1500, thorough: 15000 }, tape_len: 600 },
        ]
    }
    fn run(&self, ctx: &Ctx, campaign: &str, t: &mut Tape, st: &mut Stats) -> Result<(), Fail> {
        st.eval();
        if campaign == "tree" {
            return tree_case(ctx, t, st);
        }
        let mut cfg = PpCfg::full();
        cfg.max_items = 8;
        cfg.define_via = t.chance(1, 3);
        let case = gen_case(ctx, t, &cfg)?;
        // token / error agreement is C04/C05/C10's business; a disagreement there is reported by those checks
        let o = match compare_with_model(ctx, "C03", case, st) {
            Ok(o) => o,
            Err(_) => {
                st.skip("implementation and model disagree on tokens/error (reported by C04/C05/C10)");
                return Ok(());
            }
        };
        if o.actual.is_none() {
            st.class("run ends in an error (no output to check)");
            return Ok(());
        }
        let ms = o.model.stats.clone();
        if ms.generated_def_expansions > 0 {
            st.class("expansion of a macro that was defined by another macro's expansion");
        }
        if let Err((msg, d)) = check_origins(&o, st) {
            return Err(Fail::new(msg, json!({"case": run::case_json(&o.case), "detail": d})));
        }
        if ms.empty_expansions > 0 {
            st.class("has empty expansion");
        }
        if ms.includes_entered > 0 {
            st.class("has include");
        }
        if ms.max_include_depth >= 2 {
            st.class("nested include");
        }
        if ms.cond_chains > 0 {
            st.class("has conditional");
        }
        if ms.expansions > 0 {
            st.class("has expansion");
        }
        if ms.files_contributing >= 2 && (ms.expansions > 0 || ms.cond_chains > 0) {
            let all: String = o.case.rendered.iter().map(|r| r.text.as_str()).collect::<Vec<_>>().join("\u{1}");
            st.nontrivial(digest(all.as_bytes()), || sample_json(&o));
        }
        Ok(())
    }
    fn health(&self, _ctx: &Ctx, st: &Stats) -> Result<(), String> {
        for c in ["has empty expansion", "has include", "nested include", "has conditional", "has expansion"] {
            let n = st.classes.get(c).copied().unwrap_or(0);
            if n * 100 < st.evaluations {
                return Err(format!("class '{}' occurs in {} of {} cases (< 1 %)", c, n, st.evaluations));
            }
        }
        Ok(())
    }
}

/// SyntaxTree::get_origin(leaf) == PreprocessedText::origin(leaf.offset), on programs split over an include.
fn tree_case(ctx: &Ctx, t: &mut Tape, st: &mut Stats) -> Result<(), Fail> {
    let dir = format!("{}/treecase", run::thread_dir(&ctx.scratch));
    let _ = std::fs::create_dir_all(&dir);
    let p = svgen::generate(t, &svgen::Cfg { max_elements: 2, max_items: 5, adversarial_names: true });
    let q = svgen::generate(t, &svgen::Cfg { max_elements: 2, max_items: 4, adversarial_names: false });
    let mut f = Feats::default();
    let inc_text = p.render(t, &TriviaCfg::plain(), &mut f);
    let tail = q.render(t, &TriviaCfg::plain(), &mut f);
    let inc_path = format!("{}/body.svh", dir);
    std::fs::write(&inc_path, &inc_text).map_err(|e| Fail::new(format!("harness: {}", e), json!({"infrastructure": true})))?;
    let top = format!("`define W 8\n`include \"body.svh\"\nmodule zz_top; wire [`W-1:0] w_q; endmodule\n{}", tail);
    let incs = vec![std::path::PathBuf::from(&dir)];
    let top_path = format!("{}/top.sv", dir);
    let defs = sv::Defs::new();
    let (ppt, _) = match sv::pp(&top, Path::new(&top_path), &defs, &incs, false, false) {
        Ok(x) => x,
        Err(_) => {
            st.skip("preprocessing failed");
            return Ok(());
        }
    };
    let tree = match sv::parse_sv_str(&top, Path::new(&top_path), &defs, &incs, false, false) {
        Ok((t, _)) => t,
        Err(_) => {
            st.skip("program rejected (C02's business)");
            return Ok(());
        }
    };
    let mut leaves = 0u64;
    let mut files: std::collections::BTreeSet<String> = Default::default();
    let mut none = 0;
    for n in &tree {
        if let RefNode::Locate(l) = n {
            let a = tree.get_origin(l).map(|(p, o)| (p.clone(), o));
            let b = ppt.origin(l.offset).map(|(p, o)| (p.clone(), o));
            if a != b {
                return Err(Fail::new(
                    format!("get_origin(leaf at {}) = {:?} but origin({}) = {:?}", l.offset, a, l.offset, b),
                    json!({"top": top, "include": inc_text}),
                ));
            }
            match &a {
                Some((p, _)) => {
                    files.insert(p.to_string_lossy().to_string());
                }
                None => none += 1,
            }
            leaves += 1;
        }
    }
    st.count("tree leaves compared", leaves);
    let _ = none;
    let _ = Grammar::Sv;
    if files.len() >= 2 && leaves >= 20 {
        st.nontrivial(digest(format!("tree{}{}", inc_text, tail).as_bytes()), || json!({"campaign": "tree", "top": clip(&top, 300), "include": clip(&inc_text, 300), "leaves": leaves}));
    }
    Ok(())
}
