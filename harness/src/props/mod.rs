use crate::engine::Prop;

pub mod c01;
pub mod c02;
pub mod c03;
pub mod c04;
pub mod c05;
pub mod ppcommon;

pub fn by_id(id: &str) -> Option<Box<dyn Prop>> {
    match id {
        "C01" => Some(Box::new(c01::C01)),
        "C02" => Some(Box::new(c02::C02)),
        "C03" => Some(Box::new(c03::C03)),
        "C04" => Some(Box::new(c04::C04)),
        "C05" => Some(Box::new(c05::C05)),
        _ => None,
    }
}

pub fn worker(_args: &[String]) -> i32 {
    2
}
