use crate::engine::Prop;

pub mod c01;
pub mod c02;
pub mod c03;
pub mod c04;
pub mod c05;
pub mod c06;
pub mod c07;
pub mod c08;
pub mod c09;
pub mod calls;
pub mod c10;
pub mod c11;
pub mod c12;
pub mod c13;
pub mod c14;
pub mod c15;
pub mod c16;
pub mod c17;
pub mod c18;
pub mod c19;
pub mod c20;
pub mod ppcommon;

pub fn by_id(id: &str) -> Option<Box<dyn Prop>> {
    match id {
        "C01" => Some(Box::new(c01::C01)),
        "C02" => Some(Box::new(c02::C02)),
        "C03" => Some(Box::new(c03::C03)),
        "C04" => Some(Box::new(c04::C04)),
        "C05" => Some(Box::new(c05::C05)),
        "C06" => Some(Box::new(c06::C06)),
        "C07" => Some(Box::new(c07::C07)),
        "C08" => Some(Box::new(c08::C08)),
        "C09" => Some(Box::new(c09::C09)),
        "C10" => Some(Box::new(c10::C10)),
        "C11" => Some(Box::new(c11::C11)),
        "C12" => Some(Box::new(c12::C12)),
        "C13" => Some(Box::new(c13::C13)),
        "C14" => Some(Box::new(c14::C14)),
        "C15" => Some(Box::new(c15::C15)),
        "C16" => Some(Box::new(c16::C16)),
        "C17" => Some(Box::new(c17::C17)),
        "C18" => Some(Box::new(c18::C18)),
        "C19" => Some(Box::new(c19::C19)),
        "C20" => Some(Box::new(c20::C20)),
        _ => None,
    }
}

pub fn worker(args: &[String]) -> i32 {
    match args.get(0).map(|s| s.as_str()) {
        Some("pp") => c10::worker_pp(args.get(1).map(|s| s.as_str()).unwrap_or("")),
        _ => 2,
    }
}
