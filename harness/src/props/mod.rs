use crate::engine::Prop;

pub mod c01;
pub mod c02;

pub fn by_id(id: &str) -> Option<Box<dyn Prop>> {
    match id {
        "C01" => Some(Box::new(c01::C01)),
        "C02" => Some(Box::new(c02::C02)),
        _ => None,
    }
}

pub fn worker(_args: &[String]) -> i32 {
    2
}
