//! C11 — the returned define table is exact and threads across files as one unit.

use super::ppcommon::{compare_with_model, gen_case, sample_json};
use crate::engine::{digest, Campaign, Ctx, Fail, Kind, Prop, Stats};
use crate::ppm::ast::{render_items, Item, Side};
use crate::ppm::gen::{ensure_trailing_newline, PpCfg};
use crate::ppm::run;
use crate::sv::{self, clip, Defs};
use crate::tape::Tape;
use serde_json::json;
use std::path::Path;

pub struct C11;

/// Define table with source positions erased and the re-installed SV_COV_* constants left aside, sorted.
pub fn erase_origins(d: &Defs) -> Vec<(String, Option<(Vec<(String, Option<String>)>, Option<String>)>)> {
    let mut v: Vec<_> = d
        .iter()
        .filter(|(k, _)| !k.starts_with("SV_COV_"))
        .map(|(k, v)| (k.clone(), v.as_ref().map(|x| (x.arguments.clone(), x.text.as_ref().map(|t| t.text.clone())))))
        .collect();
    v.sort();
    v
}

impl Prop for C11 {
    fn id(&self) -> &'static str {
        "C11"
    }
    fn rule(&self) -> String {
        "cases: (table) generated define/undef/redefine/`undefineall programs with caller tables: the returned table minus SV_COV_* must equal the reference \
         model's (names, formals, default texts, body text after trimming); (threading) the same programs cut at top-level item boundaries into 2-4 files \
         that each end with a newline outside any conditional: preprocessing them one after the other, feeding each returned table into the next run, must \
         give byte-identical text and (source positions aside) the same final table as preprocessing the concatenation. Non-trivial: a function-like define \
         with a default and an undef/redefine, or (threading) a macro defined in an earlier part and used in a later one; distinct by digest of the parts."
            .into()
    }
    fn assumptions(&self) -> Vec<String> {
        vec!["no `__FILE__/`__LINE__ (both campaigns) and no includes in the threaded programs (their values legitimately depend on the file split)".into()]
    }
    fn campaigns(&self, _ctx: &Ctx) -> Vec<Campaign> {
        vec![
            Campaign { name: "table", kind: Kind::Random { quick: 40000, thorough: 500000 }, tape_len: 500 },
            Campaign { name: "threading", kind: Kind::Random { quick: 30000, thorough: 400000 }, tape_len: 500 },
        ]
    }
    fn run(&self, ctx: &Ctx, campaign: &str, t: &mut Tape, st: &mut Stats) -> Result<(), Fail> {
        st.eval();
        let mut cfg = PpCfg::full();
        // the table campaign also follows includes (defines / undefs made inside an included file count);
        // the threading campaign cuts a single file
        cfg.includes = campaign == "table" && t.chance(1, 2);
        cfg.position = false;
        // `define / `undef produced by expanding a maker / remover macro (seed C11e)
        cfg.define_via = t.chance(1, 2);
        cfg.max_items = 10;
        let case = gen_case(ctx, t, &cfg)?;
        if campaign == "table" {
            let o = compare_with_model(ctx, "C11", case, st)?;
            if o.model.stats.includes_entered > 0 {
                st.class("table compared after includes");
            }
            if o.model.stats.undefs_via > 0 {
                st.class("undef made by a macro expansion");
            }
            let text = &o.case.rendered[0].text;
            let fl_default = text.contains("=") && text.contains("`define");
            let redefine = text.contains("`undef") || text.matches("`define").count() >= 3;
            if o.actual.is_some() {
                st.class("run succeeded (table compared)");
            }
            if fl_default && redefine && o.actual.is_some() {
                st.nontrivial(digest(text.as_bytes()), || sample_json(&o));
            }
            return Ok(());
        }
        // threading: cut the top-level item list into parts
        let items: Vec<Item> = case.files[0].items.clone();
        if items.len() < 2 {
            st.skip("fewer than two top-level items");
            return Ok(());
        }
        let nparts = 2 + t.below(3.min(items.len() - 1));
        let mut cuts: Vec<usize> = Vec::new();
        for _ in 0..nparts - 1 {
            cuts.push(1 + t.below(items.len() - 1));
        }
        cuts.sort();
        cuts.dedup();
        let mut parts: Vec<String> = Vec::new();
        let mut start = 0;
        for c in cuts.iter().chain(std::iter::once(&items.len())) {
            let mut part: Vec<Item> = items[start..*c].to_vec();
            ensure_trailing_newline(&mut part);
            let mut s = String::new();
            let mut side = Side::default();
            render_items(&part, &mut s, &mut side);
            parts.push(s);
            start = *c;
        }
        let whole: String = parts.concat();
        let path = Path::new(&case.files[0].path);
        let incs = run::include_paths(&case);
        let defs0 = run::caller_defs(&case.initial);
        let r_whole = sv::pp(&whole, path, &defs0, &incs, false, false);
        // sequential
        let mut text_seq = String::new();
        let mut defs = defs0.clone();
        let mut seq_err: Option<String> = None;
        let mut crossings = 0usize;
        for (i, p) in parts.iter().enumerate() {
            match sv::pp(p, path, &defs, &incs, false, false) {
                Ok((tx, d)) => {
                    text_seq.push_str(tx.text());
                    // a macro defined earlier and used in this part?
                    if i > 0 {
                        for (k, _) in defs.iter() {
                            if !k.starts_with("SV_COV_") && p.contains(&format!("`{}", k)) {
                                crossings += 1;
                                break;
                            }
                        }
                    }
                    defs = d;
                }
                Err(e) => {
                    seq_err = Some(sv::err_kind(&e));
                    break;
                }
            }
        }
        let detail = || json!({"parts": parts, "caller_defines": run::case_json(&case)["caller_defines"]});
        match (r_whole, seq_err) {
            (Ok((tw, dw)), None) => {
                if tw.text() != text_seq {
                    return Err(Fail::new(
                        "text of the concatenation differs from the concatenated texts of the threaded runs",
                        json!({"case": detail(), "whole": clip(tw.text(), 3000), "threaded": clip(&text_seq, 3000)}),
                    ));
                }
                if erase_origins(&dw) != erase_origins(&defs) {
                    return Err(Fail::new(
                        "final define table of the threaded runs differs from the table of the concatenation (positions aside)",
                        json!({"case": detail(), "whole": format!("{:?}", erase_origins(&dw)), "threaded": format!("{:?}", erase_origins(&defs))}),
                    ));
                }
                st.class("threaded run succeeded");
                if crossings > 0 {
                    st.class("macro crosses a file boundary");
                    st.nontrivial(digest(parts.join("\u{1}").as_bytes()), || json!({"parts": parts.iter().map(|p| clip(p, 200)).collect::<Vec<_>>()}));
                }
            }
            (Err(ew), Some(es)) => {
                if sv::err_kind(&ew) != es {
                    return Err(Fail::new(format!("threaded runs fail with {} but the concatenation with {}", es, sv::err_kind(&ew)), detail()));
                }
                st.class("both fail with the same error");
            }
            (Ok(_), Some(es)) => return Err(Fail::new(format!("threaded runs fail with {} but the concatenation succeeds", es), detail())),
            (Err(ew), None) => return Err(Fail::new(format!("the concatenation fails with {} but the threaded runs succeed", sv::err_kind(&ew)), detail())),
        }
        Ok(())
    }
    fn witness(&self, _ctx: &Ctx, f: &crate::findings::Finding) -> Result<bool, Fail> {
        super::ppcommon::pp_witness(f)
    }
}
