//! C06 — directive-free text passes through the preprocessor unchanged; outputs are fixed points.

use super::ppcommon::gen_case;
use crate::engine::{digest, Campaign, Ctx, Fail, Kind, Prop, Stats};
use crate::gen::textgen;
use crate::lexer::{lex_opts, LexError};
use crate::ppm::gen::PpCfg;
use crate::ppm::run;
use crate::sv::{self, clip, Error};
use crate::tape::Tape;
use serde_json::json;
use std::path::Path;

pub struct C06;

fn identity_check(ctx: &Ctx, text: &str, k1_sites: usize, st: &mut Stats, origin_tag: &str) -> Result<bool, Fail> {
    let path = Path::new("dir/plain.sv");
    let r = sv::pp(text, path, &Default::default(), &[], false, false);
    let detail = |extra: serde_json::Value| json!({"source": text, "from": origin_tag, "info": extra});
    match r {
        Ok((ppt, _)) => {
            if ppt.text() != text {
                // known finding K1 (RC1): duplicated trivia after strings / escaped identifiers, exactly as predicted
                if k1_sites > 0 || textgen::has_k1_site(text) {
                    if ctx.findings.is_known("C06", "K1") {
                        if let Some(pred) = textgen::rc1_predict(text) {
                            if pred == ppt.text() {
                                st.known("K1");
                                return Ok(true);
                            }
                        }
                    }
                }
                return Err(Fail::new(
                    "directive-free text was changed by the preprocessor",
                    detail(json!({"output": ppt.text(), "rc1_prediction": textgen::rc1_predict(text)})),
                ));
            }
            for i in 0..text.len() {
                match ppt.origin(i) {
                    Some((p, o)) if p.as_path() == path && o == i => {}
                    other => {
                        return Err(Fail::new(
                            format!("origin({}) = {:?}, expected ({:?}, {})", i, other, path, i),
                            detail(json!({})),
                        ))
                    }
                }
            }
            st.count("positions with identity origin checked", text.len() as u64);
            Ok(true)
        }
        Err(e) => {
            // allowed only for an unterminated string / block comment or a lone backslash, and only as Preprocess
            let lexed = lex_opts(text, true);
            let excused = matches!(lexed, Err(LexError::UnterminatedString(_)) | Err(LexError::UnterminatedBlockComment(_)) | Err(LexError::LoneBackslash(_)));
            if !excused {
                return Err(Fail::new(format!("lexically well-formed directive-free text rejected: {}", sv::err_kind(&e)), detail(json!({}))));
            }
            if !matches!(e, Error::Preprocess(_)) {
                return Err(Fail::new(format!("malformed text rejected with {} instead of Error::Preprocess", sv::err_kind(&e)), detail(json!({}))));
            }
            st.class("rejected: lexical fault present");
            Ok(false)
        }
    }
}

impl Prop for C06 {
    fn id(&self) -> &'static str {
        "C06"
    }
    fn rule(&self) -> String {
        "cases: (wellformed) directive-free texts built from identifiers, numbers, operators, strings (escapes, backticks, line breaks, non-ASCII), escaped identifiers, \
         both comment kinds (quotes, backticks, comment openers inside), CR/LF/CRLF, bare non-ASCII; strings / escaped identifiers are followed by a plain token (K1 excluded \
         by construction); (k1) the same with the K1 trigger kept: the output must equal the RC1 prediction exactly; (arbitrary) arbitrary backtick-free character soups: Ok => \
         identity (or the exact RC1 prediction), Err => the harness lexer finds an unterminated string / block comment or a lone backslash and the error is Preprocess; \
         (fixpoint) every successful output of generated preprocessor programs is preprocessed again with the same initial defines and must come back unchanged (outputs with a \
         K1 site are counted and excluded). Oracle for accepted text: text == input and origin(i) == (path, i) for every i. Non-trivial: >= 1 string, >= 1 comment and one of \
         {escaped identifier, non-ASCII, CR}; distinct by digest of the text."
            .into()
    }
    fn assumptions(&self) -> Vec<String> {
        vec!["the harness lexer (harness/src/lexer.rs) defines lexical well-formedness of directive-free text".into()]
    }
    fn campaigns(&self, _ctx: &Ctx) -> Vec<Campaign> {
        vec![
            Campaign { name: "wellformed", kind: Kind::Random { quick: 60000, thorough: 800000 }, tape_len: 80 },
            Campaign { name: "k1", kind: Kind::Random { quick: 15000, thorough: 150000 }, tape_len: 80 },
            Campaign { name: "arbitrary", kind: Kind::Random { quick: 60000, thorough: 800000 }, tape_len: 30 },
            Campaign { name: "fixpoint", kind: Kind::Random { quick: 15000, thorough: 200000 }, tape_len: 500 },
        ]
    }
    fn run(&self, ctx: &Ctx, campaign: &str, t: &mut Tape, st: &mut Stats) -> Result<(), Fail> {
        st.eval();
        match campaign {
            "wellformed" | "k1" => {
                let (text, sites) = textgen::well_formed(t, campaign == "k1");
                if lex_opts(&text, true).is_err() {
                    return Err(Fail::new("harness: textgen produced text its own lexer rejects", json!({"infrastructure": true, "text": text})));
                }
                let ok = identity_check(ctx, &text, sites, st, campaign)?;
                if ok {
                    let has_str = text.contains('"');
                    let has_comment = text.contains("//") || text.contains("/*");
                    let extra = text.contains('\\') || !text.is_ascii() || text.contains('\r');
                    if sites > 0 {
                        st.class("has K1 trigger site");
                    }
                    if has_str && has_comment && extra {
                        st.nontrivial(digest(text.as_bytes()), || json!({"campaign": campaign, "text": clip(&text, 300)}));
                    }
                }
            }
            "arbitrary" => {
                let text = textgen::arbitrary(t);
                let ok = identity_check(ctx, &text, 0, st, "arbitrary")?;
                if ok {
                    st.class("accepted");
                }
                if text.contains('"') && (text.contains('\\') || text.contains("/*") || text.contains("//")) {
                    st.nontrivial(digest(text.as_bytes()), || json!({"campaign": "arbitrary", "text": text, "accepted": ok}));
                }
            }
            _ => {
                let mut cfg = PpCfg::full();
                cfg.position = false;
                cfg.max_items = 8;
                let case = gen_case(ctx, t, &cfg)?;
                let (o, _) = match run::run_actual(&case, false, false) {
                    Ok(x) => x,
                    Err(_) => {
                        st.class("first run failed (nothing to re-feed)");
                        return Ok(());
                    }
                };
                let out = o.text().to_string();
                if textgen::has_k1_site(&out) {
                    st.skip("output has a K1 trigger site (string / escaped identifier followed by blanks, a comment or a directive)");
                    return Ok(());
                }
                let defs = run::caller_defs(&case.initial);
                let again = sv::pp(&out, Path::new(&case.files[0].path), &defs, &run::include_paths(&case), false, false);
                match again {
                    Ok((o2, _)) => {
                        if o2.text() != out {
                            return Err(Fail::new(
                                "the output of a successful run is not a fixed point",
                                json!({"case": run::case_json(&case), "first_output": out, "second_output": o2.text()}),
                            ));
                        }
                        st.class("fixed point confirmed");
                        if out.contains("`define") && case.files.len() > 1 {
                            st.nontrivial(digest(out.as_bytes()), || json!({"campaign": "fixpoint", "output": clip(&out, 300)}));
                        }
                    }
                    Err(e) => {
                        return Err(Fail::new(
                            format!("re-preprocessing a successful output failed: {}", sv::err_kind(&e)),
                            json!({"case": run::case_json(&case), "first_output": out}),
                        ))
                    }
                }
            }
        }
        Ok(())
    }
    fn witness(&self, _ctx: &Ctx, f: &crate::findings::Finding) -> Result<bool, Fail> {
        // witness: {"kind":"rc1","source": …}: still fails as listed iff output == RC1 prediction != source
        if f.witness["kind"].as_str() == Some("pp_tokens") {
            return super::ppcommon::pp_witness(f);
        }
        if f.witness["kind"].as_str() != Some("rc1") {
            return Ok(false);
        }
        let src = f.witness["source"].as_str().unwrap_or("");
        let strip = f.witness["strip"].as_bool().unwrap_or(false);
        let r = sv::pp(src, Path::new("top.sv"), &Default::default(), &[], false, strip);
        match r {
            Ok((t, _)) => {
                if t.text() == src {
                    Ok(false)
                } else if f.witness["listed_output"].as_str() == Some(t.text()) {
                    Ok(true)
                } else {
                    Err(Fail::new(format!("witness of {} fails differently", f.id), json!({"source": src, "output": t.text()})))
                }
            }
            Err(e) => Err(Fail::new(format!("witness of {} now errors: {}", f.id, sv::err_kind(&e)), json!({"source": src}))),
        }
    }
}
