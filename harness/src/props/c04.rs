//! C04 — conditional compilation selects exactly the IEEE 22.6 branch.

use super::ppcommon::{compare_with_model, gen_case, sample_json};
use crate::engine::{digest, Campaign, Ctx, Fail, Kind, Prop, Stats};
use crate::ppm::gen::PpCfg;
use crate::tape::Tape;

pub struct C04;

impl Prop for C04 {
    fn id(&self) -> &'static str {
        "C04"
    }
    fn rule(&self) -> String {
        "cases: generated programs with nested `ifdef/`ifndef/`elsif/`else chains (depth <= 3, <= 3 `elsif) over a pool of macro names incl. \
         `__FILE__/`__LINE__ and undefined names, `define/`undef/`undefineall between and inside branches, dead branches holding defines, undefs, \
         includes of missing files and usages of undefined macros, random caller-supplied define tables (with body / bare name); campaign k2 keeps the \
         trigger of known finding K2 (predefined names in `elsif chains). Oracle: reference model: token-for-token output (every branch carries unique tokens), \
         final define table, and no error out of a dead branch. Non-trivial: >= 2 chains with >= 1 nested and >= 1 `elsif reached after a failed condition \
         (model counters); distinct by digest of the file texts."
            .into()
    }
    fn assumptions(&self) -> Vec<String> {
        vec![
            "dead branches are lexically well formed (the preprocessor grammar parses them)".into(),
            "macro names that are SystemVerilog keywords (wire, begin) are used as `ifdef / `elsif / `undef operands as well".into(),
        ]
    }
    fn campaigns(&self, _ctx: &Ctx) -> Vec<Campaign> {
        vec![
            Campaign { name: "conds", kind: Kind::Random { quick: 60000, thorough: 800000 }, tape_len: 600 },
            Campaign { name: "k2", kind: Kind::Random { quick: 10000, thorough: 100000 }, tape_len: 400 },
        ]
    }
    fn run(&self, ctx: &Ctx, campaign: &str, t: &mut Tape, st: &mut Stats) -> Result<(), Fail> {
        st.eval();
        let mut cfg = PpCfg::full();
        cfg.includes = t.chance(1, 4);
        cfg.multi_dir = false;
        cfg.k2_trigger = campaign == "k2";
        cfg.max_items = 8;
        cfg.max_depth = 3;
        cfg.cond_weight = 9;
        cfg.glue = campaign == "conds" && t.chance(1, 3);
        let case = gen_case(ctx, t, &cfg)?;
        let o = compare_with_model(ctx, "C04", case, st)?;
        let ms = &o.model.stats;
        if ms.cond_chains > 0 {
            st.class("has conditional");
        }
        if ms.nested_conds > 0 {
            st.class("has nested conditional");
        }
        if ms.elsif_after_failed > 0 {
            st.class("elsif taken after failed condition");
        }
        if ms.dead_items > 0 {
            st.class("has dead items");
        }
        if o.case.k2_sites > 0 {
            st.class("has K2 trigger site");
        }
        if o.case.glue_sites > 0 {
            st.class("plain token directly in front of a conditional directive");
        }
        if !o.case.initial.is_empty() {
            st.class("caller-supplied defines");
        }
        if ms.cond_chains >= 2 && ms.nested_conds >= 1 && ms.elsif_after_failed >= 1 {
            let all: String = o.case.rendered.iter().map(|r| r.text.as_str()).collect::<Vec<_>>().join("\u{1}");
            st.nontrivial(digest(all.as_bytes()), || sample_json(&o));
        }
        Ok(())
    }
    fn witness(&self, _ctx: &Ctx, f: &crate::findings::Finding) -> Result<bool, Fail> {
        super::ppcommon::pp_witness(f)
    }
    fn health(&self, _ctx: &Ctx, st: &Stats) -> Result<(), String> {
        for c in ["has conditional", "has nested conditional", "elsif taken after failed condition", "has dead items"] {
            let n = st.classes.get(c).copied().unwrap_or(0);
            if n * 50 < st.evaluations {
                return Err(format!("class '{}' occurs in {} of {} cases (< 2 %)", c, n, st.evaluations));
            }
        }
        Ok(())
    }
}
