//! C10 — `include splices the named file with defines flowing in and out.

use super::ppcommon::{compare_with_model, gen_case, sample_json};
use crate::engine::{digest, Campaign, Ctx, Fail, Kind, Prop, Stats};
use crate::lexer;
use crate::ppm::gen::PpCfg;
use crate::ppm::model::Flags;
use crate::ppm::run;
use crate::sv::{self, clip, Error};
use crate::tape::Tape;
use serde_json::{json, Value};
use std::path::{Path, PathBuf};

pub struct C10;

fn toks(s: &str) -> Vec<String> {
    lexer::code_tokens(s).unwrap_or_else(|_| vec!["<lex error>".to_string()])
}

/// Run `svcheck worker pp <file>` in a child whose working directory is `cwd`.
pub fn run_in_cwd(cwd: &Path, spec: &Value, scratch: &Path) -> Result<Value, String> {
    let exe = std::env::current_exe().map_err(|e| e.to_string())?;
    let spec_path = scratch.join("worker_spec.json");
    std::fs::write(&spec_path, serde_json::to_string(spec).unwrap()).map_err(|e| e.to_string())?;
    let out = std::process::Command::new(exe).arg("worker").arg("pp").arg(&spec_path).current_dir(cwd).output().map_err(|e| e.to_string())?;
    if !out.status.success() {
        return Err(format!("worker exited with {:?}: {}", out.status, String::from_utf8_lossy(&out.stderr)));
    }
    serde_json::from_slice(&out.stdout).map_err(|e| format!("worker output: {} ({})", e, String::from_utf8_lossy(&out.stdout)))
}

/// The worker side: preprocess as described by the spec file, print a JSON result.
pub fn worker_pp(spec_path: &str) -> i32 {
    let spec: Value = match std::fs::read_to_string(spec_path).ok().and_then(|s| serde_json::from_str(&s).ok()) {
        Some(v) => v,
        None => return 2,
    };
    // {"fd_threads": n, "fd_depth": d, "dir": …}: n threads preprocess a legal include chain of depth d at the same time
    // (released by a barrier, 5 rounds); prints how many calls failed although the same call succeeds alone
    if let Some(n) = spec["fd_threads"].as_u64() {
        let depth = spec["fd_depth"].as_u64().unwrap_or(15) as usize;
        let dir = PathBuf::from(spec["dir"].as_str().unwrap_or("."));
        for i in 0..depth {
            let body = if i + 1 < depth { format!("t{}\n`include \"c{}.svh\"\n", i, i + 1) } else { "leaf\n".to_string() };
            let _ = std::fs::write(dir.join(format!("c{}.svh", i)), body);
        }
        let _ = std::fs::write(dir.join("top.sv"), "a\n`include \"c0.svh\"\nb\n");
        let top = dir.join("top.sv");
        let incs = vec![dir.clone()];
        let alone = sv::preprocess(&top, &sv::Defs::new(), &incs, false, false).map(|(t, _)| t.text().to_string()).map_err(|e| sv::err_kind(&e));
        let mut failures = 0usize;
        let mut first = String::new();
        for _round in 0..5 {
            let barrier = std::sync::Arc::new(std::sync::Barrier::new(n as usize));
            let results: Vec<Result<String, String>> = std::thread::scope(|sc| {
                let hs: Vec<_> = (0..n)
                    .map(|_| {
                        let b = barrier.clone();
                        let (top, incs) = (top.clone(), incs.clone());
                        sc.spawn(move || {
                            b.wait();
                            sv::preprocess(&top, &sv::Defs::new(), &incs, false, false).map(|(t, _)| t.text().to_string()).map_err(|e| sv::err_kind(&e))
                        })
                    })
                    .collect();
                hs.into_iter().map(|h| h.join().unwrap_or_else(|_| Err("panic".to_string()))).collect()
            });
            for r in results {
                if r != alone {
                    failures += 1;
                    if first.is_empty() {
                        first = format!("{:?}", r).chars().take(200).collect();
                    }
                }
            }
        }
        println!("{}", json!({"ok": true, "alone_ok": alone.is_ok(), "concurrent_differences": failures, "first": first}));
        return 0;
    }
    // {"parse_text": …}: strict parse_sv_str on this (main) thread, with whatever stack the process was given
    if let Some(t) = spec["parse_text"].as_str() {
        let v = match sv::parse_text(sv::Grammar::Sv, t, false) {
            Ok(_) => json!({"ok": true}),
            Err(e) => json!({"ok": false, "error": sv::err_kind(&e)}),
        };
        println!("{}", v);
        return 0;
    }
    let top_path = spec["top_path"].as_str().unwrap_or("top.sv");
    let incs: Vec<PathBuf> = spec["include_paths"].as_array().map(|a| a.iter().filter_map(|x| x.as_str().map(PathBuf::from)).collect()).unwrap_or_default();
    let ignore = spec["ignore_include"].as_bool().unwrap_or(false);
    let r = match spec["top_text"].as_str() {
        Some(t) => sv::pp(t, Path::new(top_path), &Default::default(), &incs, ignore, false),
        None => sv::preprocess(Path::new(top_path), &sv::Defs::new(), &incs, false, ignore),
    };
    let v = match r {
        Ok((t, _)) => json!({"ok": true, "text": t.text()}),
        Err(e) => json!({"ok": false, "error": sv::err_kind(&e)}),
    };
    println!("{}", v);
    0
}

impl Prop for C10 {
    fn id(&self) -> &'static str {
        "C10"
    }
    fn rule(&self) -> String {
        "cases: (graph) generated include graphs (depth <= 3, files also present as decoys with other content in later include directories, random order of <= 3 \
         include paths, \"f\" / <f> / macro-named, sub-directory names, defines crossing the boundary both ways, one optional missing file) vs. the reference model: \
         tokens, define table, Include{File{name as written}} wrappers; (ignore) the same trees with ignore_include and the include files NOT written to disk: no \
         tokens from literal includes and no error; (sameline) `include sharing its line with a token / string / directive / usage before or after it must \
         yield IncludeLine, with only blanks or comments it must not; (cwd) child processes with their own working directory: a relative name that exists \
         relative to the cwd wins over every include path, otherwise the first include path containing it, absolute names are used as given, a file found \
         nowhere yields Include{File{name}}. Non-trivial: file present in >= 2 candidate locations or defines crossing the boundary in both directions; distinct by digest."
            .into()
    }
    fn assumptions(&self) -> Vec<String> {
        vec![
            "relative include names never exist relative to the harness's own working directory except in the cwd campaign (which runs in child processes)".into(),
            "`include `MACRO is not generated under ignore_include (the property speaks of literally named files)".into(),
        ]
    }
    fn campaigns(&self, _ctx: &Ctx) -> Vec<Campaign> {
        vec![
            Campaign { name: "graph", kind: Kind::Random { quick: 12000, thorough: 150000 }, tape_len: 700 },
            Campaign { name: "ignore", kind: Kind::Random { quick: 4000, thorough: 40000 }, tape_len: 500 },
            Campaign { name: "sameline", kind: Kind::Random { quick: 3000, thorough: 30000 }, tape_len: 40 },
            Campaign { name: "cwd", kind: Kind::Random { quick: 400, thorough: 4000 }, tape_len: 40 },
        ]
    }
    fn run(&self, ctx: &Ctx, campaign: &str, t: &mut Tape, st: &mut Stats) -> Result<(), Fail> {
        st.eval();
        match campaign {
            "graph" => {
                let mut cfg = PpCfg::full();
                cfg.faults = t.chance(1, 6);
                cfg.position = t.chance(1, 3);
                cfg.max_items = 6;
                cfg.include_via_body = true;
                cfg.file_no_final_newline = true;
                let case = gen_case(ctx, t, &cfg)?;
                let o = compare_with_model(ctx, "C10", case, st)?;
                let ms = &o.model.stats;
                if ms.includes_entered > 0 {
                    st.class("has include");
                }
                if ms.max_include_depth >= 2 {
                    st.class("nested include");
                }
                let decoys = o.case.files.iter().filter(|f| f.items.len() == 1 && crate::ppm::ast::render_file(f).text.starts_with("decoy")).count();
                if decoys > 0 {
                    st.class("file present in several include directories");
                }
                if o.case.rendered[0].text.contains("`include `") {
                    st.class("macro-named include");
                }
                if o.case.rendered[0].text.contains("`include <") {
                    st.class("angle-bracket include");
                }
                if o.case.reincludes > 0 {
                    st.class("same file included twice");
                }
                if matches!(o.case.fault, Some(crate::ppm::gen::Fault::MissingInclude(_))) {
                    st.class("missing include file");
                }
                // defines crossing: a macro defined in an include and used in the top file or vice versa
                let inc_defines = o.case.rendered.iter().skip(1).any(|r| r.text.contains("`define"));
                if ms.includes_entered > 0 && (decoys > 0 || (inc_defines && o.case.rendered[0].text.contains("`define"))) {
                    let all: String = o.case.rendered.iter().map(|r| r.text.as_str()).collect::<Vec<_>>().join("\u{1}");
                    st.nontrivial(digest(all.as_bytes()), || sample_json(&o));
                }
            }
            "ignore" => {
                let mut cfg = PpCfg::full();
                cfg.max_items = 6;
                cfg.include_via_body = true;
                // the generator tracks liveness as if includes were read; with ignore_include a chain may reach an
                // `elsif it assumed dead, so predefined names (known finding K2) are kept out of conditions here
                cfg.position = false;
                let case = gen_case(ctx, t, &cfg)?;
                if case.rendered[0].text.contains("`include `") {
                    st.skip("macro-named include under ignore_include");
                    return Ok(());
                }
                // remove the include files: nothing may be read
                for f in case.files.iter().skip(1) {
                    let _ = std::fs::remove_file(&f.path);
                }
                let m = run::run_model(&case, Flags { ignore_include: true, ..Flags::default() });
                let a = run::run_actual(&case, false, true);
                let has_inc = case.rendered[0].text.contains("`include");
                match (&a, &m.err) {
                    (Ok((tx, _)), None) => {
                        if let Err(msg) = run::compare_tokens(&m.out, tx.text()) {
                            // the model does not know which later usages lose their definitions; only judge include-related differences
                            if ctx.findings.is_known("C10", "K6") && m.stats.bodyless_with_parens > 0 {
                                st.known("K6");
                            } else {
                                return Err(Fail::new(format!("ignore_include: {}", msg), json!({"case": run::case_json(&case), "actual": clip(tx.text(), 2000), "expected": clip(&m.out, 2000)})));
                            }
                        }
                    }
                    (Err(e), Some(x)) => {
                        if !run::error_matches(x, e) {
                            return Err(Fail::new(format!("ignore_include: expected {:?}, got {}", x, sv::err_kind(e)), json!({"case": run::case_json(&case)})));
                        }
                    }
                    (Ok(_), Some(x)) => return Err(Fail::new(format!("ignore_include: expected {:?} but succeeded", x), json!({"case": run::case_json(&case)}))),
                    (Err(e), None) => {
                        return Err(Fail::new(format!("ignore_include: unexpected {}", sv::err_kind(e)), json!({"case": run::case_json(&case)})));
                    }
                }
                if has_inc {
                    st.class("ignored include present");
                    st.nontrivial(digest(case.rendered[0].text.as_bytes()), || json!({"campaign": "ignore", "top": clip(&case.rendered[0].text, 400)}));
                }
            }
            "sameline" => sameline_case(ctx, t, st)?,
            "cwd" => cwd_case(ctx, t, st)?,
            _ => {}
        }
        Ok(())
    }
    fn witness(&self, _ctx: &Ctx, f: &crate::findings::Finding) -> Result<bool, Fail> {
        if f.witness["kind"].as_str() == Some("include_line") {
            return sameline_witness(f);
        }
        super::ppcommon::pp_witness(f)
    }
}

fn write_inc(dir: &str, name: &str, text: &str) -> Result<(), Fail> {
    let p = Path::new(dir).join(name);
    if let Some(parent) = p.parent() {
        let _ = std::fs::create_dir_all(parent);
    }
    std::fs::write(&p, text).map_err(|e| Fail::new(format!("harness: {}", e), json!({"infrastructure": true})))
}

/// One line that holds an `include plus something else (or only trivia).
fn sameline_case(ctx: &Ctx, t: &mut Tape, st: &mut Stats) -> Result<(), Fail> {
    let dir = format!("{}/sameline", run::thread_dir(&ctx.scratch));
    let _ = std::fs::create_dir_all(&dir);
    write_inc(&dir, "zinc.svh", "tinc\n")?;
    // what shares the line: (text, is_trivia)
    let before_opts: &[(&str, bool)] = &[
        ("", true),
        ("  ", true),
        ("/* c */ ", true),
        ("tb ", false),
        ("\"s\" ", false),
        ("; ", false),
        ("`celldefine ", false),
        ("`define Q 1 \\\n ", true), // the define ends with a continuation: its last line is still the directive
        ("`ZM ", false),
        ("42 ", false),
        ("\\esc ", false),
        // a string literal continued over a line break whose closing quote is on the include's line (seed C10e),
        // a block comment that ends on the include's line, an escaped identifier
        ("\"s\\\nt\" ", false),
        ("/* m\nc */ ", true),
        ("x = \"p\\\nq\\\nr\"; ", false),
    ];
    let after_opts: &[(&str, bool)] = &[("", true), ("  ", true), (" // c", true), (" /* c */", true), (" ta", false), (" ;", false), (" \"s\"", false), (" `ZM", false), (" `celldefine", false)];
    let (b, b_triv) = *t.pick(before_opts);
    let (a, a_triv) = *t.pick(after_opts);
    // the preceding lines: multi-line text run whose last line is the include's line (finding F6 concerns this)
    let lead = *t.pick(&["", "lead1\n", "lead1\nlead2\n", "\"str\nmulti\"\n", "/* multi\nline */\n"]);
    if b.starts_with("`define") {
        // keep this unusual case out of the expectation: a `define with continuation swallows the include line
        st.skip("define-with-continuation before include (the include is part of the macro text)");
        return Ok(());
    }
    let style = *t.pick(&["\"zinc.svh\"", "<zinc.svh>"]);
    let src = format!("`define ZM zm\n{}{}`include {}{}\nlast\n", lead, b, style, a);
    let expect_line_error = !(b_triv && a_triv);
    let incs = vec![PathBuf::from(&dir)];
    let r = sv::pp(&src, Path::new("top.sv"), &Default::default(), &incs, false, false);
    let got_line_error = matches!(&r, Err(Error::IncludeLine));
    let detail = json!({"source": src, "result": match &r { Ok((tx, _)) => json!({"ok": tx.text()}), Err(e) => json!({"err": sv::err_kind(e)}) }});
    if expect_line_error && !got_line_error {
        // known finding F6: text before the directive on the same line is missed when the text run started on an earlier line,
        // and a string literal before / after it is never counted
        if ctx.findings.is_known("C10", "F6") && sameline_f6_signature(lead, b, a) && r.is_ok() {
            st.known("F6");
            return Ok(());
        }
        return Err(Fail::new("`include shares its line with something other than white space or a comment but IncludeLine was not reported", detail));
    }
    if !expect_line_error {
        match &r {
            Ok((tx, _)) => {
                let tk = toks(tx.text());
                if !tk.contains(&"tinc".to_string()) {
                    return Err(Fail::new("`include on its own line (trivia only) did not splice the file", detail));
                }
            }
            Err(e) => return Err(Fail::new(format!("`include with only trivia on its line was rejected: {}", sv::err_kind(e)), detail)),
        }
    }
    st.class(if expect_line_error { "IncludeLine expected" } else { "trivia only" });
    st.nontrivial(digest(src.as_bytes()), || json!({"campaign": "sameline", "source": src}));
    Ok(())
}

/// Structural signature of listed finding F6 on the sameline templates.
fn sameline_f6_signature(lead: &str, before: &str, after: &str) -> bool {
    // (1) a string literal sharing the line is not counted at all
    let before_is_string = before.trim() == "\"s\"" ;
    let after_is_string = after.trim() == "\"s\"";
    // (2) plain text before the directive is compared by the line on which its text run *starts*
    let plain_before = matches!(before.trim(), "tb" | ";" | "42" | "\\esc");
    let run_started_earlier = lead.starts_with("lead");
    let after_trivia = matches!(after, "" | "  " | " // c" | " /* c */");
    let before_trivia = matches!(before, "" | "  " | "/* c */ ");
    (before_is_string && (after_trivia || after_is_string))
        || (after_is_string && before_trivia)
        || (plain_before && run_started_earlier && (after_trivia || after_is_string))
}

fn sameline_witness(f: &crate::findings::Finding) -> Result<bool, Fail> {
    let src = f.witness["source"].as_str().unwrap_or("");
    let dir = std::env::temp_dir().join(format!("svverif-w-{}", std::process::id()));
    let _ = std::fs::create_dir_all(&dir);
    let _ = std::fs::write(dir.join("zinc.svh"), "tinc\n");
    let r = sv::pp(src, Path::new("top.sv"), &Default::default(), &[dir.clone()], false, false);
    let _ = std::fs::remove_dir_all(&dir);
    match r {
        Ok(_) => Ok(true),
        Err(Error::IncludeLine) => Ok(false),
        Err(e) => Err(Fail::new(format!("witness of {} fails differently: {}", f.id, sv::err_kind(&e)), json!({"source": src}))),
    }
}

/// Search-order rule in a child process with its own working directory.
fn cwd_case(ctx: &Ctx, t: &mut Tape, st: &mut Stats) -> Result<(), Fail> {
    let base = format!("{}/cwdcase", run::thread_dir(&ctx.scratch));
    let _ = std::fs::remove_dir_all(&base);
    let cwd = format!("{}/work", base);
    let dirs = [format!("{}/i0", base), format!("{}/i1", base), format!("{}/i2", base)];
    std::fs::create_dir_all(&cwd).map_err(|e| Fail::new(format!("harness: {}", e), json!({"infrastructure": true})))?;
    for d in &dirs {
        let _ = std::fs::create_dir_all(d);
    }
    // include path order
    let mut order: Vec<usize> = vec![0, 1, 2];
    for i in (1..3).rev() {
        let j = t.below(i + 1);
        order.swap(i, j);
    }
    let npaths = t.below(4);
    let order = &order[..npaths];
    let name = *t.pick(&["rel.svh", "sub/rel.svh"]);
    let in_cwd = t.flip();
    let mut present = [false; 3];
    for p in present.iter_mut() {
        *p = t.flip();
    }
    if in_cwd {
        write_inc(&cwd, name, "tok_cwd\n")?;
    }
    for i in 0..3 {
        if present[i] {
            write_inc(&dirs[i], name, &format!("tok_i{}\n", i))?;
        }
    }
    let absolute = t.chance(1, 4);
    let abs_target = format!("{}/i2/abs_only.svh", base);
    if absolute {
        write_inc(&dirs[2], "abs_only.svh", "tok_abs\n")?;
    }
    let written = if absolute { abs_target.clone() } else { name.to_string() };
    let style_q = t.flip();
    let top = if style_q { format!("t_before\n`include \"{}\"\nt_after\n", written) } else { format!("t_before\n`include <{}>\nt_after\n", written) };
    // expectation by the stated rule
    let expected: Result<String, String> = if absolute {
        Ok("tok_abs".to_string())
    } else if in_cwd {
        Ok("tok_cwd".to_string())
    } else {
        match order.iter().find(|i| present[**i]) {
            Some(i) => Ok(format!("tok_i{}", i)),
            None => Err(format!("Include[File({})]", written)),
        }
    };
    let spec = json!({
        "top_path": format!("{}/top_elsewhere.sv", base),
        "top_text": top,
        "include_paths": order.iter().map(|i| dirs[*i].clone()).collect::<Vec<_>>(),
        "ignore_include": false,
    });
    let res = run_in_cwd(Path::new(&cwd), &spec, Path::new(&base)).map_err(|e| Fail::new(format!("harness: worker failed: {}", e), json!({"infrastructure": true})))?;
    let detail = json!({"cwd_has_file": in_cwd, "present_in_dirs": present, "include_path_order": order, "written": written, "top": top, "result": res, "expected": format!("{:?}", expected)});
    match &expected {
        Ok(tok) => {
            let text = res["text"].as_str().unwrap_or("");
            let tk = toks(text);
            let want = vec!["t_before".to_string(), tok.clone(), "t_after".to_string()];
            if res["ok"].as_bool() != Some(true) || tk != want {
                return Err(Fail::new(format!("include search order: expected tokens {:?}", want), detail));
            }
        }
        Err(e) => {
            if res["ok"].as_bool() != Some(false) || res["error"].as_str() != Some(e.as_str()) {
                return Err(Fail::new(format!("include of a file found nowhere: expected {}", e), detail));
            }
        }
    }
    let candidates = present.iter().filter(|x| **x).count() + if in_cwd { 1 } else { 0 };
    st.class(if absolute { "absolute name" } else if in_cwd { "found relative to cwd" } else if expected.is_ok() { "found via include path" } else { "found nowhere" });
    if candidates >= 2 || absolute {
        st.nontrivial(digest(format!("{:?}{:?}{}{}{}", present, order, in_cwd, absolute, name).as_bytes()), || detail.clone());
    }
    Ok(())
}
