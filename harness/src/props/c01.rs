//! C01 — the concrete syntax tree is lossless: leaves tile the preprocessed text.

use crate::engine::{digest, Campaign, Ctx, Fail, Kind, Prop, Stats};
use crate::gen::layout::{self, Feats, TriviaCfg};
use crate::gen::{libgen, mutate, svgen};
use crate::sv::{self, check_tiling, clip, Grammar};
use crate::tape::Tape;
use serde_json::json;

pub struct C01;

/// Run the tiling oracle on `src` in the given grammar and mode; Ok(None) when the input is rejected.
pub fn tile_one(
    g: Grammar,
    src: &str,
    incomplete: bool,
    st: &mut Stats,
    origin: &str,
) -> Result<Option<sv::TileReport>, Fail> {
    let (ppt, defs) = match sv::pp_plain(src) {
        Ok(x) => x,
        Err(_) => {
            st.class("rejected by preprocessor");
            return Ok(None);
        }
    };
    let text = ppt.text().to_string();
    let tree = match sv::parse_pp(g, ppt, defs, incomplete) {
        Ok((t, _)) => t,
        Err(e) => {
            if incomplete {
                if let sv::Error::Parse(_) = e {
                    // C15's business, but a tree is required here to say anything
                    st.class("incomplete mode returned Parse error");
                }
            }
            st.class("rejected by parser");
            return Ok(None);
        }
    };
    match check_tiling(&tree, &text, !incomplete, 3000) {
        Ok(rep) => {
            st.class(if incomplete { "accepted (incomplete mode)" } else { "accepted (strict mode)" });
            st.count("leaves checked", rep.leaves as u64);
            st.count("nodes visited", rep.nodes as u64);
            st.count("per-node get_str comparisons", rep.node_checks as u64);
            let has_multibyte = !text.is_ascii();
            let has_cr = text.contains('\r');
            if has_multibyte {
                st.class("text has multi-byte characters");
            }
            if has_cr {
                st.class("text has CR");
            }
            if rep.comment_nodes > 0 {
                st.class("tree has comments");
            }
            if rep.directive_nodes > 0 {
                st.class("tree has kept compiler directives");
            }
            if incomplete && rep.covered < text.len() {
                st.class("incomplete mode covered a proper prefix");
            }
            if rep.leaves >= 20 && (rep.comment_nodes > 0 || rep.directive_nodes > 0 || has_multibyte || has_cr) {
                let d = digest(format!("{:?}{}", g, text).as_bytes());
                st.nontrivial(d, || {
                    json!({"from": origin, "grammar": format!("{:?}", g), "incomplete": incomplete,
                           "leaves": rep.leaves, "nodes": rep.nodes, "text": clip(&text, 400)})
                });
            }
            Ok(Some(rep))
        }
        Err((msg, detail)) => Err(Fail::new(
            format!("tiling violated ({:?}, incomplete={}): {}", g, incomplete, msg),
            json!({"from": origin, "source": src, "preprocessed": text, "grammar": format!("{:?}", g),
                   "incomplete": incomplete, "detail": detail}),
        )),
    }
}

fn both_modes(g: Grammar, src: &str, st: &mut Stats, origin: &str) -> Result<bool, Fail> {
    let a = tile_one(g, src, false, st, origin)?;
    tile_one(g, src, true, st, origin)?;
    Ok(a.is_some())
}

impl Prop for C01 {
    fn id(&self) -> &'static str {
        "C01"
    }
    fn rule(&self) -> String {
        "cases: (corpus) every file of the static corpus; (relayout) corpus files with inter-token whitespace runs replaced by generated trivia \
         (blanks, CR/LF/CRLF, comments with quotes/backticks/non-ASCII, neutral compiler directives); (svgen) programs of the Annex A reference \
         generator under random layout; (mutants) token-level mutants of corpus/svgen programs; (lib/libgen) library map files; each in strict \
         and incomplete mode. Oracle: tiling checker (no gap/overlap, non-empty leaves on char boundaries, line numbers, concat(get_str leaves) == text, \
         get_str(node) == slice spanned by the node's leaves for all/sampled nodes). A case is non-trivial when the input was accepted, the tree has >= 20 \
         leaves and the text contains a comment, a kept directive, a multi-byte character or a CR; distinct by digest of (grammar, preprocessed text)."
            .into()
    }
    fn assumptions(&self) -> Vec<String> {
        vec![
            "the preprocessed text is obtained from preprocess_str by the harness and handed to parse_sv_pp/parse_lib_pp, which C20 shows equals the one-step entry points".into(),
            "per-node get_str is compared for all nodes of trees with <= 3000 nodes and for a fixed-stride sample of larger trees".into(),
        ]
    }
    fn campaigns(&self, ctx: &Ctx) -> Vec<Campaign> {
        vec![
            Campaign { name: "corpus", kind: Kind::Enumerated { count: ctx.corpus.sv.len() }, tape_len: 1 },
            Campaign { name: "lib", kind: Kind::Enumerated { count: ctx.corpus.lib.len() }, tape_len: 1 },
            Campaign { name: "svgen", kind: Kind::Random { quick: 3000, thorough: 30000 }, tape_len: 1500 },
            Campaign { name: "relayout", kind: Kind::Random { quick: 2500, thorough: 25000 }, tape_len: 400 },
            Campaign { name: "mutants", kind: Kind::Random { quick: 2500, thorough: 25000 }, tape_len: 64 },
            Campaign { name: "libgen", kind: Kind::Random { quick: 1000, thorough: 10000 }, tape_len: 200 },
        ]
    }
    fn run(&self, ctx: &Ctx, campaign: &str, t: &mut Tape, st: &mut Stats) -> Result<(), Fail> {
        st.eval();
        match campaign {
            "corpus" => {
                let f = &ctx.corpus.sv[t.raw() as usize % ctx.corpus.sv.len()];
                both_modes(Grammar::Sv, &f.text, st, &f.name)?;
            }
            "lib" => {
                let f = &ctx.corpus.lib[t.raw() as usize % ctx.corpus.lib.len()];
                both_modes(Grammar::Lib, &f.text, st, &f.name)?;
            }
            "svgen" => {
                let p = svgen::generate_mixed(t, &svgen::Cfg::default());
                let mut feats = Feats::default();
                let text = p.render(t, &TriviaCfg::full(), &mut feats);
                let ok = both_modes(Grammar::Sv, &text, st, "svgen")?;
                if !ok {
                    st.class("svgen program rejected (C02's business)");
                }
            }
            "relayout" => {
                let f = t.pick(&ctx.corpus.sv);
                let (tree, text) = match sv::parse_text(Grammar::Sv, &f.text, false) {
                    Ok(x) => x,
                    Err(_) => {
                        st.skip("corpus file not accepted");
                        return Ok(());
                    }
                };
                if text != f.text {
                    st.skip("corpus file changed by preprocessing (macro usage), not re-laid-out");
                    return Ok(());
                }
                let runs = layout::ws_runs(&tree);
                let mut feats = Feats::default();
                let mut cfg = TriviaCfg::full();
                cfg.define_directives = !f.text.contains('`');
                let (new, n) = layout::relayout(&text, &runs, t, &cfg, 1, 2, &mut feats);
                st.count("whitespace runs replaced", n as u64);
                let ok = both_modes(Grammar::Sv, &new, st, &f.name)?;
                if !ok {
                    // acceptance under re-layout is C12's claim; here only count it
                    st.class("re-laid-out corpus file rejected (C12's business)");
                }
            }
            "mutants" => {
                let f = t.pick(&ctx.corpus.sv);
                let m = mutate::mutate_text(&f.text, t);
                both_modes(Grammar::Sv, &m, st, &f.name)?;
            }
            "libgen" => {
                let text = libgen::generate(t);
                both_modes(Grammar::Lib, &text, st, "libgen")?;
            }
            _ => {}
        }
        Ok(())
    }
    fn health(&self, _ctx: &Ctx, st: &Stats) -> Result<(), String> {
        let acc = st.classes.get("accepted (strict mode)").copied().unwrap_or(0);
        if acc * 4 < st.evaluations {
            return Err(format!("only {} of {} cases accepted in strict mode", acc, st.evaluations));
        }
        Ok(())
    }
}
