//! C15 — incomplete mode never fails and agrees with strict mode.

use crate::engine::{digest, Campaign, Ctx, Fail, Kind, Prop, Stats};
use crate::gen::layout::{Feats, TriviaCfg};
use crate::gen::{libgen, mutate, svgen};
use crate::sv::{self, check_tiling, clip, first_diff, skeleton, Error, Grammar, RawTree};
use crate::tape::Tape;
use serde_json::json;

pub struct C15;

const JUNK: &[&str] = &[")", "]", "}", "\u{1}", "end", "endcase", "join", ") ) )", "end end", "§"];

use crate::sv::{k3_touches, raw_mode as raw};

/// `check_incomplete_inner`, with a failure re-judged against listed finding K3 (if `k3_listed`): the four parses a
/// case compares (incomplete and strict on the whole text, strict on the covered prefix, incomplete with junk appended)
/// run at the production memo capacity, where K3 lets evictions reject or cut short an input that the unbounded
/// table parses in full. A failure is attributed to K3 only if one of these parses shows exactly that.
pub fn check_incomplete(g: Grammar, src: &str, st: &mut Stats, from: &str, junk: &str, k3_listed: bool) -> Result<(), Fail> {
    match check_incomplete_inner(g, src, st, from, junk) {
        Ok(()) => Ok(()),
        Err(f) => {
            if k3_listed {
                if let Ok((ppt, _)) = sv::pp_plain(src) {
                    let text = ppt.text().to_string();
                    let covered = raw(g, &text, true).map(|x| x.1).unwrap_or(0).min(text.len());
                    let prefix = if text.is_char_boundary(covered) { text[..covered].to_string() } else { String::new() };
                    let appended = sv::pp_plain(&format!("{}\n{}", src, junk)).map(|(t, _)| t.text().to_string()).unwrap_or_default();
                    if k3_touches(g, &[(&text, true), (&text, false), (&prefix, false), (&appended, true)]) {
                        st.known("K3");
                        st.class("a parse of this case differs between the production memo capacity and the unbounded table (listed finding K3)");
                        return Ok(());
                    }
                }
            }
            Err(f)
        }
    }
}

fn check_incomplete_inner(g: Grammar, src: &str, st: &mut Stats, from: &str, junk: &str) -> Result<(), Fail> {
    let detail = |extra: serde_json::Value| json!({"from": from, "grammar": format!("{:?}", g), "source": src, "info": extra});
    let (ppt, defs) = match sv::pp_plain(src) {
        Ok(x) => x,
        Err(_) => {
            st.class("rejected by the preprocessor");
            return Ok(());
        }
    };
    let text = ppt.text().to_string();
    // 1. never Error::Parse
    let tree = match sv::parse_pp(g, ppt, defs, true) {
        Ok((t, _)) => t,
        Err(Error::Parse(p)) => return Err(Fail::new(format!("allow_incomplete returned Error::Parse({:?})", p), detail(json!({"preprocessed": text})))),
        Err(e) => return Err(Fail::new(format!("allow_incomplete returned {}", sv::err_kind(&e)), detail(json!({})))),
    };
    // 2. the tree tiles a prefix
    let rep = match check_tiling(&tree, &text, false, 1500) {
        Ok(r) => r,
        Err((m, d)) => return Err(Fail::new(format!("incomplete-mode tree does not tile a prefix: {}", m), detail(d))),
    };
    let covered = rep.covered;
    // 3. strict parse of exactly the covered prefix gives the same tree (raw parsers, same offsets)
    let inc_raw = raw(g, &text, true);
    let (inc_tree, inc_len) = match inc_raw {
        Some(x) => x,
        None => return Err(Fail::new("raw incomplete parser failed where parse_*_pp succeeded", detail(json!({})))),
    };
    if inc_len != covered {
        return Err(Fail::new(format!("raw incomplete parser consumed {} bytes, the tree covers {}", inc_len, covered), detail(json!({}))));
    }
    if !text.is_char_boundary(covered) {
        return Err(Fail::new("covered prefix ends inside a character", detail(json!({}))));
    }
    let prefix = &text[..covered];
    match raw(g, prefix, false) {
        Some((t, n)) => {
            if n != covered || t != inc_tree {
                return Err(Fail::new("strict parse of the covered prefix differs from the incomplete-mode tree", detail(json!({"prefix": prefix}))));
            }
        }
        None => {
            return Err(Fail::new(
                "the prefix covered by the incomplete-mode tree is not accepted in strict mode (not made of complete descriptions)",
                detail(json!({"prefix": prefix})),
            ))
        }
    }
    // 4. strict accepts the whole input => both modes return equal trees
    let strict = raw(g, &text, false);
    if let Some((t, _)) = &strict {
        if covered != text.len() || *t != inc_tree {
            return Err(Fail::new("strict mode accepts the input but the incomplete-mode tree differs", detail(json!({"covered": covered, "len": text.len()}))));
        }
        st.class("accepted in strict mode: trees equal");
        // 5. appending unparsable text leaves the tree unchanged, white space aside
        let appended = format!("{}\n{}", src, junk);
        match sv::parse_text(g, &appended, true) {
            Ok((t2, text2)) => {
                let a = skeleton(&tree, &text);
                let b = skeleton(&t2, &text2);
                if let Some((i, x, y)) = first_diff(&a, &b) {
                    return Err(Fail::new(
                        format!("appending unparsable text changed the tree at skeleton index {}: {:?} vs {:?}", i, x, y),
                        detail(json!({"appended": junk})),
                    ));
                }
                st.class("junk appended: tree unchanged");
            }
            Err(Error::Parse(p)) => return Err(Fail::new(format!("with junk appended allow_incomplete returned Error::Parse({:?})", p), detail(json!({"appended": junk})))),
            Err(_) => {
                // junk that the preprocessor rejects (e.g. nothing here does) is not this property's business
            }
        }
        if rep.leaves >= 10 {
            st.nontrivial(digest(format!("{:?}J{}{}", g, junk, text).as_bytes()), || json!({"from": from, "text": clip(&text, 300), "junk": junk}));
        }
    } else {
        st.class("rejected in strict mode");
        if covered > 0 && covered < text.len() {
            st.class("rejected in strict mode, >= 1 complete description kept");
            st.nontrivial(digest(format!("{:?}{}", g, text).as_bytes()), || json!({"from": from, "text": clip(&text, 300), "covered": covered}));
        }
    }
    Ok(())
}

impl Prop for C15 {
    fn id(&self) -> &'static str {
        "C15"
    }
    fn rule(&self) -> String {
        "cases: every corpus file, generated Annex A programs, token-level mutants and truncations of both, token soups, generated and mutated library maps; both grammars. \
         Oracle: with allow_incomplete the result is never Error::Parse; the tree tiles a prefix of the preprocessed text (tiling checker); the raw strict parser accepts exactly \
         that prefix and returns the identical tree; when strict mode accepts the whole input both modes return identical trees; appending a line of unparsable text (`)`, `]`, \
         `}`, 0x01, `end`, `endcase`, `join`, …) leaves the tree unchanged, white space aside. Non-trivial: rejected in strict mode with >= 1 complete description kept, or accepted \
         (>= 10 leaves) with junk appended; distinct by digest of (grammar, text, junk)."
            .into()
    }
    fn witness(&self, _ctx: &Ctx, f: &crate::findings::Finding) -> Result<bool, Fail> {
        // K3 is the only finding listed for C15; its general witness (a capacity at which acceptance changes) shows
        // whether the defect is still there
        super::c17::memo_witness(f)
    }
    fn assumptions(&self) -> Vec<String> {
        vec!["the appended junk starts on a new line and cannot continue the last description (closing brackets, closing keywords of constructs that are not open, bytes that start no token)".into()]
    }
    fn campaigns(&self, ctx: &Ctx) -> Vec<Campaign> {
        vec![
            Campaign { name: "corpus", kind: Kind::Enumerated { count: ctx.corpus.sv.len() }, tape_len: 1 },
            Campaign { name: "lib", kind: Kind::Enumerated { count: ctx.corpus.lib.len() }, tape_len: 1 },
            Campaign { name: "svgen", kind: Kind::Random { quick: 2500, thorough: 30000 }, tape_len: 900 },
            Campaign { name: "mutants", kind: Kind::Random { quick: 4000, thorough: 50000 }, tape_len: 900 },
            Campaign { name: "soup", kind: Kind::Random { quick: 6000, thorough: 80000 }, tape_len: 40 },
            Campaign { name: "libgen", kind: Kind::Random { quick: 2500, thorough: 25000 }, tape_len: 200 },
        ]
    }
    fn run(&self, ctx: &Ctx, campaign: &str, t: &mut Tape, st: &mut Stats) -> Result<(), Fail> {
        st.eval();
        let k3 = ctx.findings.is_known("C15", "K3");
        match campaign {
            "corpus" => {
                let i = t.raw() as usize % ctx.corpus.sv.len();
                let f = &ctx.corpus.sv[i];
                check_incomplete(Grammar::Sv, &f.text, st, &f.name, JUNK[i % JUNK.len()], k3)?;
            }
            "lib" => {
                let i = t.raw() as usize % ctx.corpus.lib.len();
                let f = &ctx.corpus.lib[i];
                check_incomplete(Grammar::Lib, &f.text, st, &f.name, JUNK[i % JUNK.len()], k3)?;
            }
            "svgen" => {
                let p = svgen::generate_mixed(t, &svgen::Cfg::default());
                let mut f = Feats::default();
                let text = p.render(t, &TriviaCfg::full(), &mut f);
                let j = t.pick_str(JUNK);
                check_incomplete(Grammar::Sv, &text, st, "svgen", j, k3)?;
            }
            "mutants" => {
                let base = if t.flip() {
                    t.pick(&ctx.corpus.sv).text.clone()
                } else {
                    let p = svgen::generate_mixed(t, &svgen::Cfg::default());
                    p.render_plain()
                };
                let m = mutate::mutate_text(&base, t);
                let j = t.pick_str(JUNK);
                check_incomplete(Grammar::Sv, &m, st, "mutant", j, k3)?;
            }
            "soup" => {
                let text = mutate::soup(t);
                let j = t.pick_str(JUNK);
                let g = if t.chance(1, 4) { Grammar::Lib } else { Grammar::Sv };
                check_incomplete(g, &text, st, "soup", j, k3)?;
            }
            _ => {
                let mut text = libgen::generate(t);
                if t.chance(1, 3) {
                    text = mutate::mutate_text(&text, t);
                }
                let j = t.pick_str(JUNK);
                check_incomplete(Grammar::Lib, &text, st, "libgen", j, k3)?;
            }
        }
        Ok(())
    }
}
