//! C19 — concurrent calls on different threads do not interfere.

use super::calls::{self, Entry, ENTRIES, INPUTS};
use crate::engine::{digest, Campaign, Ctx, Fail, Kind, Prop, Stats};
use crate::tape::Tape;
use serde_json::json;
use std::sync::{Arc, Barrier, Mutex};

pub struct C19;

/// (threads, include depth, open-file limit of the child)
const FD_CONFIGS: &[(u64, u64, u64)] = &[(24, 15, 256), (32, 30, 512), (16, 60, 512)];

impl Prop for C19 {
    fn id(&self) -> &'static str {
        "C19"
    }
    fn rule(&self) -> String {
        "cases: plans of 2-16 threads x 3-10 calls each (the entry points and the input pool of C07: preprocess / parse in both grammars and modes, raw parsers; accepted, rejected and \
         state-polluting inputs), on the same and on distinct inputs; all threads of a plan are released together by a barrier after a generated per-thread skew (0-3 busy rounds) and the plan \
         is repeated (quick 20x, thorough 60x). Oracle: every result of every thread equals the result of the same call made alone on a freshly spawned thread. Non-trivial: >= 4 threads, >= 2 \
         distinct inputs and >= 1 failing call; distinct by digest of the plan. Limit: the harness does not own the scheduler; this is stress exploration of interleavings, not enumeration."
            .into()
    }
    fn assumptions(&self) -> Vec<String> {
        vec![
            "the sequential reference is computed on fresh threads before the plan starts".into(),
            "interleavings are explored by repetition under load, not enumerated (the code under test is not instrumented for a controlled scheduler)".into(),
        ]
    }
    fn campaigns(&self, _ctx: &Ctx) -> Vec<Campaign> {
        vec![
            Campaign { name: "plans", kind: Kind::Random { quick: 240, thorough: 2400 }, tape_len: 400 },
            Campaign { name: "fd-pressure", kind: Kind::Enumerated { count: FD_CONFIGS.len() }, tape_len: 1 },
        ]
    }
    fn run(&self, ctx: &Ctx, campaign: &str, t: &mut Tape, st: &mut Stats) -> Result<(), Fail> {
        if campaign == "fd-pressure" {
            // concurrent calls over legal include chains in a child whose open-file limit is low: a call must not hold
            // one descriptor per nesting level (then it fails with EMFILE only when others run at the same time)
            st.eval();
            let (threads, depth, nofile) = FD_CONFIGS[t.raw() as usize % FD_CONFIGS.len()];
            let dir = ctx.scratch.join(format!("fd-{}-{}-{}", threads, depth, nofile));
            let _ = std::fs::remove_dir_all(&dir);
            std::fs::create_dir_all(&dir).map_err(|e| Fail::new(format!("harness: {}", e), json!({"infrastructure": true})))?;
            let spec = json!({"fd_threads": threads, "fd_depth": depth, "dir": dir.display().to_string()});
            let res = super::c09::run_child_with(&spec, &dir, 120, &format!("ulimit -n {}; ", nofile));
            let res = res.map_err(|e| Fail::new(format!("harness: {}", e), json!({"infrastructure": true})))?;
            let _ = std::fs::remove_dir_all(&dir);
            return match res {
                super::c09::ChildResult::Json(v) => {
                    if v["alone_ok"].as_bool() != Some(true) {
                        return Err(Fail::new(format!("harness: the include chain of depth {} fails alone under {} descriptors", depth, nofile), json!({"infrastructure": true})));
                    }
                    let n = v["concurrent_differences"].as_u64().unwrap_or(0);
                    if n > 0 {
                        return Err(Fail::new(
                            format!("{} of {} concurrent calls over a legal include chain of depth {} differ from the call run alone (open-file limit {}): {}", n, threads * 5, depth, nofile, v["first"]),
                            json!({"threads": threads, "depth": depth, "nofile": nofile}),
                        ));
                    }
                    st.class("concurrent include chains under a low open-file limit");
                    st.nontrivial(digest(format!("{}-{}-{}", threads, depth, nofile).as_bytes()), || json!({"campaign": campaign, "threads": threads, "depth": depth, "nofile": nofile}));
                    Ok(())
                }
                super::c09::ChildResult::Crashed(s) => Err(Fail::new(format!("the child running {} concurrent calls crashed ({})", threads, s), json!({}))),
                super::c09::ChildResult::TimedOut => Err(Fail::new("harness: fd-pressure child timed out", json!({"infrastructure": true}))),
            };
        }
        st.eval();
        let pool = calls::pool(&ctx.scratch);
        let nthreads = 2 + t.below(15);
        let same_input = t.chance(1, 4);
        let shared_in = t.below(INPUTS.len());
        let mut plan: Vec<(usize, Vec<(Entry, usize)>)> = Vec::new();
        for _ in 0..nthreads {
            let n = 3 + t.below(8);
            let skew = t.below(4);
            let mut calls_: Vec<(Entry, usize)> = Vec::new();
            for _ in 0..n {
                let inp = if same_input { shared_in } else { t.below(INPUTS.len()) };
                calls_.push((*t.pick(ENTRIES), inp));
            }
            plan.push((skew, calls_));
        }
        // sequential references first
        let mut refs: Vec<Vec<String>> = Vec::new();
        let mut failing = 0;
        let mut inputs: std::collections::BTreeSet<usize> = Default::default();
        for (_, cs) in &plan {
            let mut r = Vec::new();
            for (e, i) in cs {
                let x = calls::reference(pool, *e, *i);
                if x.starts_with("ERR") {
                    failing += 1;
                }
                inputs.insert(*i);
                r.push(x);
            }
            refs.push(r);
        }
        let repeats = if ctx.tier == crate::engine::Tier::Quick { 20 } else { 60 };
        let failure: Arc<Mutex<Option<String>>> = Arc::new(Mutex::new(None));
        for rep in 0..repeats {
            let barrier = Arc::new(Barrier::new(nthreads));
            std::thread::scope(|sc| {
                for (ti, (skew, cs)) in plan.iter().enumerate() {
                    let barrier = barrier.clone();
                    let failure = failure.clone();
                    let refs = &refs;
                    std::thread::Builder::new()
                        .stack_size(128 << 20)
                        .spawn_scoped(sc, move || {
                            let mut buf = String::with_capacity(1 << 14);
                            barrier.wait();
                            // skew: a few throw-away calls so the threads drift apart differently per plan
                            for _ in 0..*skew {
                                let _ = calls::exec(pool, Entry::PpStr, 0, &mut buf);
                            }
                            for (k, (e, i)) in cs.iter().enumerate() {
                                let got = calls::exec(pool, *e, *i, &mut buf);
                                if got != refs[ti][k] {
                                    let mut f = failure.lock().unwrap();
                                    if f.is_none() {
                                        *f = Some(format!(
                                            "repetition {}: thread {} call {} {:?}({}) differs from its result when run alone: {}",
                                            rep,
                                            ti,
                                            k,
                                            e,
                                            INPUTS[*i].0,
                                            calls::first_diff(&got, &refs[ti][k])
                                        ));
                                    }
                                    return;
                                }
                            }
                        })
                        .expect("spawn");
                }
            });
            if failure.lock().unwrap().is_some() {
                break;
            }
        }
        if let Some(msg) = failure.lock().unwrap().take() {
            let p: Vec<Vec<String>> = plan.iter().map(|(_, cs)| cs.iter().map(|(e, i)| format!("{:?}({})", e, INPUTS[*i].0)).collect()).collect();
            return Err(Fail::new(msg, json!({"plan": p, "threads": nthreads})));
        }
        st.count("concurrent calls compared", (plan.iter().map(|(_, c)| c.len()).sum::<usize>() * repeats) as u64);
        if same_input {
            st.class("all threads on the same input");
        }
        if nthreads >= 4 && inputs.len() >= 2 && failing >= 1 {
            let key = format!("{:?}", plan);
            st.nontrivial(digest(key.as_bytes()), || json!({"threads": nthreads, "calls_per_thread": plan.iter().map(|(_, c)| c.len()).collect::<Vec<_>>(), "distinct_inputs": inputs.len()}));
        }
        Ok(())
    }
}
