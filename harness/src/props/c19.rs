//! C19 — concurrent calls on different threads do not interfere.

use super::calls::{self, Entry, ENTRIES, INPUTS};
use crate::engine::{digest, Campaign, Ctx, Fail, Kind, Prop, Stats};
use crate::tape::Tape;
use serde_json::json;
use std::sync::{Arc, Barrier, Mutex};

pub struct C19;

impl Prop for C19 {
    fn id(&self) -> &'static str {
        "C19"
    }
    fn rule(&self) -> String {
        "cases: plans of 2-16 threads x 3-10 calls each (the entry points and the input pool of C07: preprocess / parse in both grammars and modes, raw parsers; accepted, rejected and \
         state-polluting inputs), on the same and on distinct inputs; all threads of a plan are released together by a barrier after a generated per-thread skew (0-3 busy rounds) and the plan \
         is repeated (quick 20x, thorough 60x). Oracle: every result of every thread equals the result of the same call made alone on a freshly spawned thread. Non-trivial: >= 4 threads, >= 2 \
         distinct inputs and >= 1 failing call; distinct by digest of the plan. Limit: the harness does not own the scheduler; this is stress exploration of interleavings, not enumeration."
            .into()
    }
    fn assumptions(&self) -> Vec<String> {
        vec![
            "the sequential reference is computed on fresh threads before the plan starts".into(),
            "interleavings are explored by repetition under load, not enumerated (the code under test is not instrumented for a controlled scheduler)".into(),
        ]
    }
    fn campaigns(&self, _ctx: &Ctx) -> Vec<Campaign> {
        vec![Campaign { name: "plans", kind: Kind::Random { quick: 240, thorough: 2400 }, tape_len: 400 }]
    }
    fn run(&self, ctx: &Ctx, _campaign: &str, t: &mut Tape, st: &mut Stats) -> Result<(), Fail> {
        st.eval();
        let pool = calls::pool(&ctx.scratch);
        let nthreads = 2 + t.below(15);
        let same_input = t.chance(1, 4);
        let shared_in = t.below(INPUTS.len());
        let mut plan: Vec<(usize, Vec<(Entry, usize)>)> = Vec::new();
        for _ in 0..nthreads {
            let n = 3 + t.below(8);
            let skew = t.below(4);
            let mut calls_: Vec<(Entry, usize)> = Vec::new();
            for _ in 0..n {
                let inp = if same_input { shared_in } else { t.below(INPUTS.len()) };
                calls_.push((*t.pick(ENTRIES), inp));
            }
            plan.push((skew, calls_));
        }
        // sequential references first
        let mut refs: Vec<Vec<String>> = Vec::new();
        let mut failing = 0;
        let mut inputs: std::collections::BTreeSet<usize> = Default::default();
        for (_, cs) in &plan {
            let mut r = Vec::new();
            for (e, i) in cs {
                let x = calls::reference(pool, *e, *i);
                if x.starts_with("ERR") {
                    failing += 1;
                }
                inputs.insert(*i);
                r.push(x);
            }
            refs.push(r);
        }
        let repeats = if ctx.tier == crate::engine::Tier::Quick { 20 } else { 60 };
        let failure: Arc<Mutex<Option<String>>> = Arc::new(Mutex::new(None));
        for rep in 0..repeats {
            let barrier = Arc::new(Barrier::new(nthreads));
            std::thread::scope(|sc| {
                for (ti, (skew, cs)) in plan.iter().enumerate() {
                    let barrier = barrier.clone();
                    let failure = failure.clone();
                    let refs = &refs;
                    std::thread::Builder::new()
                        .stack_size(128 << 20)
                        .spawn_scoped(sc, move || {
                            let mut buf = String::with_capacity(1 << 14);
                            barrier.wait();
                            // skew: a few throw-away calls so the threads drift apart differently per plan
                            for _ in 0..*skew {
                                let _ = calls::exec(pool, Entry::PpStr, 0, &mut buf);
                            }
                            for (k, (e, i)) in cs.iter().enumerate() {
                                let got = calls::exec(pool, *e, *i, &mut buf);
                                if got != refs[ti][k] {
                                    let mut f = failure.lock().unwrap();
                                    if f.is_none() {
                                        *f = Some(format!(
                                            "repetition {}: thread {} call {} {:?}({}) differs from its result when run alone: {}",
                                            rep,
                                            ti,
                                            k,
                                            e,
                                            INPUTS[*i].0,
                                            calls::first_diff(&got, &refs[ti][k])
                                        ));
                                    }
                                    return;
                                }
                            }
                        })
                        .expect("spawn");
                }
            });
            if failure.lock().unwrap().is_some() {
                break;
            }
        }
        if let Some(msg) = failure.lock().unwrap().take() {
            let p: Vec<Vec<String>> = plan.iter().map(|(_, cs)| cs.iter().map(|(e, i)| format!("{:?}({})", e, INPUTS[*i].0)).collect()).collect();
            return Err(Fail::new(msg, json!({"plan": p, "threads": nthreads})));
        }
        st.count("concurrent calls compared", (plan.iter().map(|(_, c)| c.len()).sum::<usize>() * repeats) as u64);
        if same_input {
            st.class("all threads on the same input");
        }
        if nthreads >= 4 && inputs.len() >= 2 && failing >= 1 {
            let key = format!("{:?}", plan);
            st.nontrivial(digest(key.as_bytes()), || json!({"threads": nthreads, "calls_per_thread": plan.iter().map(|(_, c)| c.len()).collect::<Vec<_>>(), "distinct_inputs": inputs.len()}));
        }
        Ok(())
    }
}
