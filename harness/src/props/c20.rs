//! C20 — file, string and two-step entry points agree.

use super::ppcommon::gen_case;
use crate::engine::{digest, Campaign, Ctx, Fail, Kind, Prop, Stats};
use crate::gen::layout::{Feats, TriviaCfg};
use crate::gen::{libgen, svgen};
use crate::ppm::gen::PpCfg;
use crate::ppm::run;
use crate::sv::{self, clip, Defs, Error, PreprocessedText, SyntaxTree};
use crate::tape::Tape;
use serde_json::json;
use std::path::{Path, PathBuf};

pub struct C20;

fn deep_shapes() -> Vec<super::c09::Shape> {
    use super::c09::*;
    let mut v = Vec::new();
    for d in [1usize, 15, 16, 63, 64, 65, 66, 70] {
        v.push(include_chain(d));
    }
    for d in [1usize, 63, 64, 65, 66] {
        v.push(macro_chain(d));
    }
    for n in [1usize, 2, 3] {
        v.push(include_cycle(n));
        v.push(mixed_cycle(n));
    }
    v.push(macro_cycle(1));
    v.push(mixed_chain(64, 64));
    v.push(mixed_chain(2, 65));
    v.push(interleaved_chain(32));
    v
}

fn defs_repr(d: &Defs) -> Vec<(String, String)> {
    let mut v: Vec<(String, String)> = d.iter().map(|(k, v)| (k.clone(), format!("{:?}", v))).collect();
    v.sort();
    v
}

fn pp_repr(r: &Result<(PreprocessedText, Defs), Error>) -> String {
    match r {
        Ok((t, d)) => {
            let mut s = format!("OK text={:?}\n", t.text());
            for i in 0..t.text().len() {
                s.push_str(&format!("{:?};", t.origin(i)));
            }
            s.push_str(&format!("\ndefs={:?}", defs_repr(d)));
            s
        }
        Err(e) => format!("ERR {:?}", e),
    }
}

fn tree_repr(r: &Result<(SyntaxTree, Defs), Error>) -> String {
    match r {
        Ok((t, d)) => {
            let mut s = format!("OK tree={:?}\n", t);
            // origins of all leaves
            for n in t {
                if let sv::RefNode::Locate(l) = n {
                    s.push_str(&format!("{:?};", t.get_origin(l)));
                }
            }
            s.push_str(&format!("\ndefs={:?}", defs_repr(d)));
            s
        }
        Err(e) => format!("ERR {:?}", e),
    }
}

fn first_diff(a: &str, b: &str) -> String {
    let n = a.bytes().zip(b.bytes()).position(|(x, y)| x != y).unwrap_or(a.len().min(b.len()));
    let lo = n.saturating_sub(60);
    let cut = |s: &str| {
        let mut l = lo;
        while !s.is_char_boundary(l) {
            l -= 1;
        }
        clip(&s[l..], 160)
    };
    format!("first difference at byte {}: {:?} vs {:?}", n, cut(a), cut(b))
}

/// Compare all entry points on a file that exists on disk.
fn compare_entry_points(
    lib: bool,
    path: &Path,
    defs: &Defs,
    incs: &[PathBuf],
    st: &mut Stats,
    detail: &dyn Fn() -> serde_json::Value,
) -> Result<bool, Fail> {
    let content = std::fs::read_to_string(path).map_err(|e| Fail::new(format!("harness: {}", e), json!({"infrastructure": true})))?;
    let mut any_ok = false;
    // preprocess(path, …) == preprocess_str(contents, path, …) for every flag combination
    for strip in [false, true] {
        for ign in [false, true] {
            let a = sv::preprocess(path, defs, incs, strip, ign);
            let b = sv::preprocess_str(&content, path, defs, incs, ign, strip, 0, 0);
            let (ra, rb) = (pp_repr(&a), pp_repr(&b));
            if ra != rb {
                return Err(Fail::new(
                    format!("preprocess(path, strip_comments={}, ignore_include={}) differs from preprocess_str(contents, …): {}", strip, ign, first_diff(&ra, &rb)),
                    detail(),
                ));
            }
            st.count("preprocess vs preprocess_str comparisons", 1);
        }
    }
    for ign in [false, true] {
        for inc in [false, true] {
            let (a, b, c) = if lib {
                let a = sv::parse_lib(path, defs, incs, ign, inc);
                let b = sv::parse_lib_str(&content, path, defs, incs, ign, inc);
                let c = sv::preprocess(path, defs, incs, false, ign).and_then(|(t, d)| sv::parse_lib_pp(t, d, inc));
                (a, b, c)
            } else {
                let a = sv::parse_sv(path, defs, incs, ign, inc);
                let b = sv::parse_sv_str(&content, path, defs, incs, ign, inc);
                let c = sv::preprocess(path, defs, incs, false, ign).and_then(|(t, d)| sv::parse_sv_pp(t, d, inc));
                (a, b, c)
            };
            // and the string two-step
            let d2 = sv::preprocess_str(&content, path, defs, incs, ign, false, 0, 0).and_then(|(t, d)| if lib { sv::parse_lib_pp(t, d, inc) } else { sv::parse_sv_pp(t, d, inc) });
            let (ra, rb, rc, rd) = (tree_repr(&a), tree_repr(&b), tree_repr(&c), tree_repr(&d2));
            let name = if lib { "parse_lib" } else { "parse_sv" };
            if ra != rb {
                return Err(Fail::new(format!("{}(path, ignore_include={}, allow_incomplete={}) differs from {}_str(contents, …): {}", name, ign, inc, name, first_diff(&ra, &rb)), detail()));
            }
            if ra != rc {
                return Err(Fail::new(format!("{}(path, ignore_include={}, allow_incomplete={}) differs from preprocess + {}_pp: {}", name, ign, inc, name, first_diff(&ra, &rc)), detail()));
            }
            if rb != rd {
                return Err(Fail::new(format!("{}_str(ignore_include={}, allow_incomplete={}) differs from preprocess_str + {}_pp: {}", name, ign, inc, name, first_diff(&rb, &rd)), detail()));
            }
            if a.is_ok() {
                any_ok = true;
            }
            st.count("parse entry-point comparisons", 3);
        }
    }
    Ok(any_ok)
}

impl Prop for C20 {
    fn id(&self) -> &'static str {
        "C20"
    }
    fn rule(&self) -> String {
        "cases: (pp) generated preprocessor file trees written to disk with caller defines and include paths; (sv) generated SystemVerilog programs whose top file holds a \
         comment, a macro and an `include of a second file; (lib) generated library maps with comments and an `include; (deep) include / macro chains and cycles around the recursion limit, file vs. string entry in child processes. For each: preprocess(path, d, i, strip, ign) vs \
         preprocess_str(read(path), path, d, i, ign, strip, 0, 0) for all four flag values; parse_sv / parse_lib (path) vs *_str(contents) vs preprocess + *_pp vs \
         preprocess_str + *_pp for all four (ignore_include, allow_incomplete) values. Compared: text, origin at every position, define table with origins, Debug of the tree, \
         get_origin of every leaf, Debug of the error. Non-trivial: the input has a comment and an `include (each boolean then changes the result on its own); distinct by digest."
            .into()
    }
    fn assumptions(&self) -> Vec<String> {
        vec!["results are compared through their Debug renderings (define tables sorted by name)".into()]
    }
    fn campaigns(&self, _ctx: &Ctx) -> Vec<Campaign> {
        vec![
            Campaign { name: "pp", kind: Kind::Random { quick: 4000, thorough: 50000 }, tape_len: 500 },
            Campaign { name: "sv", kind: Kind::Random { quick: 1200, thorough: 15000 }, tape_len: 600 },
            Campaign { name: "lib", kind: Kind::Random { quick: 1500, thorough: 15000 }, tape_len: 200 },
            Campaign { name: "deep", kind: Kind::Enumerated { count: deep_shapes().len() }, tape_len: 1 },
        ]
    }
    fn run(&self, ctx: &Ctx, campaign: &str, t: &mut Tape, st: &mut Stats) -> Result<(), Fail> {
        st.eval();
        match campaign {
            "deep" => {
                // include / macro nesting around the recursion limit: the file and the string entry point must agree
                // (run in child processes: a broken bound must not take the harness down)
                let shapes = deep_shapes();
                let shape = &shapes[t.raw() as usize % shapes.len()];
                let dir = format!("{}/c20deep", run::thread_dir(&ctx.scratch));
                let _ = std::fs::remove_dir_all(&dir);
                std::fs::create_dir_all(&dir).map_err(|e| Fail::new(format!("harness: {}", e), json!({"infrastructure": true})))?;
                for (name, text) in &shape.files {
                    std::fs::write(Path::new(&dir).join(name), text).map_err(|e| Fail::new(format!("harness: {}", e), json!({"infrastructure": true})))?;
                }
                let by_file = json!({"top_path": format!("{}/top.sv", dir), "include_paths": [dir], "ignore_include": false});
                let by_str = json!({"top_path": format!("{}/top.sv", dir), "top_text": shape.files[0].1, "include_paths": [dir], "ignore_include": false});
                let mut outs = Vec::new();
                for spec in [&by_file, &by_str] {
                    let r = super::c09::run_child(spec, Path::new(&dir), 60).map_err(|e| Fail::new(format!("harness: child: {}", e), json!({"infrastructure": true})))?;
                    outs.push(match r {
                        super::c09::ChildResult::Json(v) => v.to_string(),
                        super::c09::ChildResult::Crashed(s) => format!("crashed: {}", s),
                        super::c09::ChildResult::TimedOut => {
                            return Err(Fail::new(format!("harness: watchdog expired on {}", shape.name), json!({"infrastructure": true})));
                        }
                    });
                }
                if outs[0] != outs[1] {
                    return Err(Fail::new(
                        format!("{}: preprocess(path) and preprocess_str(contents, path) disagree: {} vs {}", shape.name, clip(&outs[0], 300), clip(&outs[1], 300)),
                        json!({"shape": shape.name, "top": clip(&shape.files[0].1, 300)}),
                    ));
                }
                st.class("nesting around the recursion limit: entry points agree");
                st.nontrivial(digest(shape.name.as_bytes()), || json!({"campaign": "deep", "shape": shape.name}));
            }
            "pp" => {
                let mut cfg = PpCfg::full();
                cfg.max_items = 6;
                cfg.faults = t.chance(1, 8);
                let case = gen_case(ctx, t, &cfg)?;
                let defs = run::caller_defs(&case.initial);
                let d = || run::case_json(&case);
                compare_entry_points(false, Path::new(&case.files[0].path), &defs, &run::include_paths(&case), st, &d)?;
                let top = &case.rendered[0].text;
                if top.contains("`include") && (top.contains("/*") || top.contains("//")) {
                    st.nontrivial(digest(top.as_bytes()), || json!({"campaign": "pp", "top": clip(top, 300)}));
                }
            }
            "sv" => {
                let dir = format!("{}/c20sv", run::thread_dir(&ctx.scratch));
                let _ = std::fs::create_dir_all(&dir);
                let p = svgen::generate(t, &svgen::Cfg { max_elements: 2, max_items: 5, adversarial_names: true });
                let q = svgen::generate(t, &svgen::Cfg { max_elements: 2, max_items: 4, adversarial_names: false });
                let mut f = Feats::default();
                let inc_text = p.render(t, &TriviaCfg::plain(), &mut f);
                let mut tail = q.render(t, &TriviaCfg::plain(), &mut f);
                if t.chance(1, 5) {
                    tail.push_str("\n) junk that does not parse\n");
                }
                std::fs::write(format!("{}/body.svh", dir), &inc_text).map_err(|e| Fail::new(format!("harness: {}", e), json!({"infrastructure": true})))?;
                let top = format!("// top comment\n`define W 8\n`include \"body.svh\"\nmodule zz_top; /* c */ wire [`W-1:0] w_q; endmodule\n{}", tail);
                let top_path = format!("{}/top.sv", dir);
                std::fs::write(&top_path, &top).map_err(|e| Fail::new(format!("harness: {}", e), json!({"infrastructure": true})))?;
                let mut defs = Defs::new();
                if t.flip() {
                    defs.insert("EXTRA".to_string(), None);
                }
                let d = || json!({"top": top, "include": inc_text});
                let ok = compare_entry_points(false, Path::new(&top_path), &defs, &[PathBuf::from(&dir)], st, &d)?;
                if ok {
                    st.class("accepted by the parser");
                }
                st.nontrivial(digest(format!("{}{}", inc_text, tail).as_bytes()), || json!({"campaign": "sv", "top": clip(&top, 300)}));
            }
            _ => {
                let dir = format!("{}/c20lib", run::thread_dir(&ctx.scratch));
                let _ = std::fs::create_dir_all(&dir);
                let a = libgen::generate(t);
                let b = libgen::generate(t);
                std::fs::write(format!("{}/more.map", dir), &b).map_err(|e| Fail::new(format!("harness: {}", e), json!({"infrastructure": true})))?;
                let top = format!("// map\n{}\n`include \"more.map\"\n/* end */\n", a);
                let top_path = format!("{}/lib.map", dir);
                std::fs::write(&top_path, &top).map_err(|e| Fail::new(format!("harness: {}", e), json!({"infrastructure": true})))?;
                let d = || json!({"top": top, "include": b});
                let ok = compare_entry_points(true, Path::new(&top_path), &Defs::new(), &[PathBuf::from(&dir)], st, &d)?;
                if ok {
                    st.class("accepted by the parser");
                }
                st.nontrivial(digest(top.as_bytes()), || json!({"campaign": "lib", "top": clip(&top, 300)}));
            }
        }
        Ok(())
    }
}
