//! Choice tape: every random decision of every generator is read from a `Vec<u32>` that
//! proptest generates and shrinks.  Reading past the end yields 0, and 0 always selects the
//! first / smallest / terminating alternative, so deleting or zeroing tape entries (which is
//! what proptest's shrinker does) yields structurally smaller cases.

pub struct Tape<'a> {
    data: &'a [u32],
    pos: usize,
}

impl<'a> Tape<'a> {
    pub fn new(data: &'a [u32]) -> Self {
        Tape { data, pos: 0 }
    }

    pub fn raw(&mut self) -> u32 {
        let v = self.data.get(self.pos).copied().unwrap_or(0);
        self.pos += 1;
        v
    }

    /// Uniform in 0..n (monotone in the raw value, so shrinking the raw value shrinks the choice).
    pub fn below(&mut self, n: usize) -> usize {
        let v = self.raw();
        if n <= 1 {
            return 0;
        }
        ((v as u64 * n as u64) >> 32) as usize
    }

    /// Inclusive range.
    pub fn range(&mut self, lo: usize, hi: usize) -> usize {
        debug_assert!(lo <= hi);
        lo + self.below(hi - lo + 1)
    }

    /// True with probability num/den; a zero entry yields false.
    pub fn chance(&mut self, num: usize, den: usize) -> bool {
        self.below(den) >= den - num.min(den)
    }

    pub fn flip(&mut self) -> bool {
        self.chance(1, 2)
    }

    pub fn pick<'b, T>(&mut self, xs: &'b [T]) -> &'b T {
        &xs[self.below(xs.len())]
    }

    pub fn pick_str<'s>(&mut self, xs: &[&'s str]) -> &'s str {
        xs[self.below(xs.len())]
    }

    /// Weighted choice: returns the index of the chosen weight.
    pub fn weighted(&mut self, weights: &[usize]) -> usize {
        let total: usize = weights.iter().sum();
        let mut x = self.below(total.max(1));
        for (i, w) in weights.iter().enumerate() {
            if x < *w {
                return i;
            }
            x -= *w;
        }
        0
    }

    pub fn exhausted(&self) -> bool {
        self.pos >= self.data.len()
    }

    pub fn consumed(&self) -> usize {
        self.pos
    }
}
