//! Small hand-written scanner for raw or preprocessed SystemVerilog text (DESIGN.md 4.2).
//! It is deliberately independent of the parser under test.

#[derive(Clone, Copy, PartialEq, Eq, Debug)]
pub enum Kind {
    Ident,
    EscIdent,
    Number,
    Str,
    LineComment,
    BlockComment,
    Backtick, // `name  (directive or macro usage word, or a lone backtick sequence such as `` or `")
    Punct,
}

#[derive(Clone, Debug, PartialEq, Eq)]
pub struct Tok<'a> {
    pub kind: Kind,
    pub text: &'a str,
    pub start: usize,
}

#[derive(Clone, Debug, PartialEq, Eq)]
pub enum LexError {
    UnterminatedString(usize),
    UnterminatedBlockComment(usize),
    LoneBackslash(usize),
}

fn is_id_start(c: u8) -> bool {
    c.is_ascii_alphabetic() || c == b'_'
}
fn is_id_char(c: u8) -> bool {
    c.is_ascii_alphanumeric() || c == b'_' || c == b'$'
}
fn is_ws(c: u8) -> bool {
    c == b' ' || c == b'\t' || c == b'\r' || c == b'\n' || c == 0x0c
}

/// Scan `s`; whitespace is skipped, comments are tokens.
pub fn lex(s: &str) -> Result<Vec<Tok<'_>>, LexError> {
    lex_opts(s, false)
}

/// `strict`: a backslash followed by white space or the end of the text is an error (it is how the
/// preprocessor grammar sees directive-free text); otherwise it is a punctuation token (line continuation
/// inside a kept `define).
pub fn lex_opts(s: &str, strict: bool) -> Result<Vec<Tok<'_>>, LexError> {
    let b = s.as_bytes();
    let mut out = Vec::new();
    let mut i = 0;
    while i < b.len() {
        let c = b[i];
        if is_ws(c) {
            i += 1;
            continue;
        }
        let start = i;
        if c == b'/' && i + 1 < b.len() && b[i + 1] == b'/' {
            while i < b.len() && b[i] != b'\n' {
                i += 1;
            }
            if i < b.len() {
                i += 1;
            }
            out.push(Tok { kind: Kind::LineComment, text: &s[start..i], start });
        } else if c == b'/' && i + 1 < b.len() && b[i + 1] == b'*' {
            i += 2;
            loop {
                if i + 1 >= b.len() {
                    return Err(LexError::UnterminatedBlockComment(start));
                }
                if b[i] == b'*' && b[i + 1] == b'/' {
                    i += 2;
                    break;
                }
                i += 1;
            }
            out.push(Tok { kind: Kind::BlockComment, text: &s[start..i], start });
        } else if c == b'"' {
            i += 1;
            loop {
                if i >= b.len() {
                    return Err(LexError::UnterminatedString(start));
                }
                if b[i] == b'\\' {
                    // backslash escapes exactly one character (possibly multi-byte)
                    i += 1;
                    if i >= b.len() {
                        return Err(LexError::UnterminatedString(start));
                    }
                    let ch = s[i..].chars().next().unwrap();
                    i += ch.len_utf8();
                } else if b[i] == b'"' {
                    i += 1;
                    break;
                } else {
                    i += 1;
                }
            }
            out.push(Tok { kind: Kind::Str, text: &s[start..i], start });
        } else if c == b'\\' {
            i += 1;
            let body = i;
            while i < b.len() && !is_ws(b[i]) {
                i += 1;
            }
            if i == body {
                if strict {
                    return Err(LexError::LoneBackslash(start));
                }
                out.push(Tok { kind: Kind::Punct, text: &s[start..i], start });
            } else {
                out.push(Tok { kind: Kind::EscIdent, text: &s[start..i], start });
            }
        } else if c == b'`' {
            i += 1;
            if i < b.len() && is_id_start(b[i]) {
                while i < b.len() && is_id_char(b[i]) {
                    i += 1;
                }
            }
            out.push(Tok { kind: Kind::Backtick, text: &s[start..i], start });
        } else if is_id_start(c) {
            while i < b.len() && is_id_char(b[i]) {
                i += 1;
            }
            out.push(Tok { kind: Kind::Ident, text: &s[start..i], start });
        } else if c.is_ascii_digit() {
            while i < b.len() && (b[i].is_ascii_alphanumeric() || b[i] == b'_') {
                i += 1;
            }
            out.push(Tok { kind: Kind::Number, text: &s[start..i], start });
        } else {
            let ch = s[i..].chars().next().unwrap();
            i += ch.len_utf8();
            out.push(Tok { kind: Kind::Punct, text: &s[start..i], start });
        }
    }
    Ok(out)
}

/// Token texts with comments dropped.
pub fn code_tokens(s: &str) -> Result<Vec<String>, LexError> {
    Ok(lex(s)?
        .into_iter()
        .filter(|t| t.kind != Kind::LineComment && t.kind != Kind::BlockComment)
        .map(|t| t.text.to_string())
        .collect())
}
