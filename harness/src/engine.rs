//! Engine: sharded proptest runners over choice tapes, statistics, evidence and replay files.

use crate::tape::Tape;
use proptest::test_runner::{Config, RngAlgorithm, TestCaseError, TestError, TestRng, TestRunner};
use serde_json::{json, Value};
use std::collections::{BTreeMap, HashSet};
use std::panic::{catch_unwind, AssertUnwindSafe};
use std::path::PathBuf;
use std::sync::atomic::{AtomicBool, AtomicU64, Ordering};
use std::sync::Mutex;
use std::time::Instant;

#[derive(Clone, Copy, PartialEq, Eq, Debug)]
pub enum Tier {
    Quick,
    Thorough,
}

impl Tier {
    pub fn name(&self) -> &'static str {
        match self {
            Tier::Quick => "quick",
            Tier::Thorough => "thorough",
        }
    }
}

pub struct Ctx {
    pub root: PathBuf,
    pub tier: Tier,
    pub seed: u64,
    pub threads: usize,
    pub corpus: crate::corpus::Corpus,
    pub findings: crate::findings::Findings,
    /// scratch directory owned by this process (removed at exit)
    pub scratch: PathBuf,
    /// true while replaying a single case (properties may print more detail)
    pub replay: bool,
}

#[derive(Debug, Clone)]
pub struct Fail {
    pub msg: String,
    pub detail: Value,
}

impl Fail {
    pub fn new<S: Into<String>>(msg: S, detail: Value) -> Fail {
        Fail { msg: msg.into(), detail }
    }
}

#[macro_export]
macro_rules! fail {
    ($detail:expr, $($arg:tt)*) => {
        return Err($crate::engine::Fail::new(format!($($arg)*), $detail))
    };
}

#[derive(Default)]
pub struct Stats {
    pub evaluations: u64,
    pub nontrivial: HashSet<u64>,
    pub classes: BTreeMap<String, u64>,
    pub samples: Vec<Value>,
    pub known_hits: BTreeMap<String, u64>,
    pub skipped: BTreeMap<String, u64>,
    pub counters: BTreeMap<String, u64>,
    frozen: bool,
}

pub fn digest(bytes: &[u8]) -> u64 {
    // FNV-1a 64
    let mut h: u64 = 0xcbf29ce484222325;
    for b in bytes {
        h ^= *b as u64;
        h = h.wrapping_mul(0x100000001b3);
    }
    h
}

pub fn digest_strs(parts: &[&str]) -> u64 {
    let mut h: u64 = 0xcbf29ce484222325;
    for p in parts {
        for b in p.as_bytes() {
            h ^= *b as u64;
            h = h.wrapping_mul(0x100000001b3);
        }
        h ^= 0xff;
        h = h.wrapping_mul(0x100000001b3);
    }
    h
}

impl Stats {
    pub fn frozen(&self) -> bool {
        self.frozen
    }
    pub fn eval(&mut self) {
        if !self.frozen {
            self.evaluations += 1;
        }
    }
    pub fn class(&mut self, name: &str) {
        if !self.frozen {
            *self.classes.entry(name.to_string()).or_insert(0) += 1;
        }
    }
    pub fn count(&mut self, name: &str, n: u64) {
        if !self.frozen {
            *self.counters.entry(name.to_string()).or_insert(0) += n;
        }
    }
    pub fn skip(&mut self, name: &str) {
        if !self.frozen {
            *self.skipped.entry(name.to_string()).or_insert(0) += 1;
        }
    }
    pub fn known(&mut self, id: &str) {
        if !self.frozen {
            *self.known_hits.entry(id.to_string()).or_insert(0) += 1;
        }
    }
    /// Record a non-trivial case (by digest); `sample` is only evaluated for the first few.
    pub fn nontrivial<F: FnOnce() -> Value>(&mut self, digest: u64, sample: F) {
        if self.frozen {
            return;
        }
        if self.nontrivial.insert(digest) && self.samples.len() < 4 {
            self.samples.push(sample());
        }
    }
    fn merge(&mut self, other: Stats) {
        self.evaluations += other.evaluations;
        self.nontrivial.extend(other.nontrivial);
        for (k, v) in other.classes {
            *self.classes.entry(k).or_insert(0) += v;
        }
        for (k, v) in other.known_hits {
            *self.known_hits.entry(k).or_insert(0) += v;
        }
        for (k, v) in other.skipped {
            *self.skipped.entry(k).or_insert(0) += v;
        }
        for (k, v) in other.counters {
            *self.counters.entry(k).or_insert(0) += v;
        }
        for s in other.samples {
            if self.samples.len() < 6 {
                self.samples.push(s);
            }
        }
    }
}

pub enum Kind {
    /// randomly generated tapes, `quick` / `thorough` cases in total
    Random { quick: usize, thorough: usize },
    /// indices 0..count, every one visited (tape = [index])
    Enumerated { count: usize },
}

pub struct Campaign {
    pub name: &'static str,
    pub kind: Kind,
    pub tape_len: usize,
}

pub trait Prop: Sync {
    fn id(&self) -> &'static str;
    fn rule(&self) -> String;
    fn assumptions(&self) -> Vec<String>;
    fn campaigns(&self, ctx: &Ctx) -> Vec<Campaign>;
    fn run(&self, ctx: &Ctx, campaign: &str, tape: &mut Tape, st: &mut Stats) -> Result<(), Fail>;
    /// Called once after all campaigns (single thread); may add checks on aggregated statistics
    /// (generator health). Err(..) here is reported as exit 2 (harness defect), not a violation.
    fn health(&self, _ctx: &Ctx, _st: &Stats) -> Result<(), String> {
        Ok(())
    }
    /// A check over the aggregated statistics of a whole run (e.g. the rate profile of a listed finding).
    /// Err(..) is a VIOLATION without a single replayable case.
    fn final_check(&self, _ctx: &Ctx, _st: &Stats) -> Result<(), Fail> {
        Ok(())
    }
    /// Replay the witness of a listed known finding: Ok(true) = still fails in the listed way,
    /// Ok(false) = does not fail any more, Err = fails differently (a violation).
    fn witness(&self, _ctx: &Ctx, _finding: &crate::findings::Finding) -> Result<bool, Fail> {
        Ok(false)
    }
}

const STACK: usize = 1 << 30;

fn seed_bytes(seed: u64, prop: &str, campaign: &str, shard: usize) -> [u8; 32] {
    let mut out = [0u8; 32];
    let a = digest_strs(&[prop, campaign, &seed.to_string(), &shard.to_string()]);
    let b = digest_strs(&[&a.to_string(), "b", prop]);
    let c = digest_strs(&[&b.to_string(), "c", campaign]);
    let d = digest_strs(&[&c.to_string(), "d"]);
    out[0..8].copy_from_slice(&a.to_le_bytes());
    out[8..16].copy_from_slice(&b.to_le_bytes());
    out[16..24].copy_from_slice(&c.to_le_bytes());
    out[24..32].copy_from_slice(&d.to_le_bytes());
    out
}

fn panic_message(e: Box<dyn std::any::Any + Send>) -> String {
    if let Some(s) = e.downcast_ref::<&str>() {
        s.to_string()
    } else if let Some(s) = e.downcast_ref::<String>() {
        s.clone()
    } else {
        "<non-string panic payload>".to_string()
    }
}

thread_local! {
    pub static LAST_PANIC_LOCATION: std::cell::RefCell<String> = std::cell::RefCell::new(String::new());
}

pub fn install_panic_hook() {
    std::panic::set_hook(Box::new(|info| {
        let loc = info
            .location()
            .map(|l| format!("{}:{}", l.file(), l.line()))
            .unwrap_or_default();
        LAST_PANIC_LOCATION.with(|x| *x.borrow_mut() = loc);
    }));
}

/// Run one case with panics turned into failures.
pub fn run_case(
    prop: &dyn Prop,
    ctx: &Ctx,
    campaign: &str,
    data: &[u32],
    st: &mut Stats,
) -> Result<(), Fail> {
    let r = catch_unwind(AssertUnwindSafe(|| {
        let mut tape = Tape::new(data);
        prop.run(ctx, campaign, &mut tape, st)
    }));
    match r {
        Ok(x) => x,
        Err(e) => {
            let loc = LAST_PANIC_LOCATION.with(|x| x.borrow().clone());
            Err(Fail::new(
                format!("panic at {}: {}", loc, panic_message(e)),
                json!({"panic": true}),
            ))
        }
    }
}

pub struct Failure {
    pub campaign: String,
    pub shard: usize,
    pub tape: Vec<u32>,
    pub fail: Fail,
}

fn run_random_shard(
    prop: &dyn Prop,
    ctx: &Ctx,
    camp: &Campaign,
    cases: usize,
    shard: usize,
    stop: &AtomicBool,
) -> (Stats, Option<Failure>) {
    let mut st = Stats::default();
    if cases == 0 {
        return (st, None);
    }
    let config = Config {
        cases: cases as u32,
        failure_persistence: None,
        max_shrink_iters: if ctx.tier == Tier::Quick { 1500 } else { 4000 },
        max_local_rejects: 1 << 30,
        max_global_rejects: 1 << 30,
        ..Config::default()
    };
    let rng = TestRng::from_seed(RngAlgorithm::ChaCha, &seed_bytes(ctx.seed, prop.id(), camp.name, shard));
    let mut runner = TestRunner::new_with_rng(config, rng);
    // tape length is itself drawn, biased so that short and long tapes both occur
    let max_len = camp.tape_len.max(1);
    let strategy = proptest::collection::vec(proptest::num::u32::ANY, 0..=max_len);
    let stats = std::cell::RefCell::new(&mut st);
    let first_fail: std::cell::RefCell<Option<Fail>> = std::cell::RefCell::new(None);
    let result = runner.run(&strategy, |data| {
        if stop.load(Ordering::Relaxed) && first_fail.borrow().is_none() {
            // another shard failed: finish quietly
            return Ok(());
        }
        let mut st = stats.borrow_mut();
        match run_case(prop, ctx, camp.name, &data, &mut st) {
            Ok(()) => Ok(()),
            Err(f) => {
                st.frozen = true; // closure re-runs during shrinking: stop counting
                stop.store(true, Ordering::Relaxed);
                let msg = f.msg.clone();
                if first_fail.borrow().is_none() {
                    *first_fail.borrow_mut() = Some(f);
                }
                Err(TestCaseError::fail(msg))
            }
        }
    });
    drop(stats);
    let failure = match result {
        Ok(()) => None,
        Err(TestError::Fail(_, data)) => {
            // re-run the minimal tape to get its detail
            let mut scratch = Stats::default();
            scratch.frozen = true;
            let fail = match run_case(prop, ctx, camp.name, &data, &mut scratch) {
                Err(f) => f,
                Ok(()) => first_fail.borrow_mut().take().unwrap_or(Fail::new(
                    "failure did not reproduce on the minimal tape",
                    json!({}),
                )),
            };
            Some(Failure { campaign: camp.name.to_string(), shard, tape: data, fail })
        }
        Err(TestError::Abort(reason)) => Some(Failure {
            campaign: camp.name.to_string(),
            shard,
            tape: vec![],
            fail: Fail::new(format!("proptest aborted: {}", reason), json!({"abort": true})),
        }),
    };
    st.frozen = false;
    (st, failure)
}

fn run_enumerated_shard(
    prop: &dyn Prop,
    ctx: &Ctx,
    camp: &Campaign,
    count: usize,
    next: &AtomicU64,
    stop: &AtomicBool,
) -> (Stats, Option<Failure>) {
    let mut st = Stats::default();
    loop {
        if stop.load(Ordering::Relaxed) {
            break;
        }
        let i = next.fetch_add(1, Ordering::Relaxed) as usize;
        if i >= count {
            break;
        }
        let data = [i as u32];
        if let Err(fail) = run_case(prop, ctx, camp.name, &data, &mut st) {
            stop.store(true, Ordering::Relaxed);
            return (st, Some(Failure { campaign: camp.name.to_string(), shard: i, tape: data.to_vec(), fail }));
        }
    }
    (st, None)
}

pub struct RunOutcome {
    pub stats: Stats,
    pub failure: Option<Failure>,
    pub per_campaign: BTreeMap<String, (u64, usize)>,
}

pub fn run_all(prop: &dyn Prop, ctx: &Ctx, only: Option<&str>) -> RunOutcome {
    let mut total = Stats::default();
    let mut per_campaign = BTreeMap::new();
    let mut failure: Option<Failure> = None;
    for camp in prop.campaigns(ctx) {
        if let Some(o) = only {
            if o != camp.name {
                continue;
            }
        }
        let stop = AtomicBool::new(false);
        let next = AtomicU64::new(0);
        let results: Mutex<Vec<(usize, Stats, Option<Failure>)>> = Mutex::new(Vec::new());
        let threads = ctx.threads.max(1);
        std::thread::scope(|scope| {
            for shard in 0..threads {
                let camp = &camp;
                let stop = &stop;
                let next = &next;
                let results = &results;
                std::thread::Builder::new()
                    .stack_size(STACK)
                    .spawn_scoped(scope, move || {
                        let (st, f) = match camp.kind {
                            Kind::Random { quick, thorough } => {
                                let cases = if ctx.tier == Tier::Quick { quick } else { thorough };
                                let base = cases / threads;
                                let extra = if shard < cases % threads { 1 } else { 0 };
                                run_random_shard(prop, ctx, camp, base + extra, shard, stop)
                            }
                            Kind::Enumerated { count } => run_enumerated_shard(prop, ctx, camp, count, next, stop),
                        };
                        results.lock().unwrap().push((shard, st, f));
                    })
                    .expect("spawn shard");
            }
        });
        let mut results = results.into_inner().unwrap();
        results.sort_by_key(|x| x.0);
        let mut camp_stats = Stats::default();
        for (_, st, f) in results {
            camp_stats.merge(st);
            if failure.is_none() {
                if let Some(f) = f {
                    failure = Some(f);
                }
            }
        }
        per_campaign.insert(camp.name.to_string(), (camp_stats.evaluations, camp_stats.nontrivial.len()));
        total.merge(camp_stats);
        if failure.is_some() {
            break;
        }
    }
    RunOutcome { stats: total, failure, per_campaign }
}

pub fn write_replay(ctx: &Ctx, prop: &dyn Prop, f: &Failure) -> PathBuf {
    let dir = ctx.root.join("out").join("replays");
    let _ = std::fs::create_dir_all(&dir);
    let tape_bytes: Vec<u8> = f.tape.iter().flat_map(|x| x.to_le_bytes()).collect();
    let name = format!("{}-{}-{:016x}.json", prop.id(), f.campaign, digest(&tape_bytes));
    let path = dir.join(name);
    let v = json!({
        "property": prop.id(),
        "campaign": f.campaign,
        "tape": f.tape,
        "seed": ctx.seed,
        "tier": ctx.tier.name(),
        "message": f.fail.msg,
        "detail": f.fail.detail,
    });
    std::fs::write(&path, serde_json::to_string_pretty(&v).unwrap()).expect("write replay");
    path
}

pub fn write_evidence(ctx: &Ctx, prop: &dyn Prop, out: &RunOutcome, wall_s: f64, violations: u64, notes: Vec<String>) {
    let dir = ctx.root.join("evidence");
    let _ = std::fs::create_dir_all(&dir);
    let st = &out.stats;
    let per: BTreeMap<String, Value> = out
        .per_campaign
        .iter()
        .map(|(k, (e, n))| (k.clone(), json!({"evaluations": e, "distinct_nontrivial": n})))
        .collect();
    let v = json!({
        "property_id": prop.id(),
        "tier": ctx.tier.name(),
        "seed": ctx.seed,
        "level": "exploration",
        "coverage": {
            "evaluations": st.evaluations,
            "distinct_nontrivial": st.nontrivial.len(),
            "rule": prop.rule(),
            "samples": st.samples,
            "classes": st.classes,
            "counters": st.counters,
            "skipped_by_construction_or_precondition": st.skipped,
            "known_finding_hits": st.known_hits,
            "campaigns": per,
            "exhaustive": false,
            "notes": notes,
        },
        "assumptions": prop.assumptions(),
        "wall_s": wall_s,
        "violations": violations,
    });
    std::fs::write(dir.join(format!("{}.json", prop.id())), serde_json::to_string_pretty(&v).unwrap())
        .expect("write evidence");
}

/// Full check of one property: witnesses of known findings, campaigns, evidence, exit code.
pub fn check(prop: &dyn Prop, ctx: &Ctx, only: Option<&str>) -> i32 {
    let t0 = Instant::now();
    let mut notes = Vec::new();
    let mut violations = 0u64;
    // 1. witnesses of listed findings
    let mut witness_failure: Option<(String, Fail)> = None;
    for f in ctx.findings.for_property(prop.id()) {
        if f.status != "known" {
            continue;
        }
        let r = catch_unwind(AssertUnwindSafe(|| prop.witness(ctx, f)));
        match r {
            Ok(Ok(true)) => {
                println!("KNOWN-FINDING: property={} {} [{}]", prop.id(), f.what, f.id);
                notes.push(format!("known finding {} witness still fails as listed", f.id));
            }
            Ok(Ok(false)) => {
                notes.push(format!("known finding {} witness no longer fails", f.id));
                println!("note: witness of listed finding {} does not fail on this tree", f.id);
            }
            Ok(Err(fail)) => {
                witness_failure = Some((f.id.clone(), fail));
            }
            Err(e) => {
                witness_failure = Some((f.id.clone(), Fail::new(format!("panic in witness: {}", panic_message(e)), json!({}))));
            }
        }
    }
    let mut out = run_all(prop, ctx, only);
    if out.failure.is_none() && only.is_none() {
        if let Err(fail) = prop.final_check(ctx, &out.stats) {
            out.failure = Some(Failure { campaign: "aggregate".to_string(), shard: 0, tape: vec![], fail });
        }
    }
    if out.failure.is_none() {
        if let Some((id, fail)) = witness_failure {
            out.failure = Some(Failure {
                campaign: format!("witness-{}", id),
                shard: 0,
                tape: vec![],
                fail,
            });
        }
    }
    let mut code = 0;
    let infra = out.failure.as_ref().map(|f| f.fail.detail["infrastructure"].as_bool() == Some(true)).unwrap_or(false);
    if infra {
        let f = out.failure.as_ref().unwrap();
        println!("INFRASTRUCTURE property={} campaign={} {}", prop.id(), f.campaign, f.fail.msg);
        notes.push(format!("infrastructure trouble: {}", f.fail.msg));
        code = 2;
    } else if let Some(f) = &out.failure {
        violations = 1;
        let path = write_replay(ctx, prop, f);
        println!("failure in campaign {}: {}", f.campaign, f.fail.msg);
        println!("VIOLATION property={} replay={}", prop.id(), path.display());
        code = 1;
    }
    if code == 0 {
        if let Err(e) = prop.health(ctx, &out.stats) {
            println!("HARNESS-HEALTH property={} {}", prop.id(), e);
            notes.push(format!("health check failed: {}", e));
            code = 2;
        }
    }
    let wall = t0.elapsed().as_secs_f64();
    write_evidence(ctx, prop, &out, wall, violations, notes);
    println!(
        "{} {} seed={} evaluations={} distinct_nontrivial={} known_hits={:?} wall={:.1}s exit={}",
        prop.id(),
        ctx.tier.name(),
        ctx.seed,
        out.stats.evaluations,
        out.stats.nontrivial.len(),
        out.stats.known_hits,
        wall,
        code
    );
    code
}

pub fn replay(prop: &dyn Prop, ctx: &Ctx, path: &std::path::Path) -> i32 {
    let text = match std::fs::read_to_string(path) {
        Ok(t) => t,
        Err(e) => {
            println!("cannot read replay file: {}", e);
            return 2;
        }
    };
    let v: Value = match serde_json::from_str(&text) {
        Ok(v) => v,
        Err(e) => {
            println!("cannot parse replay file: {}", e);
            return 2;
        }
    };
    let campaign = v["campaign"].as_str().unwrap_or("").to_string();
    if campaign == "aggregate" {
        println!("{} records a violation of an aggregate bound over a whole run ({}); run the check again to re-evaluate it", path.display(), v["message"].as_str().unwrap_or(""));
        return 2;
    }
    let tape: Vec<u32> = v["tape"]
        .as_array()
        .map(|a| a.iter().map(|x| x.as_u64().unwrap_or(0) as u32).collect())
        .unwrap_or_default();
    let mut st = Stats::default();
    let res = std::thread::scope(|scope| {
        std::thread::Builder::new()
            .stack_size(STACK)
            .spawn_scoped(scope, || run_case(prop, ctx, &campaign, &tape, &mut st))
            .unwrap()
            .join()
            .unwrap()
    });
    match res {
        Ok(()) => {
            println!("replay of {} passes on this tree", path.display());
            0
        }
        Err(f) => {
            println!("replay fails: {}", f.msg);
            println!("{}", serde_json::to_string_pretty(&f.detail).unwrap_or_default());
            println!("VIOLATION property={} replay={}", prop.id(), path.display());
            1
        }
    }
}

/// A context for libFuzzer targets (no corpus; findings from $VERIF_ROOT or /verif; scratch under the temp dir).
pub fn fuzz_ctx() -> &'static Ctx {
    static CTX: std::sync::OnceLock<Ctx> = std::sync::OnceLock::new();
    CTX.get_or_init(|| {
        let root = std::env::var("VERIF_ROOT").map(PathBuf::from).unwrap_or_else(|_| PathBuf::from("/verif"));
        let scratch = root.join("out").join(format!("scratch-fuzz-{}", std::process::id()));
        let _ = std::fs::create_dir_all(&scratch);
        Ctx {
            corpus: crate::corpus::Corpus::default(),
            findings: crate::findings::Findings::load(&root),
            root,
            tier: Tier::Thorough,
            seed: 0,
            threads: 1,
            scratch,
            replay: false,
        }
    })
}

/// Bytes of a libFuzzer input as a choice tape (little-endian u32s).
pub fn tape_from_bytes(data: &[u8]) -> Vec<u32> {
    data.chunks(4)
        .map(|c| {
            let mut b = [0u8; 4];
            b[..c.len()].copy_from_slice(c);
            u32::from_le_bytes(b)
        })
        .collect()
}
