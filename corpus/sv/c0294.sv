module t0294;
class Fifo #(type T = int) implements PutImp#(T), GetImp#(T);
                endclass
                Fifo#(int) fifo_obj = new;
                PutImp#(int) put_ref = fifo_obj;
endmodule
