module t0752;
checker my_check1 (logic test_sig, event clock);
                  default clocking @clock; endclocking
                  property p(logic sig);
                    a;
                  endproperty
                  a1: assert property (p (test_sig));
                  c1: cover property (!test_sig ##1 test_sig);
                endchecker : my_check1
endmodule
