module t0064;
class Base #(parameter p = 1);
                  typedef struct {
                    real r;
                    bit[p-1:0] data;
                  } T;

                  static function T Tsum (input T driver[]);
                    Tsum.r = 0.0;
                    Tsum.data = 0;
                    foreach (driver[i])
                      Tsum.data += driver[i].data;
                    Tsum.r = $itor(Tsum.data);
                  endfunction
                endclass

                typedef Base#(32) MyBaseT;
                nettype MyBaseT::T narrowTsum with MyBaseT::Tsum;

                typedef Base#(64) MyBaseType;
                nettype MyBaseType::T wideTsum with MyBaseType::Tsum;

                narrowTsum net1; // data is 32 bits wide
                wideTsum net2; // data is 64 bits wide
endmodule
