module t0698;
sequence mult_s;
                  @(posedge clk) a ##1 @(posedge clk1) s1 ##1 @(posedge clk2) s2;
                endsequence
endmodule
