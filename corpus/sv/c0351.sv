module t0351;
initial begin
                  a <= repeat(a+b) @(posedge phi1 or negedge phi2) data;
                end
endmodule
