module t0703;
property mult_p7;
                  @(posedge clk) a ##1 b |-> c ##1 @(posedge clk1) d;
                endproperty
endmodule
