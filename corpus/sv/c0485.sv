module t0485;
initial begin
                  logic [7:0] r, mask;

                  mask = 8'bx0x0x0x0;
                  casex (r ^ mask)
                    8'b001100xx: stat1;
                    8'b1100xx00: stat2;
                    8'b00xx0011: stat3;
                    8'bxx010100: stat4;
                  endcase
                end
endmodule
