module t1006;
interface i1 (input a, output b, inout c);
                  wire d;
                endinterface
endmodule
