module t0324;
initial begin
                  fork
                    #200 r = 'hF7;
                    #150 r = 'h00;
                    #100 r = 'hE2;
                    #50 r = 'h35;
                  join
                end
endmodule
