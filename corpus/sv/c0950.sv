module t0950;
parameter logic [7:0] My_DataIn = 8'hFF;

                module bus_conn (
                  output logic [7:0] dataout,
                  input [7:0] datain = My_DataIn);
                  assign dataout = datain;
                endmodule

                module bus_connect1 (
                  output logic [31:0] dataout,
                  input [ 7:0] datain);
                  parameter logic [7:0] My_DataIn = 8'h00;

                  bus_conn bconn0 (dataout[31:24], 8'h0F);
                    // Constant literal overrides default in bus_conn definition

                  bus_conn bconn1 (dataout[23:16]);
                    // Omitted port for datain, default parameter value 8'hFF in
                    // bus_conn used

                  bus_conn bconn2 (dataout[15:8], My_DataIn);
                    // The parameter value 8'h00 from the instantiating scope is used

                  bus_conn bconn3 (dataout[7:0]);
                endmodule
endmodule
