module t0433;
initial begin
                  q = {<<byte{p.header, p.len, p.payload with [0 +: p.len], p.crc}};
                end
endmodule
