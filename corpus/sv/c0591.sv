module t0591;
function int error_type (int opcode);
                  func_assert: assert (opcode < 64) else $display("Opcode error.");
                  if (opcode < 32)
                    return (0);
                  else
                    return (1);
                endfunction

                always_comb begin : b1
                  a1: assert #0 (my_cond) else
                  $error("Error on operation of type %d\n", error_type(opcode));
                  a2: assert #0 (my_cond) else
                  error_type(opcode);
                end
endmodule
