module t0092;
intP a, b;
endmodule
