module t0461;
module m;
                  logic clk, a, b;
                  logic p, q, r;

                  // let with formal arguments and default value on y
                  let eq(x, y = b) = x == y;

                  // without parameters, binds to a, b above
                  let tmp = a && b;

                  a1: assert property (@(posedge clk) eq(p,q));
                  always_comb begin
                    a2: assert (eq(r)); // use default for y
                    a3: assert (tmp);
                  end
                endmodule : m
endmodule
