module t0320;
initial begin
                  fork
                    begin
                      statement1; // one process with 2 statements
                      statement2;
                    end
                  join
                end
endmodule
