module t0053;
triple b = '{1:1, default:0}; // indices 2 and 3 assigned 0
endmodule
