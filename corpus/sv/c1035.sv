package p;
                  int x;
                endpackage

                module top;
                  import p::*;     // line 1

                  if (1) begin : b
                    initial x = 1; // line 2
                    int x;         // line 3
                    initial x = 1; // line 4
                  end
                  int x;           // line 5
                endmodule
