module t0554;
module top;
                  logic a, b, c, clk;
                  global clocking top_clocking @(clk); endclocking

                  property p1(req, ack);
                    @($global_clock) req |=> ack;
                  endproperty

                  property p2(req, ack, interrupt);
                    @($global_clock) accept_on(interrupt) p1(req, ack);
                  endproperty

                  my_checker check(
                    p2(a, b, c),
                    @($global_clock) a[*1:$] ##1 b);
                endmodule

                checker my_checker(property p, sequence s);
                  logic checker_clk;
                  global clocking checker_clocking @(checker_clk); endclocking
                  assert property (p);
                  cover property (s);
                endchecker
endmodule
