module t0830;
initial begin
                  randsequence( TOP )
                    TOP : rand join S1 S2 ;
                    S1  : A B ;
                    S2  : C D ;
                  endsequence
                end
endmodule
