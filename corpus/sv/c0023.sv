`begin_keywords "1364-2001-noconfig" // use IEEE Std 1364-2001 Verilog keywords
                module m2;
                  reg [63:0] logic; // OK: "logic" is not a keyword in 1364-2001
                endmodule
                `end_keywords
