module t0393;
initial s1 = '{default:2}; // sets x and y to 2
endmodule
