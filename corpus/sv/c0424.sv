module t0424;
initial begin
                  y = func(w) ;
                  result = {y, y, y, y} ;
                end
endmodule
