module t0868;
struct // covergroup option declaration
                {
                  string name ;
                  int weight ;
                  int goal ;
                  string comment ;
                  int at_least ;
                  int auto_bin_max ;
                  int cross_num_print_missing ;
                  bit detect_overlap ;
                  bit per_instance ;
                  bit get_inst_coverage ;
                } option;

                struct // coverpoint option declaration
                {
                  int weight ;
                  int goal ;
                  string comment ;
                  int at_least ;
                  int auto_bin_max ;
                  bit detect_overlap ;
                } option;

                struct // cross option declaration
                {
                  int weight ;
                  int goal ;
                  string comment ;
                  int at_least ;
                  int cross_num_print_missing ;
                } option;

                struct // covergroup type_option declaration
                {
                  int weight ;
                  int goal ;
                  string comment ;
                  bit strobe ;
                  bit merge_instances ;
                  bit distribute_first ;
                } type_option;

                struct // coverpoint and cross type_option declaration
                {
                  int weight ;
                  int goal ;
                  string comment ;
                } type_option;
endmodule
