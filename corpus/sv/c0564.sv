module t0564;
default clocking cb @(posedge clk); // Assume clk has a period of #10 units
                  output v;
                endclocking

                initial begin
                  #3 cb.v <= expr1; // Matures in cycle 1; equivalent to ##1 cb.v <= expr1
                end
endmodule
