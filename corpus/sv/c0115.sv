class Mem #(type T, int size);
                  T words[size];
                endclass

                typedef Mem#(byte, 1024) Kbyte;
