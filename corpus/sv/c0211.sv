module t0211;
initial begin
                  string s;
                  if ( map.last( s ) )
                    do
                      $display( "%s : %d\n", s, map[ s ] );
                    while ( map.prev( s ) );
                end
endmodule
