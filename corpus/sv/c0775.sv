module t0775;
checker check(bit clk1); // clk1 assigned in the Active region
                  rand bit v, w;
                  assign clk2 = clk1;
                  m1: assume property (@clk1 !(v && w));
                  m2: assume property (@clk2 v || w);
                  a1: assert property (@clk1 v != w);
                  // ...
                endchecker : check
endmodule
