module t0091;
typedef int intP;
endmodule
