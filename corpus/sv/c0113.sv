class vector #(size = 1); // size is a parameter in a parameter port list
                  logic [size-1:0] v;
                endclass
                interface simple_bus #(AWIDTH = 64, type T = word) // parameter port list
                                      (input logic clk) ; // port list
                endinterface
