module t0979;
module m1 (a,b);
                  real r1,r2;
                  parameter [2:0] A = 3'h2;
                  parameter B = 3'h2;
                  initial begin
                    r1 = A;
                    r2 = B;
                    $display("r1 is %f r2 is %f",r1,r2);
                  end
                endmodule: m1

                module m2;
                  wire a,b;
                  defparam f1.A = 3.1415;
                  defparam f1.B = 3.1415;
                  m1 f1(a,b);
                endmodule: m2
endmodule
