module t0096;
enum {red, yellow, green} light1, light2; // anonymous int type
endmodule
