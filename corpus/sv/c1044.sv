module t1044;
module gray2bin1 (bin, gray);
                  parameter SIZE = 8; // this module is parameterizable
                  output [SIZE-1:0] bin;
                  input [SIZE-1:0] gray;

                  genvar i;
                  generate
                    for (i=0; i<SIZE; i=i+1) begin:bitnum
                      assign bin[i] = ^gray[SIZE-1:i];
                        // i refers to the implicitly defined localparam whose
                        // value in each instance of the generate block is
                        // the value of the genvar when it was elaborated.
                    end
                  endgenerate
                endmodule
endmodule
