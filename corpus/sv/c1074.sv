primitive srff (q, s, r);
                  output q; reg q;
                  input s, r;
                  initial q = 1'b1;
                  table
                    // s r q q+
                    1 0 : ? : 1 ;
                    f 0 : 1 : - ;
                    0 r : ? : 0 ;
                    0 f : 0 : - ;
                    1 1 : ? : 0 ;
                  endtable
                endprimitive
