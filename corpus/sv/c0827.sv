module t0827;
initial begin
                  randsequence()
                    PP_OP : if ( depth < 2 ) PUSH else POP ;
                    PUSH  : { ++depth; do_push(); };
                    POP   : { --depth; do_pop(); };
                  endsequence
                end
endmodule
