module t0848;
bit [4:1] v_a;
                covergroup cg @(posedge clk);
                  coverpoint v_a
                  {
                    bins sa = (4 => 5 => 6), ([7:9],10=>11,12);
                    bins sb[] = (4=> 5 => 6), ([7:9],10=>11,12);
                    bins sc = (12 => 3 [-> 1]);
                    bins allother = default sequence ;
                  }
                endgroup
endmodule
