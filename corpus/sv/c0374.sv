module t0374;
module multiple2;
                  logic a;

                  initial a = 1;
                  initial a <= #4 0; // schedules 0 at time 4
                  initial a <= #4 1; // schedules 1 at time 4

                  // At time 4, a = ??
                  // The assigned value of the variable is indeterminate
                endmodule
endmodule
