module t0617;
logic b_d, d_d;
                sequence legal_loc_var_formal (
                  local inout logic a,
                  local logic b = b_d, // input inferred, default actual argument b_d
                              c,       // local input logic inferred, no default
                                       // actual argument
                              d = d_d, // local input logic inferred, default actual
                                       // argument d_d
                  logic e, f           // e and f are not local variable formal arguments
                );
                  logic g = c, h = g || d;
                  g ##1 h;
                endsequence
endmodule
