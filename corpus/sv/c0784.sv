module t0784;
class packet;
                  typedef struct {
                    randc int addr = 1 + constant;
                    int crc;
                    rand byte data [] = {1,2,3,4};
                  } header;
                  rand header h1;
                endclass
                packet p1=new;
endmodule
