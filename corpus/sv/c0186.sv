module t0186;
int src[3], dest1[], dest2[];
                initial begin
                  src = '{2, 3, 4};
                  dest1 = new[2] (src); // dest1's elements are {2, 3}.
                  dest2 = new[4] (src); // dest2's elements are {2, 3, 4, 0}.
                end
endmodule
