module t0798;
class B;
                  rand int x, y;
                  constraint C { x <= F(y); }
                  constraint D { y inside { 2, 4, 8 } ; }
                endclass
endmodule
