module t0735;
default clocking @(posedge clk); endclocking
                always @(bad_val or bad_val_ok) begin : b1
                  a1: assert property (bad_val) else $fatal(1, "Sorry");
                  if (bad_val_ok) begin
                    disable a1;
                  end
                end
endmodule
