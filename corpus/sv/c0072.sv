module cmp #(parameter real hyst = 0.65)
                            (input wire logic [0:1] inA,
                  input logic rst,
                  output logic out);

                  initial out = 1'b0;

                  always @(inA, rst) begin
                    if (rst) out <= 1'b0;
                    else if (inA[0] & ~inA[1]) out <= 1'b1;
                    else out <= 1'b0;
                  end
                endmodule : cmp
