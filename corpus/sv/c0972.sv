module t0972;
module top();
                  logic clk, x, y, z;
                  m m_i(clk, x, y, z);
                endmodule

                module m(input logic clk, a, b, c);
                  assert #0 (a^b);     // no label, assertion cannot be referred to
                  A1: assert #0 (a^b); // assertion can be accessed in control tasks

                  initial begin : B1
                    assert (a);    // cannot be accessed in control tasks
                    A1: assert (a) // can be accessed, e.g., top.m_i.B1.A1
                      begin        // unnamed block, d cannot be accessed
                        bit d;
                        d = a ^ b;
                      end
                    else
                      begin : B2 // name required to access items in action block
                        bit d;   // d can be accessed using, e.g., top.m_i.B1.A1.B2.d
                        d = a ^ b;
                      end
                  end

                  logic e;
                  always_ff @(posedge clk) begin // unnamed block, no scope created
                    e <= a && c;
                    C1: cover property(e)        // C1 and A2 can be referred to
                      begin                      // hierarchical name top.m_i.C1.A2
                        A2: assert (m_i.B1.A1.B2.d);
                      end
                  end

                  always_ff @(posedge clk) begin // unnamed block, scope created
                    // declaration of f causes begin-end to create scope
                    static logic f;
                    f <= a && c;
                    C2: cover property(f) // C2 and A3 cannot be referred to
                      begin
                        A3: assert (m_i.B1.A1.B2.d);
                      end
                  end

                  always_ff @(posedge clk) begin : B2 // named block and scope created
                    static logic f;
                    f <= a && c;
                    C3: cover property(f) // C3 and A4 can be referred to
                      begin               // hierarchical name top.m_i.B2.C3.A4
                        A4: assert (m_i.B1.A1.B2.d);
                      end
                  end

                  assert property(@(posedge clk) a |-> b) else // unnamed assertion
                    begin: B3
                      static bit d;  // d can be referred to, e.g., top.m_i.B3.d
                      A5: assert(d); // hierarchical name top.m_i.B3.A5
                    end
                  // Any other labelled object with name B3 at the module
                  // level shall be an error
                endmodule
endmodule
