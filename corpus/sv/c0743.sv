module t0743;
property p3; @(posedge clk) not (a ##2 b); endproperty
                assert property (p3);
endmodule
