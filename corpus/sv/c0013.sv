class a; const local a b = new("a"); endclass
