module t0536;
clocking bus @(posedge clock1);
                  default input #10ns output #2ns;
                  input data, ready, enable = top.mem1.enable;
                  output negedge ack;
                  input #1step addr;
                endclocking
endmodule
