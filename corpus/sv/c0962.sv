module t0962;
module MxN_pipeline #(M=3,N=4)
                  (input [M-1:0] in, output [M-1:0] out, input clk);
                  typedef logic T [M-1:0][1:N];
                  T Ins, Outs;

                  DFF dff[M-1:0][1:N](Outs, Ins, clk);

                  for (genvar I = M-1; I >= 0; I--) begin
                    for (genvar J = 1; J <= N; J++) begin
                      case (J)
                        1: begin
                             assign out[I] = Outs[I][1];
                             assign Ins[I][J] = Outs[I][2];
                           end
                        default: assign Ins[I][J] = Outs[I][J+1];
                              N: assign Ins[I][N] = in[I];
                      endcase
                    end
                  end
                endmodule : MxN_pipeline
endmodule
