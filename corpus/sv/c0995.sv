module t0995;
program test (input clk, input [16:1] addr, inout [7:0] data);
                endprogram
endmodule
