module t0063;
typedef struct {
                  real field1;
                  bit field2;
                } T;

                // user-defined resolution function Tsum
                function automatic T Tsum (input T driver[]);
                  Tsum.field1 = 0.0;
                  foreach (driver[i])
                    Tsum.field1 += driver[i].field1;
                endfunction

                nettype T wT; // an unresolved nettype wT whose data type is T

                // a nettype wTsum whose data type is T and
                // resolution function is Tsum
                nettype T wTsum with Tsum;

                // user-defined data type TR
                typedef real TR[5];

                // an unresolved nettype wTR whose data type
                // is an array of real
                nettype TR wTR;

                // declare another name nettypeid2 for nettype wTsum
                nettype wTsum nettypeid2;
endmodule
