module t0846;
bit [9:0] v_a;

                covergroup cg @(posedge clk);

                  coverpoint v_a
                  {
                    bins a = { [0:63],65 };
                    bins b[] = { [127:150],[148:191] }; // note overlapping values
                    bins c[] = { 200,201,202 };
                    bins d = { [1000:$] };
                    bins others[] = default;
                  }
                endgroup
endmodule
