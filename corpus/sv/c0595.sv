module t0595;
always @(bad_val or bad_val_ok) begin : b1
                  a1: assert #0 (bad_val) else $fatal(1, "Sorry");
                  if (bad_val_ok) begin
                    disable a1;
                  end
                end
endmodule
