module t0346;
initial begin
                  fork
                    #5 a = b;
                    #5 b = a;
                  join
                end
endmodule
