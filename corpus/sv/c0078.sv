module t0078;
shortint s1, s2[0:9];
endmodule
