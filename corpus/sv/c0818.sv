module t0818;
task stimulus( int length );
                  int a, b, c, success;

                  success = std::randomize( a, b, c ) with { a < b ; a + b < length ; };
                  success = std::randomize( a, b ) with { b - a > length ; };
                endtask
endmodule
