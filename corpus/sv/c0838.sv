module t0838;
enum { red, green, blue } color;

                covergroup g1 @(posedge clk);
                  c: coverpoint color;
                endgroup
endmodule
