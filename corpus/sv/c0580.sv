module t0580;
initial begin
                  event a, b, c;
                  a = b;
                  -> c;
                  -> a; // also triggers b
                  -> b; // also triggers a
                  a = c;
                  b = a;
                  -> a; // also triggers b and c
                  -> b; // also triggers a and c
                  -> c; // also triggers a and b
                end
endmodule
