module t0456;
initial begin
                  a = val - (32'd 50: 32'd 75: 32'd 100);
                end
endmodule
