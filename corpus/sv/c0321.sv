module t0321;
initial begin
                  fork
                    begin
                      $display( "First Block\n" );
                      # 20ns;
                    end
                    begin
                      $display( "Second Block\n" );
                      @eventA;
                    end
                  join
                end
endmodule
