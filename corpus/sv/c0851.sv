module t0851;
covergroup cg3;
                  coverpoint b
                  {
                    illegal_bins bad_vals = {1,2,3};
                    illegal_bins bad_trans = (4=>5=>6);
                  }
                endgroup
endmodule
