module t1034;
import ComplexPkg::*;
endmodule
