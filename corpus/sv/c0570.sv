module t0570;
reg j;
                clocking e @(edge clk);
                  output j;
                endclocking
endmodule
