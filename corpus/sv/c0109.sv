module t0109;
typedef enum { red, green, blue, yellow, white, black } Colors;

                Colors col;
                integer a, b;

                a = blue * 3;
                col = yellow;
                b = col + green;
endmodule
