module t0437;
logic [15:0] acc;
                logic [2:17] acc;
endmodule
