module t0359;
initial begin
                  fork
                    begin : event_expr
                      @ev1;
                      repeat (3) @trig;
                      #d action (areg, breg);
                    end
                    @reset disable event_expr;
                  join
                end
endmodule
