module t0647;
sequence count_a_cycles;
                  int x;
                  ($rose(a), x = 1)
                  ##1 (a, x++)[*0:$]
                  ##1 !a && (x <= MAX);
                endsequence
endmodule
