module t0292;
class Fifo #(type T = PutImp) implements T; endclass
                virtual class Fifo #(type T = PutImp) implements T; endclass
                interface class Fifo #(type T = PutImp) extends T; endclass
endmodule
