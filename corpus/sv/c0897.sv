module t0897;
integer
                  messages, broadcast,
                  cpu_chann, alu_chann, mem_chann;
                initial begin
                  cpu_chann = $fopen("cpu.dat");
                  if (cpu_chann == 0) $finish;
                  alu_chann = $fopen("alu.dat");
                  if (alu_chann == 0) $finish;
                  mem_chann = $fopen("mem.dat");
                  if (mem_chann == 0) $finish;
                  messages = cpu_chann | alu_chann | mem_chann;
                  // broadcast includes standard output
                  broadcast = 1 | messages;
                end
endmodule
