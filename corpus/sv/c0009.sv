`define LONG_MACRO(
                  a,
                  b, c) text goes here
