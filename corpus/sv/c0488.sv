module t0488;
always_comb begin
                  not_a = !a;
                end

                always_comb begin : a1
                  unique case (1'b1)
                    a : z = b;
                    not_a : z = c;
                  endcase
                end
endmodule
