module t0226;
initial begin
                  Packet p = new;
                  int var1;
                  p.command = INIT;
                  p.address = $random;
                  packet_time = p.time_requested;
                  var1 = p.buffer_size;
                end
endmodule
