module t0904;
initial begin
                  integer code ;
                  code = $fseek ( fd, offset, operation );
                  code = $rewind ( fd );
                end
endmodule
