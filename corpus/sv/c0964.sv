module t0964;
module dff_flat(input d, ck, pr, clr, output q, nq);
                  wire q1, nq1, q2, nq2;

                  nand g1b (nq1, d, clr, q1);
                  nand g1a (q1, ck, nq2, nq1);

                  nand g2b (nq2, ck, clr, q2);
                  nand g2a (q2, nq1, pr, nq2);

                  nand g3a (q, nq2, clr, nq);
                  nand g3b (nq, q1, pr, q);
                endmodule

                // This example shows how the flip-flop can be structured into 3 RS latches.
                module dff_nested(input d, ck, pr, clr, output q, nq);
                  wire q1, nq1, nq2;

                  module ff1;
                    nand g1b (nq1, d, clr, q1);
                    nand g1a (q1, ck, nq2, nq1);
                  endmodule
                  ff1 i1();

                  module ff2;
                    wire q2; // This wire can be encapsulated in ff2
                    nand g2b (nq2, ck, clr, q2);
                    nand g2a (q2, nq1, pr, nq2);
                  endmodule
                  ff2 i2();

                  module ff3;
                    nand g3a (q, nq2, clr, nq);
                    nand g3b (nq, q1, pr, q);
                  endmodule
                  ff3 i3();
                endmodule
endmodule
