module t0640;
sequence e2_instantiated;
                  e2(ready,proc1,proc2);
                endsequence
                sequence rule2a;
                  @(posedge sysclk) reset ##1 inst ##1 e2_instantiated.triggered ##1
                branch_back;
                endsequence
endmodule
