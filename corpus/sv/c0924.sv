`define append(f) f``_master
