module t0322;
task wait_20;
                  fork
                    # 20;
                    return ; // Illegal: cannot return; task lives in another process
                  join_none
                endtask
endmodule
