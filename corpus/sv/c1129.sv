import "DPI-C" function void f3(input MyType i [][]);
                  /* 2-dimensional unsized unpacked array of MyType */
