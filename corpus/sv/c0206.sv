module t0206;
initial begin
                  int map[ string ];
                  map[ "hello" ] = 1;
                  map[ "sad" ] = 2;
                  map[ "world" ] = 3;
                  map.delete( "sad" ); // remove entry whose index is "sad" from "map"
                  map.delete;          // remove all entries from the associative array "map"
                end
endmodule
