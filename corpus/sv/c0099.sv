module t0099;
enum integer {IDLE, XX='x, S1, S2} state, next;
endmodule
