module t0677;
property p; not (accept_on(a) p1); endproperty
endmodule
