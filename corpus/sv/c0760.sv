module t0760;
checker check(logic a, b, c, clk, rst);
                  logic x, y, z, v, t;
                  assign x = a; // current value of a
                  always_ff @(posedge clk or negedge rst) // current values of clk and rst
                  begin
                    a1: assert (b); // sampled value of b
                    if (rst) // current value of rst
                      z <= b; // sampled value of b
                    else z <= !c; // sampled value of c
                  end

                  always_comb begin
                    a2: assert (b); // current value of b
                    if (a) // current value of a
                      v = b; // current value of b
                    else v = !b; // current value of b
                  end

                  always_latch begin
                    a3: assert (b); // current value of b
                    if (clk) // current value of clk
                      t <= b; // current value of b
                  end
                  // ...
                endchecker : check
endmodule
