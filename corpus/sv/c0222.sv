module t0222;
initial begin
                  int arr[];
                  int q[$];

                  // find all items equal to their position (index)
                  q = arr.find with ( item == item.index );
                end
endmodule
