module t0714;
property pr1;
                  @(posedge clk) !reset_n |-> !req; // when reset_n is asserted (0),
                                                    // keep req 0
                endproperty
                property pr2;
                  @(posedge clk) ack |=> !req; // one cycle after ack, req
                                               // must be deasserted
                endproperty
                property pr3;
                  @(posedge clk) req |-> req[*1:$] ##0 ack; // hold req asserted until
                                                            // and including ack asserted
                endproperty
endmodule
