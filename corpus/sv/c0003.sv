`macro(A, B, logic, C)
