module t0592;
module dut(input logic clk, input logic a, input logic b);
                  logic c;
                  always_ff @(posedge clk)
                    c <= b;
                  a1: assert #0 (!(a & c)) $display("Pass"); else $display("Fail");
                  a2: assert final (!(a & c)) $display("Pass"); else $display("Fail");
                endmodule

                program tb(input logic clk, output logic a, output logic b);
                  default clocking m @(posedge clk);
                    default input #0;
                    default output #0;
                    output a;
                    output b;
                  endclocking

                  initial begin
                    a = 1;
                    b = 0;
                    ##10;
                    b = 1;
                    ##1;
                    a = 0;
                  end
                endprogram

                module sva_svtb;
                  bit clk;
                  logic a, b;
                  dut dut (.*);
                  tb tb (.*);
                endmodule
endmodule
