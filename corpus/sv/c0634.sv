module t0634;
sequence t1;
                  te1 ## [2:5] te2;
                endsequence
                sequence ts1;
                  first_match(te1 ## [2:5] te2);
                endsequence
endmodule
