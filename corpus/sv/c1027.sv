module t1027;
module top;
                  logic clk;

                  SyncBus b1( clk );
                  SyncBus b2( clk );

                  initial begin
                    VI v[2] = '{ b1, b2 };
                    repeat( 20 )
                      do_it( v[ $urandom_range( 0, 1 ) ] );
                  end
                endmodule
endmodule
