module t0338;
always @* begin // equivalent to @(a or b or c or d)
                  x = a ^ b;
                  @*            // equivalent to @(c or d)
                  x = c ^ d;
                end
endmodule
