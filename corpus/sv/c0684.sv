module t0684;
property check_phase1;
                  s1 |-> (phase1_prop and (1'b1 |=> check_phase2));
                endproperty
                property check_phase2;
                  s2 |-> (phase2_prop and (1'b1 |=> check_phase1));
                endproperty
endmodule
