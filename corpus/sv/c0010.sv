class A; static uvm_pool#(string,uvm_resource#(T)) m_rsc[uvm_component]; endclass
