module t0520;
module ram_model (address, write, chip_select, data);
                  parameter data_width = 8;
                  parameter ram_depth = 256;
                  localparam addr_width = clogb2(ram_depth);
                  input [addr_width - 1:0] address;
                  input write, chip_select;
                  inout [data_width - 1:0] data;

                  //define the clogb2 function
                  function integer clogb2 (input [31:0] value);
                    value = value - 1;
                    for (clogb2 = 0; value > 0; clogb2 = clogb2 + 1)
                      value = value >> 1;
                  endfunction

                  logic [data_width - 1:0] data_store[0:ram_depth - 1];
                    //the rest of the ram model
                endmodule: ram_model
endmodule
