module t0087;
string s0 = "String literal assign";// sets s0 to "String literal assign"
                string s1 = "hello\0world";         // sets s1 to "helloworld"
                bit [11:0] b = 12'ha41;
                string s2 = string'(b);             // sets s2 to 16'h0a41
endmodule
