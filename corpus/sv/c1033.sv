package p;
                  typedef enum { FALSE, TRUE } bool_t;
                endpackage

                package q;
                  typedef enum { ORIGINAL, FALSE } teeth_t;
                endpackage

                module top1 ;
                  import p::*;
                  import q::teeth_t;
                  teeth_t myteeth;
                  initial begin
                    myteeth = q:: FALSE; // OK:
                    myteeth = FALSE; // ERROR: Direct reference to FALSE refers to the
                  end // FALSE enumeration literal imported from p
                endmodule

                module top2 ;
                  import p::*;
                  import q::teeth_t, q::ORIGINAL, q::FALSE;
                  teeth_t myteeth;
                  initial begin
                    myteeth = FALSE; // OK: Direct reference to FALSE refers to the
                  end // FALSE enumeration literal imported from q
                endmodule
