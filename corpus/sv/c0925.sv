`define home(filename) `"/home/mydir/filename`"
