module t0541;
module top;
                  logic phi1, phi2;
                  wire [8:1] cmd; // cannot be logic (two bidirectional drivers)
                  logic [15:0] data;

                  test main (phi1, data, write, phi2, cmd, enable);
                  cpu cpu1 (phi1, data, write);
                  mem mem1 (phi2, cmd, enable);
                endmodule
endmodule
