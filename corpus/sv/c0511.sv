module t0511;
initial begin
                  x = c;
                  y = d;
                  z = e;
                end
endmodule
