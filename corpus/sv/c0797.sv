module t0797;
function int count_ones ( bit [9:0] w );
                  for( count_ones = 0; w != 0; w = w >> 1 )
                    count_ones += w & 1'b1;
                endfunction
endmodule
