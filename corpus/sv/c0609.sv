module t0609;
sequence s1(w, x, y);
                  w ##1 x ##[2:10] y;
                endsequence
                sequence s2(w, y, bit x);
                  w ##1 x ##[2:10] y;
                endsequence
endmodule
