config cfg1; // specify rtl adder for top.a1, gate-level adder for top.a2
                  design rtlLib.top;
                  default liblist rtlLib;
                  instance top.a2 liblist gateLib;
                endconfig
