module t0395;
initial begin
                  struct {
                    int A;
                    struct {
                      int B, C;
                    } BC1, BC2;
                  } ABC, DEF;

                  ABC = '{A:1, BC1:'{B:2, C:3}, BC2:'{B:4,C:5}};
                  DEF = '{default:10};
                end
endmodule
