module t0389;
initial begin
                  unpackedbits = '{2 {y}} ;        // same as '{y, y}
                  int n[1:2][1:3] = '{2{'{3{y}}}}; // same as '{'{y,y,y},'{y,y,y}}
                end
endmodule
