module t0518;
initial begin
                  void'(some_function());
                end
endmodule
