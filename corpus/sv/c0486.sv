module t0486;
initial begin
                  logic [2:0] encode ;

                  case (1)
                    encode[2] : $display("Select Line 2") ;
                    encode[1] : $display("Select Line 1") ;
                    encode[0] : $display("Select Line 0") ;
                    default $display("Error: One of the bits expected ON");
                  endcase
                end
endmodule
