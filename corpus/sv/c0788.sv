module t0788;
class c;
                  rand integer x, y, z;
                  constraint c1 {x inside {3, 5, [9:15], [24:32], [y:2*y], z};}

                  rand integer a, b, c;
                  constraint c2 {a inside {b, c};}

                  integer fives[4] = '{ 5, 10, 15, 20 };
                  rand integer v;
                  constraint c3 { v inside {fives}; }
                endclass
endmodule
