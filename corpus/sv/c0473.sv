module t0473;
initial begin
                  if (index > 0)
                    if (rega > regb)
                      result = rega;
                    else // else applies to preceding if
                      result = regb;
                end
endmodule
