module t0865;
covergroup g1 (int w, string instComment) @(posedge clk) ;
                  // track coverage information for each instance of g1 in addition
                  // to the cumulative coverage information for covergroup type g1
                  option.per_instance = 1;

                  type_option.comment = "Coverage model for features x and y";

                  type_option.strobe = 1; // sample at the end of the time slot

                  // compute type coverage as the merge of all instances
                  type_option.merge_instances = 1;

                  // comment for each instance of this covergroup
                  option.comment = instComment;

                  a : coverpoint a_var
                  {
                    // Use weight 2 to compute the coverage of each instance
                    option.weight = 2;
                    // Use weight 3 to compute the cumulative (type) coverage for g1
                    type_option.weight = 3;
                    // NOTE: type_option.weight = w would cause syntax error.
                  }
                  b : coverpoint b_var
                  {
                    // Use weight w to compute the coverage of each instance
                    option.weight = w;
                    // Use weight 5 to compute the cumulative (type) coverage of g1
                    type_option.weight = 5;
                  }
                endgroup
endmodule
