module t0287;
virtual class XFifo#(type T_in = logic, type T_out = logic, int DEPTH = 1)
                                     extends MyQueue#(T_out)
                                     implements PutImp#(T_in), GetImp#(T_out);
                  pure virtual function T_out translate(T_in a);
                  virtual function void put(T_in a);
                    PipeQueue.push_back(translate(a));
                  endfunction
                  virtual function T_out get();
                    get = PipeQueue.pop_front();
                  endfunction
                endclass
endmodule
