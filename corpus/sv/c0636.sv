module t0636;
sequence burst_rule1;
                  @(posedge mclk)
                    $fell(burst_mode) ##0
                    ((!burst_mode) throughout (##2 ((trdy==0)&&(irdy==0)) [*7]));
                endsequence
endmodule
