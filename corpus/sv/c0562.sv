module t0562;
initial begin
                  @(negedge dom.sig1 or posedge dom.sig1);
                end
endmodule
