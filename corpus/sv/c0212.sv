module t0212;
initial begin
                  string aa[int];
                  byte ix;
                  int status;
                  aa[ 1000 ] = "a";
                  status = aa.first( ix );
                    // status is –1
                    // ix is 232 (least significant 8 bits of 1000)
                end
endmodule
