module t0713;
a1_assertion:assert property ( @(posedge clk) req inside {0, 1} ) ;
                property proto_assertion ;
                  @(posedge clk) req |-> req[*1:$] ##0 ack;
                endproperty
endmodule
