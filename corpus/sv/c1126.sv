module secret (a, b);
                  input a;
                  output b;
                  `pragma protect encoding=(enctype="raw")
                  `pragma protect data_method="x-caesar", data_keyname="rot13",
                  begin_protected
                  `pragma protect encoding=(enctype="raw", bytes=190), data_block
                  //`centzn cebgrpg ehagvzr_yvprafr=(yvoenel="yvp.fb",srngher="ehaFrperg",
                  //ragel="pux",zngpu=42)
                  //  ert o;
                  //  vavgvny
                  //    ortva
                  //      o = 0;
                  //    raq

                  //  nyjnlf
                  //    ortva
                  //      #5 o = n;
                  //    raq
                  `pragma protect end_protected
                  `pragma reset protect
                endmodule // secret
