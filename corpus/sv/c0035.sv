module E;
                  timeunit 100ps / 10fs; // timeunit with optional second argument
                endmodule
