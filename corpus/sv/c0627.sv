module t0627;
always_ff @(posedge clk1)
                  reg1 <= $rose(b, @(posedge clk2));
endmodule
