module t0630;
a1: assert property (@($global_clock) $changing_gclk(sig)
                                                 |-> $falling_gclk(clk))
                else $error("sig is not stable");
endmodule
