module t0447;
logic [3:0] a;
                logic [5:0] b;
                logic [15:0] c;

                initial begin
                  a = 4'hF;
                  b = 6'hA;
                  $display("a*b=%h", a*b); // expression size is self-determined
                  c = {a**b};              // expression a**b is self-determined
                                           // due to concatenation operator {}
                  $display("a**b=%h", c);
                  c = a**b;                // expression size is determined by c
                  $display("c=%h", c);
                end
endmodule
