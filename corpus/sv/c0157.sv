module t0157;
struct { bit [7:0] opcode; bit [23:0] addr; }IR; // anonymous structure
                                                                 // defines variable IR
                initial begin
                  IR.opcode = 1; // set field in IR.
                end

                typedef struct {
                  bit [7:0] opcode;
                  bit [23:0] addr;
                } instruction; // named structure type
                instruction IR; // define variable
endmodule
