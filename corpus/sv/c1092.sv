module t1092;
specify
                  $recrem( posedge clear, posedge clk, tREC, tREM );
                endspecify
endmodule
