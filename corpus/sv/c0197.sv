module t0197;
string b[4:1];       // OK: same type and size
                string b[5:2];       // OK: same type and size (different range)
                string b[] = new[4]; // OK: same type, number of dimensions, and
                                     // dimension size; requires run-time check
endmodule
