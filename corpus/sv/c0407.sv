module t0407;
alias bus16 = {high12, bus16[3:0]} = {bus16[15:12], low12};
endmodule
