module t0328;
initial begin
                  labelB: fork // label before the begin or fork
                  join_none : labelB
                end
endmodule
