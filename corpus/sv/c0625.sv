module t0625;
always @(posedge clk)
                  if (enable) q <= d;

                always @(posedge clk)
                assert property (done |=> (out == $past(q, 2,enable)) );
endmodule
