module t0861;
covergroup yy;
                  cross a, b
                  {
                    ignore_bins ignore = binsof(a) intersect { 5, [1:3] };
                  }
                endgroup
endmodule
