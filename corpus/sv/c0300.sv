module t0300;
interface class PutImp#(type T = logic);
                  pure virtual function void put(T a);
                endclass

                interface class GetImp#(type T = logic);
                  pure virtual function T get();
                endclass

                interface class PutGetIntf#(type TYPE = logic)
                                            extends PutImp#(TYPE), GetImp#(TYPE);
                  typedef TYPE T;
                endclass
endmodule
