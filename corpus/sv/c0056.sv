module t0056;
a = add (* mode = "cla" *) (b, c);
endmodule
