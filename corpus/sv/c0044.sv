module t0044;
byte c3 [0:12] = "hello world\n" ;
endmodule
