module t0150;
struct {bit[7:0] a; shortint b;} a;
                int b = int'(a);

                // Illegal conversion from 20-bit struct to int (32 bits) - run time error
                struct {bit a[$]; shortint b;} a = {{1,2,3,4}, 67};
                int b = int'(a);

                // Illegal conversion from int (32 bits) to struct dest_t (25 or 33 bits),
                // compile time error
                typedef struct {byte a[$]; bit b;} dest_t;
                int a;
                dest_t b = dest_t'(a);
endmodule
