module t0298;
interface class IntfBase1;
                  pure virtual function bit funcBase();
                endclass

                interface class IntfBase2;
                  pure virtual function bit funcBase();
                endclass

                virtual class ClassBase;
                  pure virtual function bit funcBase();
                endclass

                class ClassExt extends ClassBase implements IntfBase1, IntfBase2;
                  virtual function bit funcBase();
                    return (0);
                  endfunction
                endclass
endmodule
