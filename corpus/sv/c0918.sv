`define D(x,y) initial $display("start", x , y, "end");
