module t0519;
module tryfact;
                  // define the function
                  function automatic integer factorial (input [31:0] operand);
                    if (operand >= 2)
                      factorial = factorial (operand - 1) * operand;
                    else
                      factorial = 1;
                  endfunction: factorial

                  // test the function
                  integer result;
                  initial begin
                    for (int n = 0; n <= 7; n++) begin
                      result = factorial(n);
                      $display("%0d factorial=%0d", n, result);
                    end
                  end
                endmodule: tryfact
endmodule
