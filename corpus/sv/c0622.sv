module t0622;
initial begin
                  $past(in1, , enable);
                end
endmodule
