module a; initial begin #a.b; end endmodule
