module t0860;
module mod_m;
                  logic [31:0] a, b;

                  covergroup cg(int cg_lim);
                    coverpoint a;
                    coverpoint b;
                    aXb : cross a, b
                    {
                      function CrossQueueType myFunc1(int f_lim);
                        for (int i = 0; i < f_lim; ++i)
                          myFunc1.push_back('{i,i});
                      endfunction

                      bins one = myFunc1(cg_lim);
                      bins two = myFunc2(cg_lim);

                      function CrossQueueType myFunc2(logic [31:0] f_lim);
                        for (logic [31:0] i = 0; i < f_lim; ++i)
                          myFunc2.push_back('{2*i,2*i});
                      endfunction
                    }
                  endgroup

                  cg cg_inst = new(3);
                endmodule
endmodule
