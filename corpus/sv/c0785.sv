module t0785;
typedef enum bit [1:0] { A=2'b00, B=2'b11 } ab_e;
                typedef struct packed {
                  ab_e ValidAB;
                } VStructEnum;
                typedef union packed {
                  ab_e ValidAB;
                } VUnionEnum;
endmodule
