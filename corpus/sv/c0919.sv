`define MACRO1(a=5,b="B",c) $display(a,,b,,c);
                `define MACRO2(a=5, b, c="C") $display(a,,b,,c);
                `define MACRO3(a=5, b=0, c="C") $display(a,,b,,c);
