module t0090;
event done;            // declare a new event called done
                event done_too = done; // declare done_too as alias to done
                event empty = null;    // event variable with no synchronization object
endmodule
