module t0558;
initial begin
                  @(negedge dom.sign[a]);
                end
endmodule
