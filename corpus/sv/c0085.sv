module t0085;
parameter string default_name = "John Smith";
                string myName = default_name;
endmodule
