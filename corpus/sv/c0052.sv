module t0052;
typedef int triple [1:3];
endmodule
