module t0402;
initial begin
                  typedef int T_QI[$];
                  T_QI jagged_array[$] = '{ {1}, T_QI'{2,3,4}, {5,6} };
                    // jagged_array[0][0] = 1 -- jagged_array[0] is a queue of 1 int
                    // jagged_array[1][0] = 2 -- jagged_array[1] is a queue of 3 ints
                    // jagged_array[1][1] = 3
                    // jagged_array[1][2] = 4
                    // jagged_array[2][0] = 5 -- jagged_array[2] is a queue of 2 ints
                    // jagged_array[2][1] = 6
                end
endmodule
