module t1098;
specify
                  $setup( data, posedge clk, 10, notifier ) ;
                  $width( posedge clk, 16, 0, notifier ) ;
                endspecify
endmodule
