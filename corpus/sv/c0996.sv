module t0996;
program test ( interface device_ifc );
                endprogram
endmodule
