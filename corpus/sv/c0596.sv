module t0596;
always @(a or b or c) begin : b2
                  if (c == 8'hff) begin
                    a2: assert #0 (a && b);
                  end else begin
                    a3: assert #0 (a || b);
                  end
                end

                always @(clear_b2) begin : b3
                  disable b2;
                end
endmodule
