module t0621;
always @(posedge clk)
                  reg1 <= a & $rose(b);
endmodule
