module test(); specify $setup(posedge CSB, edge[01,0x,x1,1x] CL, tps, a); endspecify endmodule
