module t0777;
typedef enum { cover_none, cover_all } coverage_level;
                checker assert_window2 (
                  logic test_expr,      // Expression to be true in the window
                  sequence start_event, // Window opens at the completion of the start_event
                  sequence end_event,   // Window closes at the completion of the end_event
                  event clock = $inferred_clock,
                  logic reset = $inferred_disable,
                  string error_msg = "violation",
                  coverage_level clevel = cover_all // This argument should be bound to an
                                                    // elaboration time constant expression
                );
                  default clocking @clock; endclocking
                  default disable iff reset;
                  bit window = 0;
                  let start_flag = start_event.triggered;
                  let end_flag = end_event.triggered;

                  // Compute next value of window
                  function bit next_window (bit win);
                    if (reset || win && end_flag)
                      return 1'b0;
                    if (!win && start_flag)
                      return 1'b1;
                    return win;
                  endfunction

                  always_ff @clock
                    window <= next_window(window);

                  property p_window;
                    start_flag && !window |=> test_expr[+] ##0 end_flag;
                  endproperty

                  a_window: assert property (p_window) else $error(error_msg);

                  generate if (clevel != cover_none) begin : cover_b
                    cover_window_open: cover property (start_flag && !window)
                    $display("window_open covered");
                    cover_window: cover property (
                      start_flag && !window
                      ##1 (!end_flag && window) [*]
                      ##1 end_flag && window
                    ) $display("window covered");
                    end : cover_b
                  endgenerate
                endchecker : assert_window2
endmodule
