module t0837;
covergroup cg; endgroup
                cg cg_inst = new;
endmodule
