module t1109;
specify
                  $setup (data, clk &&& cond1, tsetup, ntfr);
                  $hold (clk, data &&& cond1, thold, ntfr);
                endspecify
endmodule
