module t0737;
module m(logic a, b, c, d, rst1, clk1, clk2);
                  logic rst;

                  default clocking @(negedge clk1); endclocking
                  default disable iff rst1;

                  property p_triggers(start_event, end_event, form, clk = $inferred_clock,
                                      rst = $inferred_disable);
                    @clk disable iff (rst)
                      (start_event ##0 end_event[->1]) |=> form;
                  endproperty

                  property p_multiclock(clkw, clkx = $inferred_clock, clky, w, x, y, z);
                    @clkw w ##1 @clkx x |=> @clky y ##1 z;
                  endproperty

                  a1: assert property (p_triggers(a, b, c));
                  a2: assert property (p_triggers(a, b, c, posedge clk1, 1'b0) );

                  always @(posedge clk2 or posedge rst) begin
                  end

                  a4: assert property(p_multiclock(negedge clk2, , posedge clk1,
                                      a, b, c, d) );
                endmodule
endmodule
