module t0706;
sequence e1;
                  @(posedge sysclk) $rose(a) ##1 b ##1 c;
                endsequence

                sequence e2;
                  @(posedge sysclk) reset ##1 inst ##1 e1.triggered ##1 branch_back;
                endsequence

                sequence e3;
                  @(posedge clk) reset1 ##1 e1.matched ##1 branch_back1;
                endsequence

                sequence e2_with_arg(sequence subseq);
                  @(posedge sysclk) reset ##1 inst ##1 subseq.triggered ##1 branch_back;
                endsequence

                sequence e4;
                  e2_with_arg(@(posedge sysclk) $rose(a) ##1 b ##1 c);
                endsequence

                program check;
                  initial begin
                    wait (e1.triggered || e2.triggered);
                    if (e1.triggered)
                      $display("e1 passed");
                    if (e2.triggered)
                      $display("e2 passed");
                  end
                endprogram
endmodule
