module t0901;
initial begin
                  integer code ;
                  code = $fscanf ( fd, format, args );
                  code = $sscanf ( str, format, args );
                end
endmodule
