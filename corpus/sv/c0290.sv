module t0290;
interface class IntfA #(type T1 = logic);
                  typedef T1[1:0] T2;
                  pure virtual function T2 funcA();
                endclass : IntfA

                interface class IntfB #(type T = bit) extends IntfA #(T);
                  pure virtual function T2 funcB(); // legal, type T2 is inherited
                endclass : IntfB
endmodule
