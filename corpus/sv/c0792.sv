module t0792;
class C;
                  rand int A[] ;

                  constraint c1 { A.size inside {[1:10]}; }
                  constraint c2 { foreach ( A[ k ] ) (k < A.size - 1) -> A[k + 1] > A[k]; }
                endclass
endmodule
