module t0583;
initial begin
                  event E1, E2;
                  if ( E1 ) // same as if ( E1 != null )
                    E1 = E2;
                  if ( E1 == E2 )
                    $display( "E1 and E2 are the same event" );
                end
endmodule
