module t1096;
specify
                  $width (posedge clk, 6, 0, ntfr_reg);
                endspecify
endmodule
