module t0365;
wire mynet ;
                assign (strong1, pull0) mynet = enable;
endmodule
