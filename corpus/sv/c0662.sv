module t0662;
property data_end_rule2;
                  @(posedge mclk) ##[1:2] $rose(frame) ##1 $rose(irdy);
                endproperty
                a3: assert property(data_end_rule2);
endmodule
