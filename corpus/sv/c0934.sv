`begin_keywords "1800-2005" // use IEEE Std 1800-2005 SystemVerilog keywords
                module m2;
                  reg [63:0] logic; // ERROR: "logic" is a keyword in 1800-2005
                endmodule
                `end_keywords
