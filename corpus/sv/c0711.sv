module t0711;
property abc(a, b, c);
                  disable iff (c) @(posedge clk) a |=> b;
                endproperty
                env_prop:
                  assume property (abc(req, gnt, rst)) else $error("Assumption failed.");
endmodule
