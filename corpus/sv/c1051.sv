module t1051;
module dimm(addr, ba, rasx, casx, csx, wex, cke, clk, dqm, data, dev_id);
                  parameter [31:0] MEM_WIDTH = 16, MEM_SIZE = 8; // in mbytes
                  input [10:0] addr;
                  input ba, rasx, casx, csx, wex, cke, clk;
                  input [ 7:0] dqm;
                  inout [63:0] data;
                  input [ 4:0] dev_id;
                  genvar i;

                  case ({MEM_SIZE, MEM_WIDTH})
                    {32'd8, 32'd16}: // 8Meg x 16 bits wide
                      begin: memory
                        for (i=0; i<4; i=i+1) begin:word16
                          sms_08b216t0 p(.clk(clk), .csb(csx), .cke(cke),.ba(ba),
                                         .addr(addr), .rasb(rasx), .casb(casx),
                                         .web(wex), .udqm(dqm[2*i+1]), .ldqm(dqm[2*i]),
                                         .dqi(data[15+16*i:16*i]), .dev_id(dev_id));
                          // The hierarchical instance names are:
                          // memory.word16[3].p, memory.word16[2].p,
                          // memory.word16[1].p, memory.word16[0].p,
                          // and the task memory.read_mem
                        end
                        task read_mem;
                          input [31:0] address;
                          output [63:0] data;
                          begin // call read_mem in sms module
                            word16[3].p.read_mem(address, data[63:48]);
                            word16[2].p.read_mem(address, data[47:32]);
                            word16[1].p.read_mem(address, data[31:16]);
                            word16[0].p.read_mem(address, data[15: 0]);
                          end
                        endtask
                      end
                    {32'd16, 32'd8}: // 16Meg x 8 bits wide
                      begin: memory
                        for (i=0; i<8; i=i+1) begin:word8
                          sms_16b208t0 p(.clk(clk), .csb(csx), .cke(cke),.ba(ba),
                                         .addr(addr), .rasb(rasx), .casb(casx),
                                         .web(wex), .dqm(dqm[i]),
                                         .dqi(data[7+8*i:8*i]), .dev_id(dev_id));
                          // The hierarchical instance names are
                          // memory.word8[7].p, memory.word8[6].p,
                          // ...
                          // memory.word8[1].p, memory.word8[0].p,
                          // and the task memory.read_mem
                        end
                        task read_mem;
                          input [31:0] address;
                          output [63:0] data;
                          begin // call read_mem in sms module
                            word8[7].p.read_mem(address, data[63:56]);
                            word8[6].p.read_mem(address, data[55:48]);
                            word8[5].p.read_mem(address, data[47:40]);
                            word8[4].p.read_mem(address, data[39:32]);
                            word8[3].p.read_mem(address, data[31:24]);
                            word8[2].p.read_mem(address, data[23:16]);
                            word8[1].p.read_mem(address, data[15: 8]);
                            word8[0].p.read_mem(address, data[ 7: 0]);
                          end
                        endtask
                      end
                    // Other memory cases ...
                  endcase
                endmodule
endmodule
