module t0391;
initial begin
                  struct {int a; time b;} abkey[1:0];
                  abkey = '{'{a:1, b:2ns}, '{int:5, time:$time}};
                end
endmodule
