module t1104;
module DFF (Q, CLK, DAT);
                  input CLK;
                  input [7:0] DAT;
                  output [7:0] Q;
                  always @(posedge clk)
                    Q = DAT;
                  specify
                    $setup (DAT, posedge CLK, 10);
                  endspecify
                endmodule
endmodule
