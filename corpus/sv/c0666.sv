module t0666;
property p1;
                  nexttime a;
                endproperty

                // the clock shall tick once more and a shall be true at the next clock tick.
                property p2;
                  s_nexttime a;
                endproperty

                // as long as the clock ticks, a shall be true at each future clock tick
                // starting from the next clock tick
                property p3;
                  nexttime always a;
                endproperty

                // the clock shall tick at least once more and as long as it ticks, a shall
                // be true at every clock tick starting from the next one
                property p4;
                  s_nexttime always a;
                endproperty

                // if the clock ticks at least once more, it shall tick enough times for a to
                // be true at some point in the future starting from the next clock tick
                property p5;
                  nexttime s_eventually a;
                endproperty

                // a shall be true sometime in the strict future
                property p6;
                  s_nexttime s_eventually a;
                endproperty

                // if there are at least two more clock ticks, a shall be true at the second
                // future clock tick
                property p7;
                  nexttime[2] a;
                endproperty

                // there shall be at least two more clock ticks, and a shall be true at the
                // second future clock tick
                property p8;
                  s_nexttime[2] a;
                endproperty
endmodule
