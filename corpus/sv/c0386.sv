module t0386;
initial begin
                  typedef logic [1:0] [3:0] T;
                  a = shortint'({T'{1,2}, T'{3,4}}); // yields 16'sh1234
                end
endmodule
