module t0342;
sequence abc;
                  @(posedge clk) a ##1 b ##1 c;
                endsequence

                program test;
                  initial begin
                    @ abc $display( "Saw a-b-c" );
                  end
                endprogram
endmodule
