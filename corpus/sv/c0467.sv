module t0467;
assign d[2] = (!m.a || m.b && m.c[0]);
endmodule
