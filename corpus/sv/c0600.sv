module t0600;
base_rule1: assert property (cont_prop(rst,in1,in2)) $display("%m, passing");
                             else $display("%m, failed");
endmodule
