module t0776;
typedef enum { cover_none, cover_all } coverage_level;
                checker assert_window1 (
                  logic test_expr,     // Expression to be true in the window
                  untyped start_event, // Window opens at the completion of the start_event
                  untyped end_event,   // Window closes at the completion of the end_event
                  event clock = $inferred_clock,
                  logic reset = $inferred_disable,
                  string error_msg = "violation",
                  coverage_level clevel = cover_all // This argument should be bound to an
                                                    // elaboration time constant expression
                );
                  default clocking @clock; endclocking
                  default disable iff reset;
                  bit window = 1'b0, next_window = 1'b1;

                  // Compute next value of window
                  always_comb begin
                    if (reset || window && end_event)
                      next_window = 1'b0;
                    else if (!window && start_event)
                      next_window = 1'b1;
                    else
                      next_window = window;
                  end

                  always_ff @clock
                    window <= next_window;

                  property p_window;
                    start_event && !window |=> test_expr[+] ##0 end_event;
                  endproperty

                  a_window: assert property (p_window) else $error(error_msg);

                  generate if (clevel != cover_none) begin : cover_b
                    cover_window_open: cover property (start_event && !window)
                    $display("window_open covered");
                    cover_window: cover property (
                      start_event && !window
                      ##1 (!end_event && window) [*]
                      ##1 end_event && window
                    ) $display("window covered");
                    end : cover_b
                  endgenerate
                endchecker : assert_window1
endmodule
