module t0231;
Packet p = new;
endmodule
