module t0755;
checker my_check4 (input logic in,
                                   en = 1'b1, // default value
                                   event clock,
                                   output int ctr = 0); // initial value
                  default clocking @clock; endclocking
                  always_ff @clock
                    if (en && in) ctr <= ctr + 1;
                  a1: assert property (ctr < 5);
                endchecker : my_check4
endmodule
