module t0243;
class Demo ;
                  integer x;

                  function new (integer x);
                    this.x = x;
                  endfunction
                endclass
endmodule
