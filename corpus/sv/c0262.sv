module t0262;
virtual class BasePacket;
                  pure virtual function integer send(bit[31:0] data); // No implementation
                endclass

                class EtherPacket extends BasePacket;
                  virtual function integer send(bit[31:0] data);
                    // body of the function
                  endfunction
                endclass
endmodule
