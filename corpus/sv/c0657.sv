module t0657;
property p3;
                  b ##1 c;
                endproperty

                c1: cover property (@(posedge clk) a #-# p3);
                a1: assert property (@(posedge clk) a |-> p3);
endmodule
