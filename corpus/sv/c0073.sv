module t0073;
trireg (large) logic #(0,0,0) cap1;
                typedef logic [31:0] addressT;
                wire addressT w1;
                wire struct packed { logic ecc; logic [7:0] data; } memsig;
endmodule
