module t0403;
module byte_swap (inout wire [31:0] A, inout wire [31:0] B);
                  alias {A[7:0],A[15:8],A[23:16],A[31:24]} = B;
                endmodule
endmodule
