module t0766;
checker observer_model(bit valid, reset);
                  default clocking @($global_clock); endclocking
                  rand bit flag;

                  m1: assume property (reset |=> !flag);
                  m2: assume property (!reset && flag |=> flag);
                  m3: assume property ($rising_gclk(flag) |-> valid);
                endchecker : observer_model
endmodule
