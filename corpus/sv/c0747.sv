module t0747;
module examples_with_default (input logic a, b, c, clk);
                  property q1;
                    $rose(a) |-> ##[1:5] b;
                  endproperty

                  property q2;
                    @(posedge clk) q1;
                  endproperty

                  default clocking posedge_clk @(posedge clk);
                    property q3;
                      $fell(c) |=> q1;
                      // legal: q1 has no clocking event
                    endproperty

                    property q4;
                      $fell(c) |=> q2;
                      // legal: q2 has clocking event identical to that of
                      // the clocking block
                    endproperty

                    sequence s1;
                      @(posedge clk) b[*3];
                      // illegal: explicit clocking event in clocking block
                    endsequence
                  endclocking

                  property q5;
                    @(negedge clk) b[*3] |=> !b;
                  endproperty

                  always @(negedge clk)
                  begin
                    a1: assert property ($fell(c) |=> q1);
                      // legal: contextually inferred leading clocking event,
                      // @(negedge clk)
                    a2: assert property (posedge_clk.q4);
                      // legal: will be queued (pending) on negedge clk, then
                      // (if matured) checked at next posedge clk (see 16.14.6)
                    a3: assert property ($fell(c) |=> q2);
                      // illegal: multiclocked property with contextually
                      // inferred leading clocking event
                    a4: assert property (q5);
                      // legal: contextually inferred leading clocking event,
                      // @(negedge clk)
                  end

                  property q6;
                    q1 and q5;
                  endproperty

                  a5: assert property (q6);
                    // illegal: default leading clocking event, @(posedge clk),
                    // but semantic leading clock is not unique
                  a6: assert property ($fell(c) |=> q6);
                    // legal: default leading clocking event, @(posedge clk),
                    // is the unique semantic leading clock

                  sequence s2;
                    $rose(a) ##[1:5] b;
                  endsequence

                  c1: cover property (s2);
                    // legal: default leading clocking event, @(posedge clk)
                  c2: cover property (@(negedge clk) s2);
                    // legal: explicit leading clocking event, @(negedge clk)
                endmodule

                module examples_without_default (input logic a, b, c, clk);
                  property q1;
                    $rose(a) |-> ##[1:5] b;
                  endproperty

                  property q5;
                    @(negedge clk) b[*3] |=> !b;
                  endproperty

                  property q6;
                    q1 and q5;
                  endproperty

                  a5: assert property (q6);
                    // illegal: no leading clocking event
                  a6: assert property ($fell(c) |=> q6);
                    // illegal: no leading clocking event

                  sequence s2;
                    $rose(a) ##[1:5] b;
                  endsequence

                  c1: cover property (s2);
                    // illegal: no leading clocking event
                  c2: cover property (@(negedge clk) s2);
                    // legal: explicit leading clocking event, @(negedge clk)

                  sequence s3;
                    @(negedge clk) s2;
                  endsequence

                  c3: cover property (s3);
                    // legal: leading clocking event, @(negedge clk),
                    // determined from declaration of s3
                  c4: cover property (s3 ##1 b);
                    // illegal: no default, inferred, or explicit leading
                    // clocking event and maximal property is not an instance
                endmodule
endmodule
