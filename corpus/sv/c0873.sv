`timescale 10 ns / 1 ns
                module test;
                  logic set;
                  parameter p = 1.55;
                  initial begin
                    $monitor($realtime,,"set=", set);
                    #p set = 0;
                    #p set = 1;
                  end
                endmodule
