module t0695;
property rule5;
                  @(posedge clk)
                  a ##1 (b || c)[->1] |->
                    if (b)
                      (##1 d |-> e)
                    else // c
                      f ;
                endproperty
endmodule
