module t0332;
real AOR[];                       // dynamic array of reals
                byte stream[$];                   // queue of bytes
                initial wait(AOR.size() > 0);     // waits for array to be allocated
                initial wait($bits(stream) > 60); // waits for total number of bits
                                                  // in stream greater than 60

                Packet p = new; // Packet 1 -- Packet is defined in 8.2
                Packet q = new; // Packet 2
                initial fork
                  @(p.status); // Wait for status in Packet 1 to change
                  @p;          // Wait for a change to handle p
                  # 10 p = q;  // triggers @p.
                  // @(p.status) now waits for status in Packet 2 to change,
                  // if not already different from Packet 1
                join
endmodule
