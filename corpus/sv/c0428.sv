module t0428;
initial begin
                  logic [2:0] val;
                  while ( val inside {3'b1?1} ) ; // matches 3'b101, 3'b111, 3'b1x1, 3'b1z1
                end
endmodule
