module t0261;
virtual class BasePacket;
                endclass
endmodule
