module t0267;
class Base;
                  typedef enum {bin,oct,dec,hex} radix;
                  static task print( radix r, integer n ); endtask
                endclass

                initial begin
                  Base b = new;
                  int bin = 123;
                  b.print( Base::bin, bin ); // Base::bin and bin are different
                  Base::print( Base::hex, 66 );
                end
endmodule
