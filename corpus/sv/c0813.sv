module t0813;
class Packet;
                  rand integer source_value, dest_value;
                endclass

                initial begin
                  int ret;
                  Packet packet_a = new;
                  // Turn off all variables in object
                  packet_a.rand_mode(0);
                  // ... other code
                  // Enable source_value
                  packet_a.source_value.rand_mode(1);
                  ret = packet_a.dest_value.rand_mode();
                end
endmodule
