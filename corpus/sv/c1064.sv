module t1064;
and #(10) a1 (out, in1, in2);          // only one delay
                and #(10,12) a2 (out, in1, in2);       // rise and fall delays
                bufif0 #(10,12,11) b3 (out, in, ctrl); // rise, fall, and turn-off delays
endmodule
