module t0907;
initial begin
                  integer code;
                  code = $feof ( fd );
                end
endmodule
