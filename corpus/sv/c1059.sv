module t1059;
pmos p1 (out, data, control);
endmodule
