module t0304;
typedef class C2; // C2 is declared to be of type class
                class C1;
                  C2 c;
                endclass
                class C2;
                  C1 c;
                endclass
endmodule
