module t0729;
always @(posedge clk) begin
                  int i = 10;
                  for (i=0; i<10; i++) begin
                    a8: assert property (foo[const'(i)] && bar[i]) else
                      $error("a8 failed for const i=%d and i=%d",
                        const'(i), $sampled(i));
                  end
                end
endmodule
