module t1061;
cmos (w, datain, ncontrol, pcontrol);
endmodule
