module t0694;
property rule4;
                  @(posedge clk) a[*2] |-> ((##[1:3] c) and (d |=> e));
                endproperty
endmodule
