module t0361;
task get_first( output int adr );
                  fork
                    wait_device( 1, adr );
                    wait_device( 7, adr );
                    wait_device( 13, adr );
                  join_any
                  disable fork;
                endtask
endmodule
