module t0663;
property write_to_addr;
                  (write_en & data_valid) ##0
                  (write_en && (retire_address[0:4]==addr)) [*2] |->
                  ##[3:8] write_en && !data_valid &&(write_address[0:4]==addr);
                endproperty
endmodule
