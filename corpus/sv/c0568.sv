module t0568;
bit v;
                default clocking cb @(posedge clk);
                  output v;
                endclocking

                initial begin
                  ##1;                   // Wait until cycle 1
                  cb.v <= expr1;         // Matures in cycle 1, v is assigned expr1
                  cb.v <= ##2 expr2;     // Matures in cycle 3
                  #1 cb.v <= ##2 expr3;  // Matures in cycle 3
                  ##1 cb.v <= ##1 expr4; // Matures in cycle 3, v is assigned expr4
                end
endmodule
