module t0158;
struct packed signed {
                  int a;
                  shortint b;
                  byte c;
                  bit [7:0] d;
                } pack1; // signed, 2-state

                struct packed unsigned {
                  time a;
                  integer b;
                  logic [31:0] c;
                } pack2; // unsigned, 4-state
endmodule
