module t0978;
module generic_fifo
                  #(MSB=3, LSB=0) // parameter port list parameters
                   (input wire [MSB:LSB] in,
                    input wire clk, read, write, reset,
                    output logic [MSB:LSB] out,
                    output logic full, empty );

                  parameter DEPTH=4; // module item parameter

                  localparam FIFO_MSB = DEPTH*MSB;
                  localparam FIFO_LSB = LSB;
                    // These constants are local, and cannot be overridden.
                    // They can be affected by altering the value parameters above

                  logic [FIFO_MSB:FIFO_LSB] fifo;
                  logic [LOG2(DEPTH):0] depth;

                  always @(posedge clk or posedge reset) begin
                    //casez ({read,write,reset})
                    //  // implementation of fifo
                    //endcase
                  end
                endmodule
endmodule
