module t0692;
property rule1;
                  @(posedge clk) a |-> b ##1 c ##1 d;
                endproperty
                property rule2;
                  @(clkev) disable iff (e) a |-> not(b ##1 c ##1 d);
                endproperty
endmodule
