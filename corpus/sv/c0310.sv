module t0310;
always #half_period areg = ~areg;
endmodule
