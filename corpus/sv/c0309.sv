module t0309;
always areg = ~areg;
endmodule
