module t0142;
A = cast_t1'(expr_1) + cast_t2'(expr_2);
endmodule
