module t0350;
initial begin
                  a = repeat(num) @(clk) data;
                end
endmodule
