module t0111;
initial begin
                  typedef enum { red, green, blue, yellow } Colors;
                  Colors c = c.first;
                  forever begin
                    $display( "%s : %d\n", c.name, c );
                    if( c == c.last ) break;
                    c = c.next;
                  end
                end
endmodule
