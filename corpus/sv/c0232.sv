module t0232;
class Packet;
                  integer command;

                  function new();
                    command = IDLE;
                  endfunction
                endclass
endmodule
