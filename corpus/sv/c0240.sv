module t0240;
Packet p;
                c = $fgetc( p.fileID );
endmodule
