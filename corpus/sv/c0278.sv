module t0278;
typedef vector my_vector; // use default size of 1
                vector#(6) vx;            // use size 6
endmodule
