module t0077;
nettype T wT;

                // a nettype wTsum whose data type is T and
                // resolution function is Tsum
                // Refer to example in 6.6.7 for the declaration of Tsum
                nettype T wTsum with Tsum;

                // a net of unresolved nettype wT
                wT w1;

                // an array of nets, each net element is of unresolved nettype wT
                wT w2[8];

                // a net of resolved nettype wTsum and resolution function Tsum
                wTsum w3;

                // an array of nets, each net is of resolved nettype wTsum
                wTsum w4[8];

                // user-defined data type TR which is an array of reals
                typedef real TR[5];

                // an unresolved nettype wTR with data type TR
                nettype TR wTR;

                // a net with unresolved nettype wTR and data type TR
                wTR w5;

                // an array of nets, each net has an unresolved nettype wTR
                // and data type TR
                wTR w6[8];
endmodule
