module t0347;
initial begin
                  fork // data swap
                    a = #5 b;
                    b = #5 a;
                  join
                end
endmodule
