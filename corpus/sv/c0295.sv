module t0295;
initial begin
                  GetImp#(int) get_ref;
                  Fifo#(int) fifo_obj = new;
                  PutImp#(int) put_ref = fifo_obj;
                  $cast(get_ref, put_ref);
                end
endmodule
