module t0482;
initial begin
                  case (select[1:2])
                    2'b00: result = 0;
                    2'b01: result = flaga;
                    2'b0x,
                    2'b0z: result = flaga ? 'x : 0;
                    2'b10: result = flagb;
                    2'bx0,
                    2'bz0: result = flagb ? 'x : 0;
                    default result = 'x;
                  endcase
                end
endmodule
