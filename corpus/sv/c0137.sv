module t0137;
bit [9:0] A [0:5];
                bit [1:10] B [6];
                typedef bit [10:1] uint10;
                uint10 C [6:1];          // A, B and C have equivalent types
                typedef int anint [0:0]; // anint is not type equivalent to int
endmodule
