module t0983;
module my_mem (addr, data);
                  parameter addr_width = 16;
                  localparam mem_size = 1 << addr_width;
                  parameter data_width = 8;
                endmodule

                module top;
                  my_mem #(12, 16) m(addr,data);
                endmodule
endmodule
