module t1015;
interface I;
                  logic [7:0] r;
                  const int x=1;
                  bit R;
                  modport A (output .P(r[3:0]), input .Q(x), R);
                  modport B (output .P(r[7:4]), input .Q(2), R);
                endinterface

                module M ( interface i);
                  initial i.P = i.Q;
                endmodule

                module top;
                  I i1 ();
                  M u1 (i1.A);
                  M u2 (i1.B);
                  initial #1 $display("%b", i1.r); // displays 00100001
                endmodule
endmodule
