module t0826;
initial begin
                  randsequence( main )
                    main   : first second done ;
                    first  : add | dec ;
                    second : pop | push ;
                    done   : { $display("done"); } ;
                    add    : { $display("add");  } ;
                    dec    : { $display("dec");  } ;
                    pop    : { $display("pop");  } ;
                    push   : { $display("push"); } ;
                  endsequence
                end
endmodule
