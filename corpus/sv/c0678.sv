module t0678;
property p; accept_on(a) reject_on(b) p1; endproperty
endmodule
