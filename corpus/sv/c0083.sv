module t0083;
int unsigned ui;
                int signed si;
endmodule
