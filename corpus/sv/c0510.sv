module t0510;
initial begin
                  a = v;
                  b = w;
                  c = x;
                end
endmodule
