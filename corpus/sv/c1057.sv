module t1057;
buf b1 (out1, out2, in);
endmodule
