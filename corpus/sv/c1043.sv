module t1043;
module mod_a;
                  genvar i;
                  // "generate", "endgenerate" keywords are not required
                  for (i=0; i<5; i=i+1) begin:a
                    for (i=0; i<5; i=i+1) begin:b
                    end
                  end
                endmodule

                module mod_b;
                  genvar i;
                  logic a;
                  for (i=1; i<0; i=i+1) begin: a
                  end
                endmodule

                module mod_c;
                  genvar i;
                  for (i=1; i<5; i=i+1) begin: a
                  end
                  for (i=10; i<15; i=i+1) begin: a
                  end
                endmodule
endmodule
