module t0451;
initial begin
                  typedef union tagged {
                    struct {
                      bit [4:0] reg1, reg2, regd;
                    } Add;
                    union tagged {
                      bit [9:0] JmpU;
                      struct {
                        bit [1:0] cc;
                        bit [9:0] addr;
                      } JmpC;
                    } Jmp;
                  } Instr;

                  Instr i1, i2;

                  // Create an Add instruction with its 3 register fields
                  i1 = ( e
                    ? tagged Add '{ e1, 4, ed }                  // struct members by position
                    : tagged Add '{ reg2:e2, regd:3, reg1:19 }); // by name (order irrelevant)

                  // Create a Jump instruction, with "unconditional" sub-opcode
                  i1 = tagged Jmp (tagged JmpU 239);

                  // Create a Jump instruction, with "conditional" sub-opcode
                  i2 = tagged Jmp (tagged JmpC '{ 2, 83 });         // inner struct by position
                  i2 = tagged Jmp (tagged JmpC '{ cc:2, addr:83 }); // by name
                end
endmodule
