module t0789;
class c;
                  rand byte a[5];
                  rand byte b;
                  rand byte excluded;
                  constraint u { unique {b, a[2:3], excluded}; }
                  constraint exclusion { excluded == 5; }
                endclass
endmodule
