package NetsPkg;
                  nettype real realNet;
                endpackage : NetsPkg
