module t0914;
initial begin
                  #10 $dumpvars();

                  #200 $dumpoff;

                  #800 $dumpon;

                  #900 $dumpoff;
                end
endmodule
