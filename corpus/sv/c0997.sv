module t0997;
module test;
                  int shared; // variable shared by programs p1 and p1
                  program p1;
                  endprogram
                  program p2;
                  endprogram // p1 and p2 are implicitly instantiated once in module test
                endmodule
endmodule
