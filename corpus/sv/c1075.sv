primitive dff1 (q, clk, d);
                  input clk, d;
                  output q; reg q;
                  initial q = 1'b1;
                  table
                    // clk d q q+
                    r 0 : ? : 0 ;
                    r 1 : ? : 1 ;
                    f ? : ? : - ;
                    ? * : ? : - ;
                  endtable
                endprimitive

                module dff (q, qb, clk, d);
                  input clk, d;
                  output q, qb;
                  dff1 g1 (qi, clk, d);
                  buf #3 g2 (q, qi);
                  not #5 g3 (qb, qi);
                endmodule
