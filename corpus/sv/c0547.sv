module t0547;
program test(input logic clk, input logic [15:0] data);
                  default clocking bus @(posedge clk);
                    inout data;
                  endclocking

                  initial begin
                    ## 5;
                    if (bus.data == 10)
                      ## 1;
                  end
                endprogram
endmodule
