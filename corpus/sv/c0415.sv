module t0415;
initial begin
                  integer intS;
                  var logic [15:0] U;
                  var logic signed [15:0] S;

                  intS = -4'd12;
                  U = intS / 3;      // expression result is -4,
                                     // intS is an integer data type, U is 65532

                    U = -4'd12;      // U is 65524
                  intS = U / 3;      // expression result is 21841,
                                     // U is a logic data type

                  intS = -4'd12 / 3; // expression result is 1431655761.
                                     // -4'd12 is effectively a 32-bit logic data type

                  U = -12 / 3;       // expression result is -4, -12 is effectively
                                     // an integer data type. U is 65532

                  S = -12 / 3;       // expression result is -4. S is a signed logic

                  S = -4'sd12 / 3;   // expression result is 1. -4'sd12 is actually 4.
                                     // The rules for integer division yield 4/3==1
                end
endmodule
