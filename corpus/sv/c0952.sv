module t0952;
module generic_fifo
                #(parameter MSB=3, LSB=0, DEPTH=4) // these parameters can be redefined
                  (input wire [MSB:LSB] in,
                   input wire clk, read, write, reset,
                   output logic [MSB:LSB] out,
                   output logic full, empty );
                endmodule
endmodule
