module t0190;
int A[10:1]; // fixed-size array of 10 elements
                int B[0:9];  // fixed-size array of 10 elements
                int C[24:1]; // fixed-size array of 24 elements
                A = B;       // ok. Compatible type and same size
                A = C;       // type check error: different sizes
endmodule
