module t0352;
initial begin
                  a <= repeat(a+b) @(edge phi1) data;
                end
endmodule
