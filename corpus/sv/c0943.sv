module t0943;
module mixed_direction (.p({a, e}));
                  input a; // p contains both input and output directions.
                  output e;
                endmodule
endmodule
