module t0916;
module dump;
                  event do_dump;
                  initial $dumpfile("verilog.dump");
                  initial @do_dump
                    $dumpvars; //dump variables in the design

                  always @do_dump //to begin the dump at event do_dump
                    begin
                      $dumpon; //no effect the first time through
                      repeat (500) @(posedge clock); //dump for 500 cycles
                      $dumpoff; //stop the dump
                    end

                  initial @(do_dump)
                    forever #10000 $dumpall; // checkpoint all variables
                endmodule
endmodule
