module t0879;
logic [3:0][2:1] n [1:5][2:8];
                typedef logic [3:0][2:1] packed_reg;
                packed_reg n[1:5][2:8]; // same dimensions as in the lines above
endmodule
