module t0426;
initial begin
                  int n = 3;
                  string s = {n { "boo " }};
                  $display( "%s\n", s ); // displays 'boo boo boo '
                end
endmodule
