module t0730;
always @(posedge clk) begin
                  if (en) begin
                    a9: assert property (p1(a,b,c));
                  end
                  if ($sampled(en)) begin
                    a10: assert property (p1(a,b,c));
                  end
                end
endmodule
