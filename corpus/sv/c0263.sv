module t0263;
class c;
                  virtual function integer send(bit[31:0] data); // Will return 'x
                  endfunction
                endclass
endmodule
