module t1007;
interface simple_bus (input logic clk); // Define the interface
                  logic req, gnt;
                  logic [7:0] addr, data;
                  logic [1:0] mode;
                  logic start, rdy;
                endinterface: simple_bus

                module memMod(simple_bus a); // Uses just the interface
                  logic avail;
                  always @(posedge a.clk)    // the clk signal from the interface
                    a.gnt <= a.req & avail;  // a.req is in the 'simple_bus' interface
                endmodule

                module cpuMod(simple_bus b);
                endmodule

                module top;
                  logic clk = 0;

                  simple_bus sb_intf1(clk);  // Instantiate the interface
                  simple_bus sb_intf2(clk);  // Instantiate the interface

                  memMod mem1(.a(sb_intf1)); // Reference simple_bus 1 to memory 1
                  cpuMod cpu1(.b(sb_intf1));
                  memMod mem2(.a(sb_intf2)); // Reference simple_bus 2 to memory 2
                  cpuMod cpu2(.b(sb_intf2));
                endmodule
endmodule
