module t0101;
enum {a=3, b=7, c} alphabet;
endmodule
