module t0143;
cast_t1 temp1;
                cast_t2 temp2;

                temp1 = expr_1;
                temp2 = expr_2;
                A = temp1 + temp2;
endmodule
