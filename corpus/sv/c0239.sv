module t0239;
class Packet ;
                  static integer fileID = $fopen( "data", "r" );
                endclass
endmodule
