module A; always begin a[ a_a[i] ].b <= c; end endmodule
