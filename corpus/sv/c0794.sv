module t0794;
class A; // leaf node
                  rand bit [7:0] v;
                endclass

                class B extends A; // heap node
                  rand A left;
                  rand A right;

                  constraint heapcond {left.v <= v; right.v > v;}
                endclass
endmodule
