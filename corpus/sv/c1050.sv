module t1050;
generate
                  case (WIDTH)
                    1: begin: adder // 1-bit adder implementation
                         adder_1bit x1(co, sum, a, b, ci);
                       end
                    2: begin: adder // 2-bit adder implementation
                         adder_2bit x1(co, sum, a, b, ci);
                       end
                    default:
                      begin: adder // others - carry look-ahead adder
                        adder_cla #(WIDTH) x1(co, sum, a, b, ci);
                      end
                  endcase
                  // The hierarchical instance name is adder.x1
                endgenerate
endmodule
