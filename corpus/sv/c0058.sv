module t0058;
trireg a;                         // trireg net of charge strength medium
                trireg (large) #(0,0,50) cap1;    // trireg net of charge strength large
                                                  // with charge decay time 50 time units
                trireg (small) signed [3:0] cap2; // signed 4-bit trireg vector of
                                                  // charge strength small
endmodule
