module t0383;
logic [7:0] a;
                logic signed [7:0] b;
                logic signed [5:0] c, d;

                initial begin
                  a = 8'hff;
                  c = a;     // After the assignment, c = 6'h3f
                  b = -113;
                  d = b;     // After the assignment, d = 6'h0f
                end
endmodule
