module t1093;
specify
                  $removal( posedge clear, posedge clk, tREM );
                  $recovery( posedge clear, posedge clk, tREC );
                endspecify
endmodule
