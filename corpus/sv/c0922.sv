`define TOP(a,b) a + b
