module t0441;
initial begin
                  localparam p = 7;
                  reg [7:0] m [5:1][5:1];
                  integer i;

                  a = m[1][i]; // longest static prefix is m[1]

                  a = m[p][1]; // longest static prefix is m[p][1]

                  a = m[i][1]; // longest static prefix is m
                end
endmodule
