`timescale 10 ns / 1 ns
                module test;
                  logic set;
                  parameter d = 1.55;

                  initial begin
                    #d set = 0;
                    #d set = 1;
                  end
                endmodule
