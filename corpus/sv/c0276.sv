module t0276;
stack is;             // default: a stack of ints
                stack#(bit[1:10]) bs; // a stack of 10-bit vectors
                stack#(real) rs;      // a stack of real numbers
endmodule
