module t0825;
initial begin
                  byte a, b;
                  randcase
                    a + b : x = 1;
                    a - b : x = 2;
                    a ^ ~b : x = 3;
                    12'h800 : x = 4;
                  endcase
                end
endmodule
