module t0576;
event done, blast;     // declare two new events
                event done_too = done; // declare done_too as alias to done

                task trigger( event ev );
                  -> ev;
                endtask

                initial begin
                  fork
                    @ done_too;         // wait for done through done_too
                    #1 trigger( done ); // trigger done through task trigger
                  join

                  fork
                    -> blast;
                    wait ( blast.triggered );
                  join
                end
endmodule
