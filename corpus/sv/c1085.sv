module t1085;
specify
                  // Specify Parameters
                  specparam tRise_clk_q = 45:150:270, tFall_clk_q=60:200:350;
                  specparam tRise_Control = 35:40:45, tFall_control=40:50:65;

                  // Module Path Assignments
                  (clk => q) = (tRise_clk_q, tFall_clk_q);
                  (clr, pre *> q) = (tRise_control, tFall_control);
                endspecify
endmodule
