module t0815;
class CA;
                  rand byte x, y;
                  byte v, w;
                  constraint c1 { x < v && y > w; };
                endclass

                initial begin
                  CA a = new;
                  a.randomize();       // random variables: x, y state variables: v, w
                  a.randomize( x );    // random variables: x    state variables: y, v, w
                  a.randomize( v, w ); // random variables: v, w state variables: x, y
                  a.randomize( w, x ); // random variables: w, x state variables: y, v
                end
endmodule
