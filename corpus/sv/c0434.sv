module t0434;
initial begin
                  q = {<<byte{p.header, p.len, p.payload with [0 : p.len-1], p.crc}};
                end
endmodule
