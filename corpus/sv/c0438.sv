module t0438;
initial begin
                  logic [7:0] vect;
                  vect = 4; // fills vect with the pattern 00000100
                            // msb is bit 7, lsb is bit 0
                end
endmodule
