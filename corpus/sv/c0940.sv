module t0940;
module same_port (.a(i), .b(i));
                  // Name 'i' is declared inside the module as an inout port.
                  // Names 'a' and 'b' are defined for port connections.
                endmodule
endmodule
