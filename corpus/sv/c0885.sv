module t0885;
module test;
                  logic clk;
                  logic a, b;
                  logic c, d;

                  // Define lets to make the code more readable.
                  let LOCK = 1;
                  let UNLOCK = 2;
                  let ON = 3;
                  let OFF = 4;
                  let KILL = 5;

                  let CONCURRENT = 1;
                  let S_IMMEDIATE = 2; // simple immediate
                  let D_IMMEDIATE = 12; // Final and Observed deferred immediate
                  let EXPECT = 16;
                  let UNIQUE = 32; // unique if and case violation
                  let UNIQUE0 = 64; // unique0 if and case violation
                  let PRIORITY = 128; // priority if and case violation
                  let ASSERT = 1;
                  let COVER = 2;
                  let ASSUME = 4;

                  let ALL_DIRECTIVES = (ASSERT|COVER|ASSUME);
                  let ALL_ASSERTS = (CONCURRENT|S_IMMEDIATE|D_IMMEDIATE|EXPECT);

                  let VACUOUSOFF = 11;

                  a1: assert property (@(posedge clk) a |=> b) $info("assert passed");
                      else $error("assert failed");
                  c1: cover property (@(posedge clk) a ##1 b);

                  always @(posedge clk) begin
                    ia1: assert (a);
                  end

                  always_comb begin
                    if (c)
                      df1: assert #0 (d);
                    unique if ((a==0) || (a==1)) $display("0 or 1");
                    else if (a == 2) $display("2");
                    else if (a == 4) $display("4"); // values 3,5,6,7 cause a violation
                                                    // report
                  end

                  initial begin
                    // The following systasks affect the whole design so no modules
                    // are specified

                    // Disable vacuous pass action for all the concurrent asserts,
                    // covers and assumes in the design. Also disable vacuous pass
                    // action for expect statements.
                    $assertcontrol(VACUOUSOFF, CONCURRENT | EXPECT);

                    // Disable concurrent and immediate asserts and covers.
                    // This will also disable violation reporting.
                    // The following systask does not affect expect
                    // statements as control type is Off.
                    $assertcontrol(OFF); // using default values of all the
                                         // arguments after first argument

                    // After 20 time units, enable assertions,
                    // This will not enable violation reporting.
                    // explicitly specifying second, third and fourth arguments
                    // in the following task call
                    #20 $assertcontrol(ON, CONCURRENT|S_IMMEDIATE|D_IMMEDIATE,
                                       ASSERT|COVER|ASSUME, 0);

                    // Enable violation reporting after 20 time units.
                    #20 $assertcontrol(ON, UNIQUE|UNIQUE0|PRIORITY);

                    // Kill currently executing concurrent assertions after
                    // 100 time units but do not kill concurrent covers/assumes
                    // and immediate/deferred asserts/covers/assumes
                    // using appropriate values of second and third arguments.
                    #100 $assertcontrol(KILL, CONCURRENT, ASSERT, 0);

                    // The following assertion control task does not have any effect as
                    // directive_type is assert but it has selected cover directive c1.
                    #10 $assertcontrol(ON, CONCURRENT|S_IMMEDIATE|D_IMMEDIATE, ASSERT, 0,
                                       c1);

                    // Now, after 10 time units, enable all the assertions except a1.
                    // To accomplish this, first we’ll lock a1 and then we’ll enable all
                    // the assertions and then unlock a1 as we want future assertion
                    // control tasks to affect a1.
                    #10 $assertcontrol(LOCK, ALL_ASSERTS, ALL_DIRECTIVES, 0, a1);
                    $assertcontrol(ON); // enable all the assertions except a1
                    $assertcontrol(UNLOCK, ALL_ASSERTS, ALL_DIRECTIVES, 0, a1);
                  end
                endmodule
endmodule
