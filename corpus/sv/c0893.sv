module t0893;
module printval;
                  logic [11:0] r1;
                  initial begin
                    r1 = 10;
                    $display( "Printing with maximum size - :%d: :%h:", r1,r1 );
                    $display( "Printing with minimum size - :%0d: :%0h:", r1,r1 );
                  end
                endmodule
endmodule
