module t0938;
module complex_ports ( {c,d}, .e(f) );
                  // Nets {c,d} receive the first port bits.
                  // Name 'f' is declared inside the module.
                  // Name 'e' is defined outside the module.
                  // Cannot use named port connections of first port
                endmodule
endmodule
