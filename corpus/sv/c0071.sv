module cmp
                  import NetsPkg::*;
                  #(parameter real hyst = 0.65)
                  (input realNet [0:1] inA,
                   input logic rst,
                   output logic out);
                  timeunit 1ns / 1ps;
                  real updatePeriod = 100.0;

                  initial out = 1'b0;

                  always #updatePeriod begin
                    if (rst) out <= 1'b0;
                    else if (inA[0] > inA[1]) out <= 1'b1;
                    else if (inA[0] < inA[1] - hyst) out <= 1'b0;
                  end
                endmodule : cmp
