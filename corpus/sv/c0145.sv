module t0145;
typedef struct {
                  bit isfloat;
                  union { int i; shortreal f; } n; // anonymous type
                } tagged_st;                       // named structure

                typedef bit [$bits(tagged_st) - 1 : 0] tagbits; // tagged_st defined above

                tagged_st a [7:0];                 // unpacked array of structures

                tagbits t = tagbits'(a[3]);        // convert structure to array of bits
                a[4] = tagged_st'(t);              // convert array of bits back to structure
endmodule
