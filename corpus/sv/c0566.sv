module t0566;
default clocking pe @(posedge clk);
                  output nibble; // four bit output
                endclocking

                initial begin
                  ##2;
                  pe.nibble <= 4'b0101;
                  pe.nibble <= 4'b0011;
                end
endmodule
