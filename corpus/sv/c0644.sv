module t0644;
property e;
                  int x;
                  (valid_in, x = pipe_in) |-> ##5 (pipe_out1 == (x+1));
                endproperty
endmodule
