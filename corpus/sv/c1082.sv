module t1082;
specify
                  if (reset)
                    (posedge clk => ( q[0] : data ) ) = (15, 8);
                  if (!reset && cntrl)
                    (posedge clk => ( q[0] : data ) ) = (6, 2);
                endspecify
endmodule
