interface intf_i;
                  typedef int data_t;
                endinterface

                module sub(intf_i p);
                  typedef p.data_t my_data_t;
                  my_data_t data;
                    // type of 'data' will be int when connected to interface above
                endmodule
