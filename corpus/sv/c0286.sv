module t0286;
interface class PutImp#(type PUT_T = logic);
                  pure virtual function void put(PUT_T a);
                endclass

                interface class GetImp#(type GET_T = logic);
                  pure virtual function GET_T get();
                endclass

                class MyQueue #(type T = logic, int DEPTH = 1);
                  T PipeQueue[$:DEPTH-1];
                  virtual function void deleteQ();
                    PipeQueue.delete();
                  endfunction
                endclass

                class Fifo #(type T = logic, int DEPTH = 1)
                    extends MyQueue#(T, DEPTH)
                    implements PutImp#(T), GetImp#(T);
                  virtual function void put(T a);
                    PipeQueue.push_back(a);
                  endfunction
                  virtual function T get();
                    get = PipeQueue.pop_front();
                  endfunction
                endclass
endmodule
