module t0086;
byte c = "A";                // assigns to c "A"
                bit [10:0] b = "\x41";       // assigns to b 'b000_0100_0001
                bit [1:4][7:0] h = "hello" ; // assigns to h "ello"
endmodule
