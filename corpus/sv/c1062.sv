module t1062;
nmos (w, datain, ncontrol);
                pmos (w, datain, pcontrol);
endmodule
