module t0331;
initial begin
                  @r rega = regb;                       // controlled by any value change in the reg r
                  @(posedge clock) rega = regb;         // controlled by posedge on clock
                  forever @(negedge clock) rega = regb; // controlled by negedge on clock
                  forever @(edge clock) rega = regb;    // controlled by edge on clock
                end
endmodule
