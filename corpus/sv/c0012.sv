class a; function a b(); return this.a.b(); endfunction endclass
