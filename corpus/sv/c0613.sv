module t0613;
cover property (@(posedge clk) x ##1 y);
endmodule
