import "DPI-C" function void f1(input logic [127:0]);
                import "DPI-C" function void f2(logic [127:0] i []); //open array of 128-bit
