module t0039;
initial begin
$display("Humpty Dumpty sat on a wall.\n\
                Humpty Dumpty had a great fall.");
end
endmodule
