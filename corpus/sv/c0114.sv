module mc #(int N = 5, M = N*16, type T = int, T x = 0)
                ();
                endmodule
