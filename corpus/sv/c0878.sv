module t0878;
typedef bit[$bits(MyType):1] MyBits; //same as typedef bit [9:1] MyBits;
                MyBits b;
endmodule
