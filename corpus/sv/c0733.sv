module t0733;
default clocking @(posedge clk); endclocking
                always_comb begin : b1
                  c1: cover property (const'(b) != const'(a));
                end
endmodule
