module t1017;
module dev1(A_Bus.DUT b); // Some device: Part of the design
                endmodule

                module dev2(A_Bus.DUT b); // Some device: Part of the design
                endmodule

                module top;
                  logic clk;
                  A_Bus b1( clk );
                  A_Bus b2( clk );
                  dev1 d1( b1 );
                  dev2 d2( b2 );
                  T tb( b1, b2 );
                endmodule

                program T (A_Bus.STB b1, A_Bus.STB b2 ); // testbench: 2 synchronous ports
                  assert property (b1.sb.p1); // assert property from within program

                  initial begin
                    b1.sb.req <= 1;
                    wait( b1.sb.gnt == 1 );
                    b1.sb.req <= 0;
                    b2.sb.req <= 1;
                    wait( b2.sb.gnt == 1 );
                    b2.sb.req <= 0;
                  end
                endprogram
endmodule
