module t0515;
function [3:0][7:0] myfunc4(input [3:0][7:0] a, b[3:0]);
                endfunction
endmodule
