module t1054;
module busdriver (busin, bushigh, buslow, enh, enl);
                  input [15:0] busin;
                  output [ 7:0] bushigh, buslow;
                  input enh, enl;

                  driver busar3 (busin[15:12], bushigh[7:4], enh);
                  driver busar2 (busin[11:8], bushigh[3:0], enh);
                  driver busar1 (busin[7:4], buslow[7:4], enl);
                  driver busar0 (busin[3:0], buslow[3:0], enl);
                endmodule

                module busdriver_equiv (busin, bushigh, buslow, enh, enl);
                  input [15:0] busin;
                  output [ 7:0] bushigh, buslow;
                  input enh, enl;

                  driver busar[3:0] (.out({bushigh, buslow}), .in(busin),
                                     .en({enh, enh, enl, enl}));
                endmodule
endmodule
