module t0471;
module m(input clock);
                  logic a;
                  let p1(x) = $past(x);
                  let p2(x) = $past(x,,,@(posedge clock));
                  let s(x) = $sampled(x);
                  always_comb begin
                    a1: assert(p1(a));
                    a2: assert(p2(a));
                    a3: assert(s(a));
                  end
                  a4: assert property(@(posedge clock) p1(a));
                endmodule : m
endmodule
