module t0863;
covergroup g1 (int w, string instComment) @(posedge clk) ;
                  // track coverage information for each instance of g1 in addition
                  // to the cumulative coverage information for covergroup type g1
                  option.per_instance = 1;

                  // comment for each instance of this covergroup
                  option.comment = instComment;

                  a : coverpoint a_var
                  {
                    // Create 128 automatic bins for coverpoint “a” of each instance of g1
                    option.auto_bin_max = 128;
                  }
                  b : coverpoint b_var
                  {
                    // This coverpoint contributes w times as much to the coverage of an
                    // instance of g1 as coverpoints "a" and "c1"
                    option.weight = w;
                  }
                  c1 : cross a_var, b_var ;
                endgroup
endmodule
