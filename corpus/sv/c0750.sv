module t0750;
integer data;
                task automatic wait_for( integer value, output bit success );
                expect( @(posedge clk) ##[1:10] data == value ) success = 1;
                  else success = 0;
                endtask

                initial begin
                  bit ok;
                  wait_for( 23, ok ); // wait for the value 23
                end
endmodule
