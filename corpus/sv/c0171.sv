module t0171;
bit [3:0] [7:0] joe [1:10]; // 10 elements of 4 8-bit bytes
                                            // (each element packed into 32 bits)
endmodule
