module t1032;
import ComplexPkg::Complex;
                import ComplexPkg::add;
endmodule
