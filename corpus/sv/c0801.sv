module t0801;
class D;
                  int x;
                endclass

                class C;
                  rand int x, y;
                  D a, b;
                  constraint c1 { (x < y && a.x > b.x && a.x == 5 ) -> x+y == 10; }
                endclass
endmodule
