module t0824;
initial begin
                  randcase
                    3 : x = 1;
                    1 : x = 2;
                    4 : x = 3;
                  endcase
                end
endmodule
