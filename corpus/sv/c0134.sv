module t0134;
typedef byte signed MY_CHAR; // MY_CHAR matches the byte type
endmodule
