module t0649;
sequence sub_seq2(lv);
                  (a ##1 !a, lv = data_in) ##1 !b[*0:$] ##1 b && (data_out == lv);
                endsequence
                sequence seq2;
                  int v1;
                  c ##1 sub_seq2(v1) // v1 is bound to lv
                  ##1 (do1 == v1);   // v1 holds the value that was assigned to lv
                endsequence
endmodule
