module t0387;
initial begin
                  typedef byte U[3];
                  var U A = '{1, 2, 3};
                  var byte a, b, c;
                  U'{a, b, c} = A;
                  U'{c, a, b} = '{a+1, b+1, c+1};
                end
endmodule
