module t0544;
clocking dram @(posedge phi1);
                  inout data;
                  output negedge #1 address;
                endclocking
endmodule
