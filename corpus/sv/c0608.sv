module t0608;
sequence s1;
                  @(posedge sysclk) (x ##1 s2);
                endsequence
                sequence s2;
                  @(posedge sysclk) (y ##1 s1);
                endsequence
endmodule
