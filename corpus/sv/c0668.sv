module t0668;
initial explicit_always: assert property(always p);
endmodule
