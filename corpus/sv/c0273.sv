module t0273;
class vector #(int size = 1);
                  bit [size-1:0] a;
                endclass
endmodule
