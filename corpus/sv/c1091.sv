module t1091;
specify
                  $setup( data, posedge clk, tSU );
                  $hold( posedge clk, data, tHLD );
                endspecify
endmodule
