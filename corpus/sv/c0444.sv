module t0444;
initial begin
                  answer = (a + b) >> 1; // will not work properly
                end
endmodule
