module t1102;
specify
                  $setup( data, posedge clk &&& (~clr), 10 ) ;
                  $setup( data, posedge clk &&& (clr===0), 10 );
                endspecify
endmodule
