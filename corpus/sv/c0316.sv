module t0316;
initial begin
                  areg = breg;
                  creg = areg; // creg stores the value of breg
                end
endmodule
