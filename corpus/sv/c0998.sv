module t0998;
module m;
                  logic r;
                  wire dw1, dw2;

                  initial begin
                    r = 0;
                    #10 r = 1;
                  end

                  assign dw1 = r;

                  p p_i(dw2, dw1);

                  always @(dw2)
                    $display("dw2 is %b", dw2);
                endmodule

                program p(output pw2, input pw1);
                  assign pw2 = pw1;
                endprogram
endmodule
