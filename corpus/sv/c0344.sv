module t0344;
sequence abc;
                  @(posedge clk) a ##1 b ##1 c;
                endsequence

                sequence de;
                  @(negedge clk) d ##[2:5] e;
                endsequence

                program check;
                  initial begin
                    wait( abc.triggered || de.triggered );
                    if( abc.triggered )
                      $display( "abc succeeded" );
                    if( de.triggered )
                      $display( "de succeeded" );
                  end
                endprogram
endmodule
