module t0527;
task read(int j = 0, int k, int data = 1 );
                endtask
endmodule
