module t0413;
initial begin
                  a[i]+=2; // same as a[i] = a[i] +2;
                end
endmodule
