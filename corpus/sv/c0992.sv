module t0992;
bind cpu: cpu1, cpu2, cpu3 fpu_props fpu_rules_1(a, b, c);
endmodule
