module t0772;
checker check1(bit a, b, event clk);
                  rand bit x, y, z, v;
                  assign x = a & b; // Illegal
                  always_comb
                    y = a & b; // Illegal
                  always_ff @clk
                    z <= a & b; // OK
                endchecker : check1
endmodule
