module t0384;
initial begin
                  var int A[N] = '{default:1};
                  var integer i = '{31:1, 23:1, 15:1, 8:1, default:0};

                  typedef struct {real r, th;} C;
                  var C x = '{th:PI/2.0, r:1.0};
                  var real y [0:1] = '{0.0, 1.1}, z [0:9] = '{default: 3.1416};
                end
endmodule
