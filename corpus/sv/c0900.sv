module t0900;
initial begin
                  integer code;
                  code = $fgets ( str, fd );
                end
endmodule
