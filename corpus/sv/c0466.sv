module t0466;
module top;
                  logic a, b;
                  // let x = a || b;
                  sequence s;
                    (top.a || top.b) ##1 b;
                  endsequence : s
                endmodule : top
endmodule
