`timescale 1 ns / 1 ps
