module t0831;
initial begin
                  randsequence()
                    WRITE : SETUP DATA ;
                    SETUP : { if( fifo_length >= max_length ) break; } COMMAND ;
                  endsequence
                end
endmodule
