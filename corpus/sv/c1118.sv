config cfg1;
                  design rtlLib.top ;
                  default liblist aLib rtlLib;
                endconfig
