module t0460;
task write_value;
                  input logic [31:0] addr;
                  input logic [31:0] value;
                endtask

                let addr = top.block1.unit1.base + top.block1.unit2.displ;

                initial begin
                  write_value(addr, 0);
                end
endmodule
