module t0095;
typedef C;
                C::T x;           // illegal; C is an incomplete forward type
                typedef C::T c_t; // legal; reference to C::T is made by a typedef
                c_t y;
                class C;
                  typedef int T;
                endclass
endmodule
