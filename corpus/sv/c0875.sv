`timescale 1 ms / 1 ns
                module cntrl;
                  initial
                    $timeformat(-9, 5, " ns", 10);
                endmodule

                `timescale 1 fs / 1 fs
                module a1_dat;
                  logic in1;
                  integer file;
                  buf #10000000 (o1,in1);
                  initial begin
                    file = $fopen("a1.dat");
                    #00000000 $fmonitor(file,"%m: %t in1=%d o1=%h", $realtime,in1,o1);
                    #10000000 in1 = 0;
                    #10000000 in1 = 1;
                  end
                endmodule

                `timescale 1 ps / 1 ps
                module a2_dat;
                  logic in2;
                  integer file2;
                  buf #10000 (o2,in2);
                  initial begin
                    file2=$fopen("a2.dat");
                    #00000 $fmonitor(file2,"%m: %t in2=%d o2=%h",$realtime,in2,o2);
                    #10000 in2 = 0;
                    #10000 in2 = 1;
                  end
                endmodule
