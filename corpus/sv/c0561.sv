module t0561;
initial begin
                  @(edge dom.sig1);
                end
endmodule
