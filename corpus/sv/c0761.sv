module t0761;
checker clocking_example (logic sig1, sig2, default_clk, rst,
                                          event e1, e2, e3 );
                  bit local_sig;
                  default clocking @(posedge default_clk); endclocking

                  always_ff @(e1) begin: p1_block
                    p1a: assert property (sig1 == sig2);
                    p1b: assert property (@(e1) (sig1 == sig2));
                  end
                  always_ff @(e2 or e3) begin: p2_block
                    local_sig <= rst;
                    p2a: assert property (sig1 == sig2);
                    p2b: assert property (@(e2) (sig1 == sig2));
                  end
                  always_ff @(rst or e3) begin: p3_block
                    local_sig <= rst;
                    p3a: assert property (sig1 == sig2);
                    p3b: assert property (@(e3) (sig1 == sig2));
                  end
                endchecker

                clocking_example c1 (s1, s2, default_clk, rst,
                                     posedge clk1 or posedge clk2,
                                     posedge clk1,
                                     negedge rst);
endmodule
