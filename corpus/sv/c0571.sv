module t0571;
initial begin
                  semaphore smTx;
                end
endmodule
