module t0302;
interface class IntfBase #(type T = int);
                  pure virtual function bit funcBase();
                endclass

                interface class IntfExt1 extends IntfBase#(bit);
                  pure virtual function bit funcExt1();
                endclass

                interface class IntfExt2 extends IntfBase#(logic);
                  pure virtual function bit funcExt2();
                endclass

                interface class IntfFinal extends IntfExt1, IntfExt2;
                  typedef bit T; // Override the conflicting identifier name
                  pure virtual function bit funcBase();
                endclass
endmodule
