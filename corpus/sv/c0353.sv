module t0353;
initial begin : test
                  fork
                    child1();
                    child2();
                  join_none
                  do_test();
                end : test

                task do_test();
                  fork
                    child3();
                    child4();
                    fork : child5 // nested fork-join_none is a child process
                      descendant1();
                      descendant2();
                    join_none
                  join_none
                  do_sequence();
                  wait fork; // block until child1 ... child7 complete
                endtask

                function void do_sequence();
                  fork
                    child6();
                    child7();
                  join_none
                endfunction
endmodule
