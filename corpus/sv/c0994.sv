module t0994;
bind targetmod
                mycheck #(.param1(const4), .param2(8'h44))
                i_mycheck(.*, .p1(f1({v1, 1'b0, b1.c}, v2 & v3)), .p2(top.v4));
endmodule
