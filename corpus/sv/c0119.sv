module t0119;
interface quiet_time_checker #(parameter min_quiet = 0,
                                               parameter max_quiet = 0)
                                              (input logic clk, reset_n, logic [1:0]en);

                  generate
                    if ( max_quiet == 0) begin
                      property quiet_time;
                        @(posedge clk) reset_n |-> ($countones(en) == 1);
                      endproperty
                      a1: assert property (quiet_time);
                    end
                    else begin
                      property quiet_time;
                        @(posedge clk)
                          (reset_n && ($past(en) != 0) && en == 0)
                          |->(en == 0)[*min_quiet:max_quiet]
                        ##1 ($countones(en) == 1);
                      endproperty
                      a1: assert property (quiet_time);
                    end
                    if ((min_quiet == 0) && ($isunbounded(max_quiet)))
                      $warning(warning_msg);
                  endgenerate
                endinterface

                quiet_time_checker #(0, 0) quiet_never (clk,1,enables);
                quiet_time_checker #(2, 4) quiet_in_window (clk,1,enables);
                quiet_time_checker #(0, $) quiet_any (clk,1,enables);
endmodule
