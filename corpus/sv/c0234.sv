module t0234;
Packet p = new(STARTUP, $random, $time);
endmodule
