module t0499;
initial begin
                  begin : count1s
                    logic [7:0] tempreg;
                    count = 0;
                    tempreg = data;
                    while (tempreg) begin
                      if (tempreg[0])
                        count++;
                      tempreg >>= 1;
                    end
                  end
                end
endmodule
