module t1030;
program T (A_Bus.STB b1, A_Bus.STB b2 ); // Testbench: 2 synchronous ports
                  typedef virtual A_Bus.STB SYNCTB;

                  task request( SYNCTB s );
                    s.sb.req <= 1;
                  endtask

                  task wait_grant( SYNCTB s );
                    wait( s.sb.gnt == 1 );
                  endtask

                  task drive(SYNCTB s, logic [7:0] adr, data );
                    if( s.sb.gnt == 0 ) begin
                      request(s); // acquire bus if needed
                      wait_grant(s);
                    end
                    s.sb.addr = adr;
                    s.sb.data = data;
                    repeat(2) @s.sb;
                    s.sb.req = 0; //release bus
                  endtask

                  assert property (b1.sb.p1); // assert property from within program

                  initial begin
                    drive( b1, $random, $random );
                    drive( b2, $random, $random );
                  end
                endprogram
endmodule
