module t0526;
task automatic show ( const ref byte data [] );
                  for ( int j = 0; j < data.size ; j++ )
                    $display( data[j] ); // data can be read but not written
                endtask
endmodule
