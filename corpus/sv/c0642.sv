module t0642;
sequence zero_or_one_req;
                  (req==1'b1)[*0:1];
                endsequence
endmodule
