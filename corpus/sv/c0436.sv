module t0436;
initial begin
                  logic [31: 0] a_vect;
                  logic [0 :31] b_vect;
                  logic [63: 0] dword;
                  integer sel;

                  a = a_vect[ 0 +: 8]; // == a_vect[ 7 : 0]
                  a = a_vect[15 -: 8]; // == a_vect[15 : 8]

                  a = b_vect[ 0 +: 8]; // == b_vect[0 : 7]
                  a = b_vect[15 -: 8]; // == b_vect[8 :15]

                  a = dword[8*sel +: 8]; // variable part-select with fixed width
                end
endmodule
