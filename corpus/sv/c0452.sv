module t0452;
initial begin
                  x = i1.Add.reg1;
                  i1.Add = '{19, 4, 3};
                  i1.Add.reg2 = 4;
                end
endmodule
