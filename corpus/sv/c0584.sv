module t0584;
initial begin
                  assert_f: assert(f) $info("passed"); else $error("failed");
                  assume_inputs: assume (in_a || in_b) $info("assumption holds");
                  else $error("assumption does not hold");
                  cover_a_and_b: cover (in_a && in_b) $info("in_a && in_b == 1 covered");
                end
endmodule
