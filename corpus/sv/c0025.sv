module mux2to1 (input wire a, b, sel, // combined port and type declaration
                                output logic y);
                  always_comb begin // procedural block
                    if (sel) y = a; // procedural statement
                    else y = b;
                  end
                endmodule: mux2to1
