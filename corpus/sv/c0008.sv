module SimDTM; assign #0.1 debug_req_valid = __debug_req_valid; endmodule
