module t0989;
module m;
                  m1 n();
                endmodule

                module m1;
                  parameter p = 2;

                  defparam m.n.p = 1;
                  initial $display(m.n.p);

                  generate
                    if (p == 1) begin : m
                      m2 n();
                    end
                  endgenerate
                endmodule

                module m2;
                  parameter p = 3;
                endmodule
endmodule
