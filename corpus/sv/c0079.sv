module t0079;
var byte my_byte; // equivalent to "byte my_byte;"
                var v;            // equivalent to "var logic v;"
                var [15:0] vw;    // equivalent to "var logic [15:0] vw;"
                var enum bit { clear, error } status;
                input var logic data_in;
                var reg r;
endmodule
