module t0199;
int array_name [*];
endmodule
