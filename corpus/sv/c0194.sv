module t0194;
initial begin
                  B = new[ C.size ] (C);
                end
endmodule
