module t0367;
module select_bus(busout, bus0, bus1, bus2, bus3, enable, s);
                  parameter n = 16;
                  parameter Zee = 16'bz;
                  output [1:n] busout;
                  input [1:n] bus0, bus1, bus2, bus3;
                  input enable;
                  input [1:2] s;

                  tri [1:n] data; // net declaration

                  // net declaration with continuous assignment
                  tri [1:n] busout = enable ? data : Zee;

                  // assignment statement with four continuous assignments
                  assign
                    data = (s == 0) ? bus0 : Zee,
                    data = (s == 1) ? bus1 : Zee,
                    data = (s == 2) ? bus2 : Zee,
                    data = (s == 3) ? bus3 : Zee;
                endmodule
endmodule
