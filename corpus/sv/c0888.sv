module t0888;
module sync_array(a1,a2,a3,a4,a5,a6,a7,b1,b2,b3,clk);
                  input a1, a2, a3, a4, a5, a6, a7, clk;
                  output b1, b2, b3;
                  logic [1:7] mem[1:3]; // memory declaration
                  logic b1, b2, b3;
                  initial begin
                    // set up the personality
                    $readmemb("array.dat", mem);
                    // set up a synchronous logic array to be evaluated
                    // when a positive edge on the clock occurs
                    forever @(posedge clk)
                      $async$and$array(mem,{a1,a2,a3,a4,a5,a6,a7},{b1,b2,b3});
                  end
                endmodule
endmodule
