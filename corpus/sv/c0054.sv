module t0054;
(* fsm_state *) logic [7:0] state1;
                (* fsm_state=1 *) logic [3:0] state2, state3;
                logic [3:0] reg1;                   // reg1 does NOT have fsm_state set
                (* fsm_state=0 *) logic [3:0] reg2; // nor does reg2
endmodule
