module t0513;
function logic [15:0] myfunc1(int x, int y);
                endfunction

                function logic [15:0] myfunc2;
                  input int x;
                  input int y;
                endfunction
endmodule
