module a; always begin a = b.c'(0); end endmodule
