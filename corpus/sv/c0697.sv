module t0697;
sequence s1;
                  a ##1 b; // unclocked sequence
                endsequence
                sequence s2;
                  c ##1 d; // unclocked sequence
                endsequence
endmodule
