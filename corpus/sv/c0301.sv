module t0301;
interface class IntfBase;
                  parameter SIZE = 64;
                endclass

                interface class IntfExt1 extends IntfBase;
                  pure virtual function bit funcExt1();
                endclass

                interface class IntfExt2 extends IntfBase;
                  pure virtual function bit funcExt2();
                endclass

                interface class IntfExt3 extends IntfExt1, IntfExt2;
                endclass
endmodule
