module t0587;
assign not_a = !a;
                always_comb begin : b1
                  a1: assert (not_a != a);
                  a2: assert #0 (not_a != a); // Should pass once values have settled
                end
endmodule
