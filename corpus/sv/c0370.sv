module t0370;
module evaluates (out);
                  output out;
                  logic a, b, c;

                  initial begin
                    a = 0;
                    b = 1;
                    c = 0;
                  end

                  always c = #5 ~c;

                  always @(posedge c) begin
                    a <= b; // evaluates, schedules,
                    b <= a; // and executes in two steps
                  end
                endmodule
endmodule
