module t0508;
task my_task (input a, b, inout c, output d, e);
                  c = a; // the assignments that initialize result variables
                  d = b;
                  e = c;
                endtask
endmodule
