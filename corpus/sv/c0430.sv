module t0430;
initial begin
                  bit ba = a inside { [16:23], [32:47] };
                  string I;
                  if (I inside {["a rock":"hard place"]});
                    // I between "a rock" and a "hard place"
                end
endmodule
