module t0410;
initial begin
                  int n = 8, zero = 0;
                  int res = 'b01xz | n;      // res gets 'b11xz coerced to int, or 'b1100
                  int sum = n + n;           // sum gets 16 coerced to int, or 16
                  int sumx = 'x + n;         // sumx gets 'x coerced to int, or 0
                  int div2 = n/zero + n;     // div2 gets 'x coerced to int, or 0
                  integer div4 = n/zero + n; // div4 gets 'x
                end
endmodule
