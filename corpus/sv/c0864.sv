module t0864;
covergroup gc (int maxA, int maxB) @(posedge clk) ;
                  a : coverpoint a_var;
                  b : coverpoint b_var;
                endgroup

                initial begin
                  gc g1 = new (10,20);
                  g1.option.comment = "Here is a comment set for the instance g1";
                  g1.a.option.weight = 3; // Set weight for coverpoint "a" of instance g1
                end
endmodule
