module t0762;
checker my_check(logic clk, active);
                  bit active_d1 = 1'b0;

                  always_ff @(posedge clk) begin
                    active_d1 <= active;
                  end

                  covergroup cg_active @(posedge clk);
                    cp_active : coverpoint active
                    {
                      bins idle = { 1'b0 };
                      bins active = { 1'b1 };
                    }
                    cp_active_d1 : coverpoint active_d1
                    {
                      bins idle = { 1'b0 };
                      bins active = { 1'b1 };
                    }
                    option.per_instance = 1;
                  endgroup
                  cg_active cg_active_1 = new();
                endchecker : my_check
endmodule
