module t0656;
sequence s1;
                  logic v, w;
                  (a, v = e) ##1
                  (b[->1], w = f, $display("b after a with v = %h, w = %h\n", v, w));
                endsequence
endmodule
