module t0151;
typedef struct {
                  shortint address;
                  logic [3:0] code;
                  byte command [2];
                } Control;

                typedef bit Bits [36:1];

                Control p;
                Bits stream[$];

                initial begin
                  stream.push_back(Bits'(p)); // append packet to unpacked queue of Bits
                end

                initial begin
                  Bits b;
                  Control q;
                  b = stream.pop_front();     // get packet (as Bits) from stream
                  q = Control'(b);            // convert packet bits back to a Control packet
                end
endmodule
