module t0148;
col = Colors'(2 + 3);
endmodule
