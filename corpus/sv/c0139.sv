module t0139;
nettype nettypeid1 nettypeid2;
endmodule
