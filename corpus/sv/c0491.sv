module t0491;
initial begin
                  typedef union tagged {
                    struct {
                      bit [4:0] reg1, reg2, regd;
                    } Add;
                    union tagged {
                      bit [9:0] JmpU;
                      struct {
                        bit [1:0] cc;
                        bit [9:0] addr;
                      } JmpC;
                    } Jmp;
                  } Instr;

                  Instr instr;

                  case (instr) matches
                    tagged Add '{.r1, .r2, .rd} &&& (rd != 0) : rf[rd] = rf[r1] + rf[r2];
                    tagged Jmp .j : case (j) matches
                                      tagged JmpU .a : pc = pc + a;
                                      tagged JmpC '{.c, .a}: if (rf[c]) pc = a;
                                    endcase
                  endcase
                end
endmodule
