module t0417;
module shift;
                  logic [3:0] start, result;
                  initial begin
                    start = 1;
                    result = (start << 2);
                  end
                endmodule
endmodule
