module t0673;
assert property (@(clk) go ##1 get[*2] |-> sync_reject_on(stop) put[->2]);
endmodule
