module t0289;
interface class IntfClass;
                  pure virtual function void f();
                endclass

                class BaseClass;
                  function void f();
                    $display("Called BaseClass::f()");
                  endfunction
                endclass

                class ExtClass extends BaseClass implements IntfClass;
                  virtual function void f();
                    $display("Called ExtClass::f()");
                  endfunction
                endclass
endmodule
