module t0805;
class A;
                  rand int x;
                  constraint A1 { soft x == 3; }
                  constraint A2 { disable soft x; } // discard soft constraints
                  constraint A3 { soft x inside { 1, 2 }; }
                endclass

                initial begin
                  A a = new();
                  a.randomize();
                end
endmodule
