module t0898;
initial begin
                  integer c;
                  c = $fgetc ( fd );
                end
endmodule
