module t0588;
always @(a or b) begin : b1
                  a3: assert #0 (a == b) rptobj.success(0); else rptobj.error(0, a, b);
                  #1;
                  a4: assert #0 (a == b) rptobj.success(1); else rptobj.error(1, a, b);
                end
endmodule
