module t0355;
initial begin : block_name
                if (a == 0)
                  disable block_name;
                end // end of named block
                    // continue with code following named block
endmodule
