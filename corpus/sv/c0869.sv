module t0869;
bit [2:0] a, b;
                covergroup ct;
                  coverpoint b {
                    option.auto_bin_max = 4;
                    ignore_bins ig = { [0:1], [5:6] };
                  }
                endgroup
endmodule
