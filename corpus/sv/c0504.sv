module t0504;
task mytask1 (output int x, input logic y);
                endtask

                task mytask2;
                  output x;
                  input y;
                  int x;
                  logic y;
                endtask
endmodule
