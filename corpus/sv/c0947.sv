module t0947;
module mh_nonansi(x, y);
                  input wire x;
                  output tri0 y;
                endmodule

                module mh0 (wire x); endmodule               // inout wire logic x

                module mh1 (integer x); endmodule            // inout wire integer x

                module mh2 (inout integer x); endmodule      // inout wire integer x

                module mh3 ([5:0] x); endmodule              // inout wire logic [5:0] x

                module mh4 (var x); endmodule                // ERROR: direction defaults to inout,
                                                             // which cannot be var

                module mh5 (input x); endmodule              // input wire logic x

                module mh6 (input var x); endmodule          // input var logic x

                module mh7 (input var integer x); endmodule  // input var integer x

                module mh8 (output x); endmodule             // output wire logic x

                module mh9 (output var x); endmodule         // output var logic x

                module mh10(output signed [5:0] x); endmodule// output wire logic signed [5:0] x

                module mh11(output integer x); endmodule     // output var integer x

                module mh12(ref [5:0] x); endmodule          // ref var logic [5:0] x

                module mh13(ref x [5:0]); endmodule          // ref var logic x [5:0]
endmodule
