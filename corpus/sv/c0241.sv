module t0241;
class id;
                  static int current = 0;
                  static function int next_id();
                    next_id = ++current; // OK to access static class property
                  endfunction
                endclass
endmodule
