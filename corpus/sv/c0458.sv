module t0458;
let mult(x, y) = ($bits(x) + $bits(y))'(x * y);
endmodule
