module t0597;
module fsm();
                  function bit f (int a, int b);
                    a1: assert #0 (a == b);
                  endfunction

                  always_comb begin : b1
                    some_stuff = f(x,y);
                  end

                  always_comb begin : b2
                    other_stuff = f(z,w);
                  end
                endmodule
endmodule
