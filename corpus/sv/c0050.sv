module t0050;
int n[1:2][1:3] = '{'{0,1,2},'{3{4}}};
endmodule
