module t0464;
module top;
                  bit x = 1'b1;
                  bit a;
                  // let y = x;

                  always_comb begin
                    // y binds to preceding definition of x
                    // in the declarative context of let
                    bit x = 1'b0;
                    b = a | (top.x);
                  end
                endmodule : top
endmodule
