module t0349;
initial begin
                  a <= repeat(5) @(posedge clk) data;
                end
endmodule
