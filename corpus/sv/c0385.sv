module t0385;
initial begin
                  var int B[4] = '{a, b, c, d};
                  var C y = '{1.0, PI/2.0};
                  '{a, b, c, d} = B;
                end
endmodule
