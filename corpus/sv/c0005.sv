module ibex_cs_registers;
                                 localparam logic [31:0] MISA_VALUE = 32'(RV32E);
                               endmodule
