module t0963;
module netlist;
                  interconnect iwire;
                  dut1 child1(iwire);
                  dut2 child2(iwire);
                endmodule

                module dut1(inout wire w);
                  assign w = 1;
                endmodule

                module dut2(inout wand w);
                  assign w = 0;
                endmodule
endmodule
