module t0980;
genvar i;

                generate
                  for (i = 0; i < 8; i = i + 1) begin : somename
                    flop my_flop(in[i], in1[i], out1[i]);
                    defparam somename[i+1].my_flop.xyz = i ;
                  end
                endgenerate
endmodule
