module t0277;
class vector #(int size = 1);
                  bit [size-1:0] a;
                  static int count = 0;
                  function void disp_count();
                    $display( "count: %d of size %d", count, size );
                  endfunction
                endclass
endmodule
