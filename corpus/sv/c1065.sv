module t1065;
module tri_latch (qout, nqout, clock, data, enable);
                  output qout, nqout;
                  input clock, data, enable;
                  tri qout, nqout;

                  not #5           n1 (ndata, data);
                  nand #(3,5)      n2 (wa, data, clock),
                                   n3 (wb, ndata, clock);
                  nand #(12,15)    n4 (q, nq, wa),
                                   n5 (nq, q, wb);
                  bufif1 #(3,7,13) q_drive (qout, q, enable),
                                   nq_drive (nqout, nq, enable);
                endmodule
endmodule
