module t0674;
assert property (@(clk) go ##1 get[*2] |-> !stop throughout put[->2]);
endmodule
