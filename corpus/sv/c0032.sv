module mux2to1 (input wire a, b, sel, // combined port and type declaration
                                output logic y);
                  // netlist using built-in primitive instances
                  not g1 (sel_n, sel);
                  and g2 (a_s, a, sel_n);
                  and g3 (b_s, b, sel);
                  or g4 (y, a_s, b_s);
                endmodule: mux2to1
