module t0941;
module renamed_concat (.a({b,c}), f, .g(h[1]));
                  // Names 'b', 'c', 'f', 'h' are defined inside the module.
                  // Names 'a', 'f', 'g' are defined for port connections.
                  // Can use named port connections.
                endmodule
endmodule
