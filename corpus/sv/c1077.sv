primitive jk_edge_ff (q, clock, j, k, preset, clear);
                  output q; reg q;
                  input clock, j, k, preset, clear;
                  table
                    // clock jk pc state output/next state
                    ? ?? 01 : ? : 1 ; // preset logic
                    ? ?? *1 : 1 : 1 ;
                    ? ?? 10 : ? : 0 ; // clear logic
                    ? ?? 1* : 0 : 0 ;
                    r 00 00 : 0 : 1 ; // normal clocking cases
                    r 00 11 : ? : - ;
                    r 01 11 : ? : 0 ;
                    r 10 11 : ? : 1 ;
                    r 11 11 : 0 : 1 ;
                    r 11 11 : 1 : 0 ;
                    f ?? ?? : ? : - ;
                    b *? ?? : ? : - ; // j and k transition cases
                    b ?* ?? : ? : - ;
                  endtable
                endprimitive
