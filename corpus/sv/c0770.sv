module t0770;
checker data_legal_with_loc(start_ev, end_ev, in_data, out_data);
                  sequence transaction (loc_var);
                    (start_ev, loc_var = in_data) ##1 end_ev[->1];
                  endsequence
                  property data_legal;
                    bit [$bits(in_data)-1:0] mem_data;
                    transaction(mem_data) |-> out_data == mem_data;
                  endproperty
                  a1: assert property (@clock data_legal);
                endchecker : data_legal_with_loc
endmodule
