module t0723;
property r3;
                  q != d;
                endproperty
                always_ff @(clock iff reset == 0 or posedge reset) begin
                  cnt <= reset ? 0 : cnt + 1;
                  q <= $past(d1); // no inferred clock
                  r3_p: assert property (r3); // no inferred clock
                end
endmodule
