module t0779;
initial begin
                  Bus bus = new;

                  repeat (50) begin
                    if ( bus.randomize() == 1 )
                      $display ("addr = %16h data = %h\n", bus.addr, bus.data);
                    else
                      $display ("Randomization failed.\n");
                  end
                end
endmodule
