module t0427;
initial begin
                  int a, b, c;
                  int array [$] = '{3,4,5};
                  if ( a inside {b, c} );
                  if ( ex inside {1, 2, array} ); // same as { 1, 2, 3, 4, 5}
                end
endmodule
