module t1131;
initial begin
                  for (i = 1; i <= 1024; i = i + 1)
                    @(posedge clk) $get_vector("test_vector.pat", input_bus);
                end
endmodule
