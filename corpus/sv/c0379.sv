module t0379;
module dff (q, d, clear, preset, clock);
                  output q;
                  input d, clear, preset, clock;
                  logic q;

                  always @(clear or preset)
                    if (!clear)
                      assign q = 0;
                    else if (!preset)
                      assign q = 1;
                    else
                      deassign q;

                  always @(posedge clock)
                    q = d;
                endmodule
endmodule
