module t0405;
module overlap(inout wire [15:0] bus16, inout wire [11:0] low12, high12);
                  alias bus16[11:0] = low12;
                  alias bus16[15:4] = high12;
                endmodule

                module overlap(inout wire [15:0] bus16, inout wire [11:0] low12, high12);
                  alias bus16 = {high12, low12[3:0]};
                  alias high12[7:0] = low12[11:4];
                endmodule
endmodule
