module t0553;
module top;
                  subsystem1 sub1();
                  subsystem2 sub2();
                endmodule

                module subsystem1;
                  logic subclk1, req, ack;
                  global clocking sub_sys1 @(subclk1); endclocking
                  always another_module.t(req, ack);
                endmodule

                module subsystem2;
                  logic subclk2, req, ack;
                  global clocking sub_sys2 @(subclk2); endclocking
                  always another_module.t(req, ack);
                endmodule

                module another_module;
                  logic another_clk;
                  global clocking another_clocking @(another_clk); endclocking
                  task t(input req, input ack);
                    @($global_clock);
                  endtask
                endmodule
endmodule
