module t0166;
typedef union tagged {
                  struct {
                    bit [4:0] reg1, reg2, regd;
                  } Add;
                  union tagged {
                    bit [9:0] JmpU;
                    struct {
                      bit [1:0] cc;
                      bit [9:0] addr;
                    } JmpC;
                  } Jmp;
                } Instr;
endmodule
