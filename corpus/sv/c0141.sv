module t0141;
localparam type T = type(bit[12:0]);
endmodule
