package A;
                  typedef struct {
                    bit [ 7:0] opcode;
                    bit [23:0] addr;
                  } instruction_t;
                endpackage: A

                package B;
                  typedef enum bit {FALSE, TRUE} boolean_t;
                endpackage: B

                module M import A::instruction_t, B::*;
                  #(WIDTH = 32)
                  (input [WIDTH-1:0] data,
                   input instruction_t a,
                   output [WIDTH-1:0] result,
                   output boolean_t OK
                  );
                endmodule: M
