module t0259;
class BasePacket;
                  int A = 1;
                  int B = 2;
                  function void printA;
                    $display("BasePacket::A is %d", A);
                  endfunction : printA
                  virtual function void printB;
                    $display("BasePacket::B is %d", B);
                  endfunction : printB
                endclass : BasePacket

                class My_Packet extends BasePacket;
                  int A = 3;
                  int B = 4;
                  function void printA;
                    $display("My_Packet::A is %d", A);
                  endfunction: printA
                  virtual function void printB;
                    $display("My_Packet::B is %d", B);
                  endfunction : printB
                endclass : My_Packet

                BasePacket P1 = new;
                My_Packet P2 = new;

                initial begin
                  P1.printA; // displays 'BasePacket::A is 1'
                  P1.printB; // displays 'BasePacket::B is 2'
                  P1 = P2;   // P1 has a handle to a My_packet object
                  P1.printA; // displays 'BasePacket::A is 1'
                  P1.printB; // displays 'My_Packet::B is 4' – latest derived method
                  P2.printA; // displays 'My_Packet::A is 3'
                  P2.printB; // displays 'My_Packet::B is 4'
                end
endmodule
