module t0082;
tri1 scalared [63:0] bus64; //a bus that will be expanded
                tri vectored [31:0] data;   //a bus that may or may not be expanded
endmodule
