module t0363;
initial begin
                  #1ns r = a;
                  r = #1ns a;
                  r <= #1ns a;
                end
                assign #2.5ns sum = a + b;
endmodule
