module t0683;
property p2(s,p,q);
                  s |=> prop_weak_until(p,q);
                endproperty
endmodule
