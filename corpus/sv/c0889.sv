module t0889;
module pla;
                  logic [1:cols] a, mem[1:rows];
                  logic [1:rows] b;
                  initial begin
                    // PLA system call
                    $async$and$plane(mem,a[1:3],b[1:4]);
                    mem[1] = 3'b10?;
                    mem[2] = 3'b??1;
                    mem[3] = 3'b0?0;
                    mem[4] = 3'b???;
                    // stimulus and display
                    #10 a = 3'b111;
                    #10 $displayb(a, " -> ", b);
                    #10 a = 3'b000;
                    #10 $displayb(a, " -> ", b);
                    #10 a = 3'bxxx;
                    #10 $displayb(a, " -> ", b);
                    #10 a = 3'b101;
                    #10 $displayb(a, " -> ", b);
                  end
                endmodule
endmodule
