module t0372;
module nonblock2;
                  logic a, b;
                  initial begin
                    a = 0;
                    b = 1;
                    a <= b; // evaluates, schedules,
                    b <= a; // and executes in two steps
                  end

                  initial begin
                    $monitor ($time, ,"a = %b b = %b", a, b);
                    #100 $finish;
                  end
                endmodule
endmodule
