module t1009;
module m (i2.master i);
                endmodule

                module s (i2.slave i);
                endmodule

                module top;
                  i2 i();
                  m u1(.i(i));
                  s u2(.i(i));
                endmodule
endmodule
