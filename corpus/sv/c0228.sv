module t0228;
class vector #(parameter width = 7, type T = int);
                endclass

                vector #(3) v = new;
                initial $display (vector #(3)::T'(3.45)); // Typecasting
                initial $display ((v.T)'(3.45)); //ILLEGAL
                initial $display (v.width);
endmodule
