module t0074;
wire w;         // equivalent to "wire logic w;"
                wire [15:0] ww; // equivalent to "wire logic [15:0] ww;"
endmodule
