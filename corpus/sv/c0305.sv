module t0305;
typedef class C ;
                module top ;
                  C#(1, real) v2 ; // positional parameter override
                  C#(.p(2), .T(real)) v3 ; // named parameter override
                endmodule

                class C #(parameter p = 2, type T = int);
                endclass
endmodule
