module t0179;
bit [3:0] [7:0] j; // j is a packed array
                byte k;
                k = j[2]; // select a single 8-bit element from j
endmodule
