module t0937;
module test(a,b,c,d,e,f,g,h);
                  input [7:0] a;         // no explicit net declaration - net is unsigned
                  input [7:0] b;
                  input signed [7:0] c;
                  input signed [7:0] d;  // no explicit net declaration - net is signed
                  output [7:0] e;        // no explicit net declaration - net is unsigned
                  output [7:0] f;
                  output signed [7:0] g;
                  output signed [7:0] h; // no explicit net declaration - net is signed

                  wire signed [7:0] b; // port b inherits signed attribute from net decl.
                  wire [7:0] c;        // net c inherits signed attribute from port
                  logic signed [7:0] f;// port f inherits signed attribute from logic decl.
                  logic [7:0] g;       // logic g inherits signed attribute from port
                endmodule
endmodule
