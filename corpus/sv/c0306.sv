module t0306;
initial begin
                  myClass obj = new;
                  fork
                    task1( obj );
                    task2( obj );
                  join_none
                end
endmodule
