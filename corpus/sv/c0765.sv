module t0765;
checker counter_model(logic flag);
                  bit [2:0] counter = '0;
                  always_ff @($global_clock)
                    counter <= counter + 1'b1;
                  assert property (@($global_clock) counter == 0 |-> flag);
                endchecker : counter_model
endmodule
