module t0783;
class XYPair;
                  rand integer x, y;
                endclass

                class MyXYPair extends XYPair;
                  function void pre_randomize();
                    super.pre_randomize();
                    $display("Before randomize x=%0d, y=%0d", x, y);
                  endfunction

                  function void post_randomize();
                    super.post_randomize();
                    $display("After randomize x=%0d, y=%0d", x, y);
                  endfunction
                endclass
endmodule
