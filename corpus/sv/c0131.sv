module t0131;
typedef struct packed {int A; int B;} AB_t;
                AB_t AB1; AB_t AB2; // AB1 and AB2 have matching types

                typedef struct packed {int A; int B;} otherAB_t;
                otherAB_t AB3; // the type of AB3 does not match the type of AB1 or AB2
endmodule
