module t0147;
initial begin
                  if ( ! $cast( col, 2 + 8 ) ) // 10: invalid cast
                    $display( "Error in cast" );
                end
endmodule
