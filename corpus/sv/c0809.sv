module t0809;
class SimpleSum;
                  rand bit [7:0] x, y, z;
                  constraint c {z == x + y;}
                endclass

                task InlineConstraintDemo(SimpleSum p);
                  int success;
                  success = p.randomize() with {x < y;};
                endtask
endmodule
