module t0543;
module top;
                  logic phi1, phi2;

                  bus_A a (phi1);
                  bus_B b (phi2);

                  test main (a, b);
                  cpu cpu1 (a);
                  mem mem1 (b);
                endmodule
endmodule
