module t1084;
module mux8 (in1, in2, s, q) ;
                  output [7:0] q;
                  input [7:0] in1, in2;
                  input s;
                  // Functional description omitted ...
                  specify
                    (in1 => q) = (3, 4) ;
                    (in2 => q) = (2, 3) ;
                    (s *> q) = 1;
                  endspecify
                endmodule
endmodule
