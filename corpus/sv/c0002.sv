interface intf (); localparam TYPE DEFAULT = TYPE'(0); endinterface
