module t0038;
initial begin
$display("Humpty Dumpty sat on a wall. \
                Humpty Dumpty had a great fall.");
end
endmodule
