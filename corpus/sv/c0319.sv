module t0319;
initial begin
                  fork
                    #50 r = 'h35;
                    #100 r = 'hE2;
                    #150 r = 'h00;
                    #200 r = 'hF7;
                  join
                end
endmodule
