module t0742;
sequence s2; @(posedge clk) a ##2 b; endsequence
                property p2; not s2; endproperty
                assert property (p2);
endmodule
