module t0778;
class Bus;
                  rand bit[15:0] addr;
                  rand bit[31:0] data;

                  constraint word_align {addr[1:0] == 2'b0;}
                endclass
endmodule
