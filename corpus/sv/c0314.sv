module t0314;
always_ff @(posedge clock iff reset == 0 or posedge reset) begin
                  r1 <= reset ? 0 : r2 + 1;
                end
endmodule
