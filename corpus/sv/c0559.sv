module t0559;
initial begin
                  @(posedge dom.sig1 or dom.sig2);
                end
endmodule
