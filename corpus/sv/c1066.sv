module t1066;
module iobuf (io1, io2, dir);
                  bufif0 #(5:7:9, 8:10:12, 15:18:21) b1 (io1, io2, dir);
                  bufif1 #(6:8:10, 5:7:9, 13:17:19) b2 (io2, io1, dir);
                endmodule
endmodule
