module t0362;
task automatic do_n_way( int N );
                  process job[] = new [N];

                  foreach (job[j])
                    fork
                      automatic int k = j;
                      begin job[k] = process::self(); end
                    join_none

                  foreach (job[j]) // wait for all processes to start
                    wait( job[j] != null );
                  job[1].await(); // wait for first process to finish

                  foreach (job[j]) begin
                    if ( job[j].status != process::FINISHED )
                      job[j].kill();
                  end
                endtask
endmodule
