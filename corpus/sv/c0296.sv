module t0296;
initial begin
                  $cast(fifo_obj, put_ref); // legal
                  $cast(put_ref, fifo_obj); // legal, but casting is not required
                end
endmodule
