module t0899;
initial begin
                  integer code;
                  code = $ungetc ( c, fd );
                end
endmodule
