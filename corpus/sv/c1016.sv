module t1016;
interface A_Bus( input logic clk );
                  wire req, gnt;
                  wire [7:0] addr, data;

                  clocking sb @(posedge clk);
                    input gnt;
                    output req, addr;
                    inout data;

                    property p1; req ##[1:3] gnt; endproperty
                  endclocking

                  modport DUT ( input clk, req, addr, // Device under test modport
                                output gnt,
                                inout data );

                  modport STB ( clocking sb ); // synchronous testbench modport

                  modport TB ( input gnt, // asynchronous testbench modport
                               output req, addr,
                               inout data );
                endinterface
endmodule
