module t0237;
D d = new;
                C c = d;
endmodule
