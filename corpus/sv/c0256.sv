module t0256;
class Packet;
                  local integer i;
                  function integer compare (Packet other);
                    compare = (this.i == other.i);
                  endfunction
                endclass
endmodule
