module t0193;
int A[100:1];     // fixed-size array of 100 elements
                int B[];          // empty dynamic array
                int C[] = new[8]; // dynamic array of size 8

                initial begin
                  B = A;          // ok. B has 100 elements
                  B = C;          // ok. B has 8 elements
                end
endmodule
