module t0686;
property illegal_recursion_3(p);
                  disable iff (b)
                  p and (1'b1 |=> illegal_recursion_3(p));
                endproperty
endmodule
