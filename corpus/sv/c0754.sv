module t0754;
checker my_check3 (logic a, b, event clock, output bit failure, undef);
                  default clocking @clock; endclocking
                  a1: assert property ($onehot0({a, b})) failure = 1'b0; else failure = 1'b1;
                  a2: assert property ($isunknown({a, b})) undef = 1'b0; else undef = 1'b1;
                endchecker : my_check3
endmodule
