module t0175;
typedef bsix mem_type [0:3]; // array of four 'bsix' elements
                mem_type ba [0:7];           // array of eight 'mem_type' elements
endmodule
