module t1130;
initial begin
                  $get_vector("test_vector.pat", input_bus);
                end
endmodule
