module t0993;
interface range (input clk, enable, input var int minval, expr);
                  property crange_en;
                    @(posedge clk) enable |-> (minval <= expr);
                  endproperty
                  range_chk: assert property (crange_en);
                endinterface

                bind cr_unit range r1(c_clk,c_en,v_low,(in1&&in2));
endmodule
