module t0274;
vector #(10) vten;        // object with vector of size 10
                vector #(.size(2)) vtwo;  // object with vector of size 2
                typedef vector#(4) Vfour; // Class with vector of size 4
endmodule
