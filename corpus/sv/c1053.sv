module t1053;
module driver (in, out, en);
                  input [3:0] in;
                  output [3:0] out;
                  input en;

                  bufif0 ar[3:0] (out, in, en); // array of three-state buffers
                endmodule

                module driver_equiv (in, out, en);
                  input [3:0] in;
                  output [3:0] out;
                  input en;

                  bufif0 ar3 (out[3], in[3], en); // each buffer declared separately
                  bufif0 ar2 (out[2], in[2], en);
                  bufif0 ar1 (out[1], in[1], en);
                  bufif0 ar0 (out[0], in[0], en);
                endmodule
endmodule
