module t0867;
covergroup C1 (int v) with function sample (int v, bit b); // error (v)
                  coverpoint v;
                  option.per_instance = b;// error: b may only designate a coverpoint
                  option.weight = v; // error: v is ambiguous
                endgroup
endmodule
