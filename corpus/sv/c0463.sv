module t0463;
module top;
                  logic x = 1'b1;
                  logic a, b;
                  let y = x;

                  always_comb begin
                    // y binds to preceding definition of x
                    // in the declarative context of let
                    bit x = 1'b0;
                    b = a | y;
                  end
                endmodule : top
endmodule
