module t0616;
sequence s(bit a, bit b);
                  bit loc_a;
                  (1'b1, loc_a = a) ##0
                  (t == loc_a) [*0:$] ##1 b;
                endsequence
endmodule
